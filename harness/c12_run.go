package main

import (
	"bytes"
	"context"
	"encoding/json"
	"flag"
	"fmt"
	"go/ast"
	"go/importer"
	"go/parser"
	"go/token"
	"go/types"
	"io/fs"
	"os"
	"os/exec"
	"strings"
	"sync"
	"time"

	"github.com/traefik/yaegi/interp"
	"github.com/traefik/yaegi/stdlib"
)

// ---------------------------------------------------------------- reference: go/types

// c12Importer serves the few standard packages the templates import; they are type-checked once from
// source (offline, no export data needed) and shared read-only by all workers.
type c12Importer struct {
	mu   sync.Mutex
	pkgs map[string]*types.Package
	src  types.Importer
}

var c12Imp = &c12Importer{pkgs: map[string]*types.Package{}}

func (im *c12Importer) Import(path string) (*types.Package, error) {
	im.mu.Lock()
	defer im.mu.Unlock()
	if p, ok := im.pkgs[path]; ok {
		return p, nil
	}
	if im.src == nil {
		im.src = importer.ForCompiler(token.NewFileSet(), "source", nil)
	}
	p, err := im.src.Import(path)
	if err != nil {
		return nil, err
	}
	im.pkgs[path] = p
	return p, nil
}

// c12Importer2 adds in-memory source packages (multi-package stream) on top of c12Imp.
type types_Package = types.Package

type c12MapImporter struct {
	files map[string]string // import path -> source
	done  map[string]*types_Package
	errs  *[]string
}

func (im *c12MapImporter) Import(path string) (*types.Package, error) {
	if p, ok := im.done[path]; ok {
		return p, nil
	}
	src, ok := im.files[path]
	if !ok {
		return c12Imp.Import(path)
	}
	fset := token.NewFileSet()
	f, err := parser.ParseFile(fset, path+".go", src, 0)
	if err != nil {
		return nil, err
	}
	conf := types.Config{Importer: im, Error: func(err error) {
		if !c12Unused(err.Error()) {
			*im.errs = append(*im.errs, err.Error())
		}
	}}
	p, _ := conf.Check(path, fset, []*ast.File{f}, nil)
	im.done[path] = p
	return p, nil
}

func c12Unused(msg string) bool {
	return strings.Contains(msg, "declared and not used") || strings.Contains(msg, "imported and not used") ||
		(strings.Contains(msg, "label") && strings.Contains(msg, "declared and not used"))
}

type c12Checked struct {
	Fset *token.FileSet
	File *ast.File
	Info *types.Info
	Pkg  *types.Package
	Errs []string // errors other than unused variables / imports / labels
}

// c12TypeCheck parses and type-checks one single-file main package.
// Unused variables, imports and labels are not counted: yaegi does not check them and the property
// does not list them.
func c12TypeCheck(src string, wantInfo bool) (*c12Checked, error) {
	fset := token.NewFileSet()
	f, err := parser.ParseFile(fset, "main.go", src, parser.SkipObjectResolution)
	if err != nil {
		return nil, err
	}
	res := &c12Checked{Fset: fset, File: f}
	if wantInfo {
		res.Info = &types.Info{Types: map[ast.Expr]types.TypeAndValue{}, Defs: map[*ast.Ident]types.Object{}, Uses: map[*ast.Ident]types.Object{},
			Selections: map[*ast.SelectorExpr]*types.Selection{}, Implicits: map[ast.Node]types.Object{}}
	}
	conf := types.Config{Importer: c12Imp, Error: func(err error) {
		if !c12Unused(err.Error()) {
			res.Errs = append(res.Errs, err.Error())
		}
	}}
	res.Pkg, _ = conf.Check("main", fset, []*ast.File{f}, res.Info)
	return res, nil
}

// ---------------------------------------------------------------- implementation: yaegi

// c12Obs is the projected observable of one evaluation.
//
//	rejected   Eval returned a non-nil error and nothing was written
//	accepted   Eval returned nil (the program ran)
//	printed    Eval returned an error but bytes were written to Stdout/Stderr before
//	host-panic Eval panicked in the host instead of returning
//	timeout
type c12Obs struct {
	Class  string `json:"class"`
	Err    string `json:"err,omitempty"`
	Output string `json:"output,omitempty"`
}

type c12syncBuf struct {
	mu sync.Mutex
	b  bytes.Buffer
}

func (s *c12syncBuf) Write(p []byte) (int, error) {
	s.mu.Lock()
	defer s.mu.Unlock()
	return s.b.Write(p)
}
func (s *c12syncBuf) String() string {
	s.mu.Lock()
	defer s.mu.Unlock()
	return s.b.String()
}

// c12Eval decides the observable of interp.Eval(src) in a fresh interpreter.
// Stage 1 (in this process, host panics caught): interp.Compile, which is the first half of Eval
// (eval = compileSrc; Execute): an error here is what Eval returns before anything can run, a panic
// here is a panic of Eval in the host (Eval has no recover around the compile passes).
// Stage 2 (only if the source compiles, i.e. the mutant escaped the checks): the real Eval in a child
// process of this binary, because an accepted ill-typed program may crash the host from a goroutine.
func c12Eval(src string, useStd bool, fsys fs.FS, timeout time.Duration) c12Obs {
	o := c12Compile(src, useStd, fsys)
	if o.Class != "compiled" {
		return o
	}
	var r c12Obs
	if fsys != nil {
		r = c12EvalInProcess(src, useStd, fsys, timeout)
	} else {
		r = c12EvalChild(src, useStd, timeout)
	}
	// the source passed the static checks: whatever happens at run time (normal end, run-time
	// panic, endless loop, crash of the host) the program has been executed: class "ran".
	// Only an error returned before any output keeps the property (class "rejected").
	if r.Class != "rejected" {
		r.Err = r.Class + ": " + r.Err
		r.Class = "ran"
	}
	return r
}

func c12NewInterp(out *c12syncBuf, useStd bool, fsys fs.FS) (*interp.Interpreter, error) {
	opts := interp.Options{Stdout: out, Stderr: out}
	if fsys != nil {
		opts.SourcecodeFilesystem = fsys
		opts.GoPath = "."
	}
	i := interp.New(opts)
	if useStd {
		if err := i.Use(stdlib.Symbols); err != nil {
			return nil, err
		}
	}
	return i, nil
}

func c12Compile(src string, useStd bool, fsys fs.FS) (o c12Obs) {
	var out c12syncBuf
	defer func() {
		if p := recover(); p != nil {
			o = c12Obs{Class: "host-panic", Err: firstLine(fmt.Sprint(p)), Output: out.String()}
		}
	}()
	i, err := c12NewInterp(&out, useStd, fsys)
	if err != nil {
		return c12Obs{Class: "host-panic", Err: "use: " + err.Error()}
	}
	_, err = i.Compile(src)
	o.Output = out.String()
	switch {
	case err == nil:
		o.Class = "compiled"
	case o.Output != "":
		o.Class = "printed"
		o.Err = firstLine(err.Error())
	default:
		o.Class = "rejected"
		o.Err = firstLine(err.Error())
	}
	return o
}

// c12EvalInProcess runs interp.Eval under recover with a timeout.
func c12EvalInProcess(src string, useStd bool, fsys fs.FS, timeout time.Duration) c12Obs {
	var out c12syncBuf
	done := make(chan c12Obs, 1)
	go func() {
		var o c12Obs
		defer func() {
			if p := recover(); p != nil {
				o.Class = "host-panic"
				o.Err = firstLine(fmt.Sprint(p))
				o.Output = out.String()
			}
			done <- o
		}()
		i, err := c12NewInterp(&out, useStd, fsys)
		if err != nil {
			o.Class = "host-panic"
			o.Err = "use: " + err.Error()
			return
		}
		_, err = i.Eval(src)
		o.Output = out.String()
		switch {
		case err == nil:
			o.Class = "accepted"
		case o.Output != "":
			o.Class = "printed"
			o.Err = firstLine(err.Error())
		default:
			o.Class = "rejected"
			o.Err = firstLine(err.Error())
		}
	}()
	select {
	case o := <-done:
		return o
	case <-time.After(timeout):
		return c12Obs{Class: "timeout", Output: out.String()}
	}
}

func init() {
	register("c12-child", "internal: Eval one source file with yaegi, print the C12 observable as JSON", func(args []string) error {
		fs := flag.NewFlagSet("c12-child", flag.ExitOnError)
		std := fs.Bool("std", false, "Use(stdlib.Symbols)")
		timeout := fs.Duration("timeout", 10*time.Second, "timeout")
		fs.Parse(args)
		b, err := os.ReadFile(fs.Arg(0))
		if err != nil {
			return err
		}
		o := c12EvalInProcess(string(b), *std, nil, *timeout)
		if len(o.Output) > 200 {
			o.Output = o.Output[:200]
		}
		return json.NewEncoder(os.Stdout).Encode(o)
	})
}

// c12EvalChild: the same in a child process; a crash of the child is class "host-crash".
func c12EvalChild(src string, useStd bool, timeout time.Duration) c12Obs {
	f, err := os.CreateTemp("", "vh-c12-*.go")
	if err != nil {
		return c12Obs{Class: "host-panic", Err: "tempfile"}
	}
	defer os.Remove(f.Name())
	f.WriteString(src)
	f.Close()
	self, _ := os.Executable()
	ctx, cancel := context.WithTimeout(context.Background(), timeout+10*time.Second)
	defer cancel()
	args := []string{"c12-child", "-timeout", timeout.String()}
	if useStd {
		args = append(args, "-std")
	}
	cmd := exec.CommandContext(ctx, self, append(args, f.Name())...)
	var so, se bytes.Buffer
	cmd.Stdout, cmd.Stderr = &so, &se
	rerr := cmd.Run()
	var o c12Obs
	if json.Unmarshal(so.Bytes(), &o) == nil && o.Class != "" {
		return o
	}
	if ctx.Err() != nil {
		return c12Obs{Class: "timeout"}
	}
	msg := firstLine(se.String())
	if i := strings.Index(se.String(), "panic: "); i >= 0 {
		msg = firstLine(se.String()[i:])
	}
	return c12Obs{Class: "host-crash", Err: firstLine(fmt.Sprint(rerr)) + ": " + msg}
}
