//go:build race

package main

// c08raceEnabled: this binary was built with the Go race detector.
const c08raceEnabled = true
