package main

import (
	"encoding"
	"encoding/json"
	"encoding/xml"
	"flag"
	"fmt"
	"go/ast"
	"go/parser"
	"go/token"
	"path/filepath"
	"reflect"
	"sort"
	"strings"
)

// tr-c05-maptypes: regenerates coq/gen/MapTypes_gen.v from stdlib/maptypes.go and
// stdlib/wrapper-composed.go: for every key of MapTypes (a compiled function with interface{}
// parameters, or a wrapper of a static interface) the ORDERED list of interfaces / composed
// wrappers yaegi tries, each with its method names.  callBin's getMapType and use.go's getWrapper
// take the first entry of the list that the interpreted type implements, so the order is semantics.

func init() {
	register("tr-c05-maptypes", "translator: MapTypes lists of stdlib/maptypes.go and wrapper-composed.go -> MapTypes_gen.v", trC05MapTypes)
}

// interfaces that maptypes.go may name, resolved by reflection on the installed release
var c05KnownIfaces = map[string]reflect.Type{
	"fmt.Formatter":            reflect.TypeOf((*fmt.Formatter)(nil)).Elem(),
	"fmt.Stringer":             reflect.TypeOf((*fmt.Stringer)(nil)).Elem(),
	"fmt.GoStringer":           reflect.TypeOf((*fmt.GoStringer)(nil)).Elem(),
	"fmt.Scanner":              reflect.TypeOf((*fmt.Scanner)(nil)).Elem(),
	"json.Marshaler":           reflect.TypeOf((*json.Marshaler)(nil)).Elem(),
	"json.Unmarshaler":         reflect.TypeOf((*json.Unmarshaler)(nil)).Elem(),
	"encoding.TextMarshaler":   reflect.TypeOf((*encoding.TextMarshaler)(nil)).Elem(),
	"encoding.TextUnmarshaler": reflect.TypeOf((*encoding.TextUnmarshaler)(nil)).Elem(),
	"xml.Marshaler":            reflect.TypeOf((*xml.Marshaler)(nil)).Elem(),
	"xml.Unmarshaler":          reflect.TypeOf((*xml.Unmarshaler)(nil)).Elem(),
	"error":                    reflect.TypeOf((*error)(nil)).Elem(),
}

type c05MapEntry struct {
	Name    string
	Methods []string
}

func exprStr(e ast.Expr) string {
	switch x := e.(type) {
	case *ast.Ident:
		return x.Name
	case *ast.SelectorExpr:
		return exprStr(x.X) + "." + x.Sel.Name
	case *ast.StarExpr:
		return exprStr(x.X)
	case *ast.ParenExpr:
		return exprStr(x.X)
	}
	return "?"
}

// typeArg extracts T from reflect.TypeOf((*T)(nil)).Elem() / reflect.ValueOf((*T)(nil)).Type().Elem() / reflect.ValueOf(f)
func typeArg(e ast.Expr) string {
	var found string
	ast.Inspect(e, func(n ast.Node) bool {
		if c, ok := n.(*ast.CallExpr); ok {
			if p, ok := c.Fun.(*ast.ParenExpr); ok {
				if st, ok := p.X.(*ast.StarExpr); ok && found == "" {
					found = exprStr(st.X)
				}
			}
			if s, ok := c.Fun.(*ast.SelectorExpr); ok && exprStr(s) == "reflect.ValueOf" && len(c.Args) == 1 && found == "" {
				if _, isCall := c.Args[0].(*ast.CallExpr); !isCall {
					found = exprStr(c.Args[0])
				}
			}
		}
		return true
	})
	return found
}

func parseMapTypes(file string, structs map[string][]string) (keys []string, table map[string][]c05MapEntry, err error) {
	fset := token.NewFileSet()
	f, err := parser.ParseFile(fset, file, nil, 0)
	if err != nil {
		return nil, nil, err
	}
	table = map[string][]c05MapEntry{}
	// struct wrappers declared in this file: fields W<Method>
	for _, d := range f.Decls {
		gd, ok := d.(*ast.GenDecl)
		if !ok {
			continue
		}
		for _, sp := range gd.Specs {
			ts, ok := sp.(*ast.TypeSpec)
			if !ok {
				continue
			}
			st, ok := ts.Type.(*ast.StructType)
			if !ok {
				continue
			}
			var ms []string
			for _, fl := range st.Fields.List {
				for _, n := range fl.Names {
					if strings.HasPrefix(n.Name, "W") && n.Name != "W" {
						ms = append(ms, n.Name[1:])
					}
				}
			}
			structs[ts.Name.Name] = ms
		}
	}
	list := func(e ast.Expr, vars map[string][]c05MapEntry) []c05MapEntry {
		if id, ok := e.(*ast.Ident); ok {
			return vars[id.Name]
		}
		cl, ok := e.(*ast.CompositeLit)
		if !ok {
			return nil
		}
		var res []c05MapEntry
		for _, el := range cl.Elts {
			name := typeArg(el)
			ent := c05MapEntry{Name: name}
			if rt, ok := c05KnownIfaces[name]; ok {
				for i := 0; i < rt.NumMethod(); i++ {
					ent.Methods = append(ent.Methods, rt.Method(i).Name)
				}
			} else if ms, ok := structs[name]; ok {
				ent.Methods = append([]string{}, ms...)
			}
			sort.Strings(ent.Methods)
			res = append(res, ent)
		}
		return res
	}
	for _, d := range f.Decls {
		fd, ok := d.(*ast.FuncDecl)
		if !ok || fd.Name.Name != "init" || fd.Body == nil {
			continue
		}
		vars := map[string][]c05MapEntry{}
		for _, st := range fd.Body.List {
			as, ok := st.(*ast.AssignStmt)
			if !ok || len(as.Lhs) != 1 || len(as.Rhs) != 1 {
				continue
			}
			switch l := as.Lhs[0].(type) {
			case *ast.Ident:
				vars[l.Name] = list(as.Rhs[0], vars)
			case *ast.IndexExpr:
				if exprStr(l.X) != "MapTypes" {
					continue
				}
				k := typeArg(l.Index)
				if _, dup := table[k]; !dup {
					keys = append(keys, k)
				}
				table[k] = list(as.Rhs[0], vars)
			}
		}
	}
	return keys, table, nil
}

func trC05MapTypes(args []string) error {
	fs := flag.NewFlagSet("tr-c05-maptypes", flag.ExitOnError)
	repo := fs.String("repo", "/repo", "repository root")
	out := fs.String("out", "/verif/coq/gen", "output directory")
	fs.Parse(args)
	structs := map[string][]string{}
	var b strings.Builder
	b.WriteString("(* generated by vh tr-c05-maptypes from stdlib/maptypes.go and stdlib/wrapper-composed.go; do not edit *)\n")
	b.WriteString("From Verif Require Import Lib.Str.\n")
	b.WriteString("(* key (compiled function or wrapper of a static interface) -> ordered list of (interface or composed wrapper, its methods) *)\n")
	b.WriteString("Definition maptypes_gen : list (str * list (str * list str)) := [\n")
	var rows []string
	for _, fn := range []string{"wrapper-composed.go", "maptypes.go"} {
		keys, table, err := parseMapTypes(filepath.Join(*repo, "stdlib", fn), structs)
		if err != nil {
			return err
		}
		for _, k := range keys {
			var ents []string
			for _, e := range table[k] {
				ents = append(ents, fmt.Sprintf("(%s, %s)", coqStr(e.Name), coqStrList(e.Methods)))
			}
			rows = append(rows, fmt.Sprintf("  (%s, %s)", coqStr(k), coqList(ents)))
		}
	}
	if len(rows) == 0 {
		return fmt.Errorf("no MapTypes entry found")
	}
	b.WriteString(strings.Join(rows, ";\n"))
	b.WriteString("\n].\n")
	return writeIfChanged(filepath.Join(*out, "MapTypes_gen.v"), []byte(b.String()))
}

// c05MapTypesOf returns the regenerated table for the harness' twin (same parser as the translator).
func c05MapTypesOf(repo string) (map[string][]c05MapEntry, error) {
	structs := map[string][]string{}
	res := map[string][]c05MapEntry{}
	for _, fn := range []string{"wrapper-composed.go", "maptypes.go"} {
		_, table, err := parseMapTypes(filepath.Join(repo, "stdlib", fn), structs)
		if err != nil {
			return nil, err
		}
		for k, v := range table {
			res[k] = v
		}
	}
	return res, nil
}
