package main

import (
	"fmt"
	"path"
	"reflect"
	"sort"
	"strings"

	"github.com/traefik/yaegi/stdlib"
)

// C13, replacement types and values (coq/Sandbox/Model.v part D).
// Replacement types are found at run time: type symbols of stdlib.Symbols whose Go type is defined in
// package stdlib itself (not the _pkg_Iface wrappers); replacement values are what functions of the
// table return as pointers to such types. For each, every generic route a script has to the object
// behind the replacement is tried, ending with an exit-like method, in a child process.

const c13StdlibPkg = "github.com/traefik/yaegi/stdlib"

type c13ReplType struct {
	Key, Name string       // stdlib.Symbols key and symbol name ("log/log", "Logger")
	GoName    string       // name of the replacement type ("logLogger")
	Type      reflect.Type // the struct (or other) type
}

func (t c13ReplType) qual() string { return path.Base(t.Key) + "." + t.Name }

// fields as Coq tuples (name, embedded, exported, type), the format of tr-sandbox
func (t c13ReplType) coqFields() string {
	var it []string
	if t.Type.Kind() != reflect.Struct {
		return coqList([]string{fmt.Sprintf("(%s, true, true, %s)", coqStr(""), coqStr(t.Type.String()))})
	}
	for i := 0; i < t.Type.NumField(); i++ {
		f := t.Type.Field(i)
		it = append(it, fmt.Sprintf("(%s, %s, %s, %s)", coqStr(f.Name), coqBool(f.Anonymous), coqBool(f.IsExported()), coqStr(f.Type.String())))
	}
	return coqList(it)
}

func c13ReplTypes() []c13ReplType {
	var out []c13ReplType
	for _, k := range sortedKeys(stdlib.Symbols) {
		m := stdlib.Symbols[k]
		for _, n := range sortedKeys(m) {
			v := m[n]
			if strings.HasPrefix(n, "_") || !v.IsValid() || v.Kind() != reflect.Ptr || !v.IsNil() {
				continue
			}
			et := v.Type().Elem()
			if et.PkgPath() == c13StdlibPkg {
				out = append(out, c13ReplType{Key: k, Name: n, GoName: et.Name(), Type: et})
			}
		}
	}
	return out
}

type c13ReplCtor struct {
	Key, Name string // function symbol returning a pointer to a replacement type
	T         c13ReplType
}

func c13ReplCtors(types []c13ReplType) []c13ReplCtor {
	var out []c13ReplCtor
	for _, k := range sortedKeys(stdlib.Symbols) {
		m := stdlib.Symbols[k]
		for _, n := range sortedKeys(m) {
			v := m[n]
			if !v.IsValid() || v.Kind() != reflect.Func {
				continue
			}
			for i := 0; i < v.Type().NumOut(); i++ {
				o := v.Type().Out(i)
				for _, t := range types {
					if o.Kind() == reflect.Ptr && o.Elem() == t.Type || o == t.Type {
						out = append(out, c13ReplCtor{Key: k, Name: n, T: t})
					}
				}
			}
		}
	}
	return out
}

// how a script obtains the value: call expressions for the constructors known to the catalogue
var c13CtorCalls = map[string]string{
	"log.New":     `log.New(&b, "", 0)`,
	"log.Default": `log.Default()`,
}

type c13Route struct {
	Coq  string // constructor of Sandbox.Model.route
	Body string // statements; l is the replacement value, %M the method, %A its arguments, %R the reflect arguments, %S its signature, %T the type
}

func c13Routes(t c13ReplType) []c13Route {
	rs := []c13Route{
		{"RDirect", `l.%M(%A)`},
		{"RMethodValue", `f := l.%M; f(%A)`},
		{"RMethodExpr", `f := (*%T).%M; f(l, %A)`},
		{"RIface", `var x interface{} = l; x.(interface{ %M(%S) }).%M(%A)`},
		{"RReflMethod", `reflect.ValueOf(l).MethodByName("%M").Call(%R)`},
		{"REmbedInScript", `type c13T struct{ *%T }; t := c13T{l}; t.%M(%A)`},
		{"RReflScan", `v := reflect.Indirect(reflect.ValueOf(l)); for i := 0; v.Kind() == reflect.Struct && i < v.NumField(); i++ { f := v.Field(i); if f.Kind() == reflect.Ptr || f.Kind() == reflect.Interface { m := f.MethodByName("%M"); if m.IsValid() { m.Call(%R) } } }`},
		{"RReflConvert", `v := reflect.ValueOf(l); v.Convert(reflect.Indirect(v).Field(0).Type()).MethodByName("%M").Call(%R)`},
	}
	// candidate field names: the fields reflect shows, and the name an embedded real type would have
	names := map[string]bool{t.Name: true}
	nf := 0
	if t.Type.Kind() == reflect.Struct {
		nf = t.Type.NumField()
		for i := 0; i < nf; i++ {
			names[t.Type.Field(i).Name] = true
		}
	}
	for _, n := range sortedKeys(names) {
		rs = append(rs, c13Route{fmt.Sprintf("(RFieldSel %s)", coqStr(n)), `l.` + n + `.%M(%A)`})
		rs = append(rs, c13Route{fmt.Sprintf("(RReflFieldByName %s)", coqStr(n)), `reflect.ValueOf(l).Elem().FieldByName("` + n + `").MethodByName("%M").Call(%R)`})
	}
	for i := 0; i <= nf; i++ { // one index past the end too
		rs = append(rs, c13Route{fmt.Sprintf("(RReflField %d)", i), fmt.Sprintf(`reflect.ValueOf(l).Elem().Field(%d).MethodByName("%%M").Call(%%R)`, i)})
	}
	return rs
}

type c13RouteRun struct {
	Ctor  c13ReplCtor
	Route c13Route
	Meth  string
	Src   string
}

var c13ExitLike = []struct{ Meth, Args, Sig string }{
	{"Fatal", `"bye"`, `...interface{}`},
	{"Fatalf", `"%s", "bye"`, `string, ...interface{}`},
	{"Fatalln", `"bye"`, `...interface{}`},
}

func c13RouteRuns(ctors []c13ReplCtor) (runs []c13RouteRun, unknown []string) {
	for _, c := range ctors {
		call, ok := c13CtorCalls[path.Base(c.Key)+"."+c.Name]
		if !ok {
			unknown = append(unknown, path.Base(c.Key)+"."+c.Name)
			continue
		}
		for _, r := range c13Routes(c.T) {
			for mi, m := range c13ExitLike {
				if mi > 0 && !strings.Contains(r.Coq, "Field") && r.Coq != "RDirect" {
					continue // the other methods only along the field routes and the direct call
				}
				ra := `[]reflect.Value{reflect.ValueOf("bye")}`
				body := strings.NewReplacer("%M", m.Meth, "%A", m.Args, "%R", ra, "%S", m.Sig, "%T", c.T.qual()).Replace(r.Body)
				imports := map[string]bool{"bytes": true, "reflect": true, path.Dir(c.T.Key): true, path.Dir(c.Key): true}
				var sb strings.Builder
				sb.WriteString("package main\n\nimport (\n")
				for _, im := range sortedKeys(imports) {
					fmt.Fprintf(&sb, "\t%q\n", im)
				}
				sb.WriteString(")\n\nvar _ = reflect.ValueOf\n\nfunc main() {\n\tdefer func() {\n\t\tif r := recover(); r != nil {\n\t\t\tprint(\"C13-RECOVERED\")\n\t\t} else {\n\t\t\tprint(\"C13-NOPANIC\")\n\t\t}\n\t}()\n\tvar b bytes.Buffer\n\t_ = b\n")
				sb.WriteString("\tl := " + call + "\n")
				if strings.Contains(body, "for ") {
					sb.WriteString("\t" + body + "\n") // the clauses of a for statement stay on one line
				} else {
					for _, st := range strings.Split(body, "; ") {
						sb.WriteString("\t" + st + "\n")
					}
				}
				sb.WriteString("\tprint(\"C13-RETURNED\")\n}\n")
				runs = append(runs, c13RouteRun{Ctor: c, Route: r, Meth: m.Meth, Src: sb.String()})
			}
		}
	}
	sort.SliceStable(runs, func(i, j int) bool { return runs[i].Ctor.Name < runs[j].Ctor.Name })
	return
}
