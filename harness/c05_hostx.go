package main

import (
	"fmt"
	"os"
	"sort"
	"strings"
)

// ---------------------------------------------------------------- interfaces that compiled code probes for dynamically
//
// Twin of coq/Disp/Host.v (used to label regions and to choose probes; the verdicts are computed in
// Coq on the cases written below) and a seeded stream of interpreted types implementing SUBSETS of
// the probed interfaces {fmt.Formatter, fmt.GoStringer, error, fmt.Stringer, json.Marshaler,
// encoding.TextMarshaler, io.Reader + io.WriterTo, io.Writer + io.ReaderFrom + io.StringWriter},
// with value / pointer receivers, declared or promoted through embedding, each method printing its
// identity; every value is handed to the compiled functions that dispatch on these interfaces.
// One program per run enumerates ALL subsets for each consumer (so every pair of interfaces that
// compiled code prioritises is exercised in every run); the others are random.

type hxP struct {
	Name    string
	Methods []string
}

type hxConsumer struct {
	Name   string
	Cls    string
	Key    string
	Static []string
	Probes []hxP
}

var (
	hxStr   = []hxP{{"Formatter", []string{"Format"}}, {"error", []string{"Error"}}, {"Stringer", []string{"String"}}}
	hxSharp = []hxP{{"Formatter", []string{"Format"}}, {"GoStringer", []string{"GoString"}}}
	hxNum   = []hxP{{"Formatter", []string{"Format"}}}
)

// hxConsumerOf mirrors Host.consumer_of.
func hxConsumerOf(name, cls string) hxConsumer {
	switch name {
	case "json.Marshal":
		return hxConsumer{name, cls, "json.Marshal", nil, []hxP{{"Marshaler", []string{"MarshalJSON"}}, {"TextMarshaler", []string{"MarshalText"}}}}
	case "io.Copy.src":
		return hxConsumer{name, cls, "_io_Reader", []string{"Read"}, []hxP{{"WriterTo", []string{"WriteTo"}}, {"Reader", []string{"Read"}}}}
	case "io.Copy.dst":
		return hxConsumer{name, cls, "_io_Writer", []string{"Write"}, []hxP{{"ReaderFrom", []string{"ReadFrom"}}, {"Writer", []string{"Write"}}}}
	case "io.WriteString":
		return hxConsumer{name, cls, "_io_Writer", []string{"Write"}, []hxP{{"StringWriter", []string{"WriteString"}}, {"Writer", []string{"Write"}}}}
	case "io.ReadAll":
		return hxConsumer{name, cls, "_io_Reader", []string{"Read"}, []hxP{{"Reader", []string{"Read"}}}}
	case "errors.Is":
		return hxConsumer{name, cls, "_error", []string{"Error"}, []hxP{{"Is", []string{"Is"}}, {"Unwrap", []string{"Unwrap"}}, {"error", []string{"Error"}}}}
	case "errors.Unwrap":
		return hxConsumer{name, cls, "_error", []string{"Error"}, []hxP{{"Unwrap", []string{"Unwrap"}}, {"error", []string{"Error"}}}}
	case "sort.Sort":
		return hxConsumer{name, cls, "_sort_Interface", []string{"Len", "Less", "Swap"}, []hxP{{"Interface", []string{"Len", "Less", "Swap"}}}}
	case "flag.Var":
		return hxConsumer{name, cls, "_flag_Value", []string{"Set", "String"}, []hxP{{"Value", []string{"Set", "String"}}}}
	}
	p := hxStr
	switch cls {
	case "sharp":
		p = hxSharp
	case "num":
		p = hxNum
	}
	return hxConsumer{name, cls, name, nil, p}
}

func hxSubset(a, b []string) bool {
	for _, x := range a {
		found := false
		for _, y := range b {
			found = found || x == y
		}
		if !found {
			return false
		}
	}
	return true
}

func hxFirst(vis []string, ps []hxP) string {
	for _, p := range ps {
		if hxSubset(p.Methods, vis) {
			return p.Name
		}
	}
	return "none"
}

func (c hxConsumer) gResult(impl []string) string { return hxFirst(impl, c.Probes) }

func (c hxConsumer) yVisible(tbl map[string][]c05MapEntry, impl []string) (vis []string, wrapped bool) {
	if ws, ok := tbl[c.Key]; ok {
		for _, w := range ws {
			if hxSubset(w.Methods, impl) {
				return w.Methods, true
			}
		}
	}
	return c.Static, false
}

func (c hxConsumer) yResult(tbl map[string][]c05MapEntry, impl []string) string {
	vis, _ := c.yVisible(tbl, impl)
	return hxFirst(vis, c.Probes)
}

func hxSameSet(a, b []string) bool { return hxSubset(a, b) && hxSubset(b, a) }

// hxRegion: "" when yaegi is expected to serve the interface compiled Go serves; otherwise the
// known finding that explains the difference, decided from WHAT compiled Go serves (so that a
// difference on an interface yaegi does register is never attributed).
func hxRegion(c hxConsumer, tbl map[string][]c05MapEntry, implY, implG []string) string {
	g, y := c.gResult(implG), c.yResult(tbl, implY)
	_, wrapped := c.yVisible(tbl, implY)
	if !hxSameSet(implY, implG) && (c.gResult(implY) != g) {
		return "host-ptr-recv"
	}
	if y == g {
		if g == "none" && wrapped {
			return "host-wrapper-dump"
		}
		return ""
	}
	if strings.HasPrefix(c.Name, "errors.") {
		return "host-errors"
	}
	switch g {
	case "error":
		return "host-fmt-error"
	case "GoStringer":
		return "host-fmt-gostringer"
	case "StringWriter":
		return "host-stringwriter"
	}
	if strings.HasPrefix(c.Name, "log.Logger.") {
		return "host-log"
	}
	return ""
}

// hxDecode: which probe was served, from the identities printed by the interpreted methods.
// interp == nil: every method of the operand is interpreted.  Otherwise interp tells which methods
// are interpreted; a probe whose method is promoted from an embedded COMPILED type prints nothing,
// it counts as served when no interpreted method of the probes left its identity.
func hxDecode(c hxConsumer, out string, interp map[string]bool) string {
	marker := func(m string) int {
		i := strings.Index(out, "."+m+":")
		if i < 0 {
			i = strings.Index(out, "."+m+"/")
		}
		// an identity inside a field-by-field dump ("{...}") comes from a nested field, not from the operand
		if i >= 0 && strings.Contains(out[:i], "{") {
			return -1
		}
		return i
	}
	anyMarker := false
	for _, p := range c.Probes {
		if (interp == nil || interp[p.Methods[0]]) && marker(p.Methods[0]) >= 0 {
			anyMarker = true
		}
	}
	for _, p := range c.Probes {
		m := p.Methods[0]
		if interp == nil || interp[m] {
			if marker(m) >= 0 {
				return p.Name
			}
			continue
		}
		if has, ok := interp[m]; ok && !has && !anyMarker {
			return p.Name // compiled method present in the method set, nothing interpreted ran
		}
	}
	if len(c.Static) > 0 {
		return c.Probes[len(c.Probes)-1].Name
	}
	return "none"
}

// ---------------------------------------------------------------- programs

type hxProbe struct {
	ID       int
	Label    string
	Consumer hxConsumer
	ImplY    []string
	ImplG    []string
	Region   string
	Code     string
	Desc     string
	NoCoq    bool // compared with compiled Go only
	// Interp: nil when all methods of the operand are interpreted; else method -> true (interpreted) /
	// false (promoted from an embedded compiled type); absent = not in the method set
	Interp map[string]bool
	Cell   map[string]any // shadow stream: the cell of the matrix
}

type c05HostX struct {
	child  bool // run yaegi in a child process
	src    string
	probes []*hxProbe
	kind   string
}

type hxType struct {
	Name    string
	Embed   string          // "" | "T" | "*T"
	Methods map[string]bool // method -> pointer receiver
	Order   []string
}

func hxMethodSrc(t string, m string, ptr bool) string {
	rc := "(r " + t + ")"
	if ptr {
		rc = "(r *" + t + ")"
	}
	id := t + "." + m
	switch m {
	case "Format":
		return fmt.Sprintf("func %s Format(st fmt.State, verb rune) { fmt.Fprintf(st, \"%s/%%c:%%d\", verb, r.N) }\n\n", rc, id)
	case "GoString", "Error", "String":
		return fmt.Sprintf("func %s %s() string { return \"%s:\" + strconv.Itoa(r.N) }\n\n", rc, m, id)
	case "MarshalJSON":
		return fmt.Sprintf("func %s MarshalJSON() ([]byte, error) { return []byte(\"\\\"%s:\" + strconv.Itoa(r.N) + \"\\\"\"), nil }\n\n", rc, id)
	case "MarshalText":
		return fmt.Sprintf("func %s MarshalText() ([]byte, error) { return []byte(\"%s:\" + strconv.Itoa(r.N)), nil }\n\n", rc, id)
	case "Read":
		return fmt.Sprintf("func %s Read(p []byte) (int, error) {\n\tif r.R == \"\" {\n\t\treturn 0, io.EOF\n\t}\n\tn := copy(p, r.R)\n\tr.R = r.R[n:]\n\treturn n, nil\n}\n\n", rc)
	case "WriteTo":
		return fmt.Sprintf("func %s WriteTo(w io.Writer) (int64, error) {\n\tn, err := io.WriteString(w, \"%s:\"+r.R)\n\tr.R = \"\"\n\treturn int64(n), err\n}\n\n", rc, id)
	case "Write":
		return fmt.Sprintf("func %s Write(p []byte) (int, error) { r.W = append(r.W, p...); return len(p), nil }\n\n", rc)
	case "ReadFrom":
		return fmt.Sprintf("func %s ReadFrom(rd io.Reader) (int64, error) {\n\tb, err := io.ReadAll(rd)\n\tr.W = append(r.W, (\"%s:\" + string(b))...)\n\treturn int64(len(b)), err\n}\n\n", rc, id)
	case "WriteString":
		return fmt.Sprintf("func %s WriteString(x string) (int, error) { r.W = append(r.W, (\"%s:\" + x)...); return len(x), nil }\n\n", rc, id)
	}
	return ""
}

const hxHeader = "package main\n\nimport (\n\t\"bufio\"\n\t\"bytes\"\n\t\"encoding/json\"\n\t\"errors\"\n\t\"flag\"\n\t\"fmt\"\n\t\"io\"\n\t\"log\"\n\t\"sort\"\n\t\"strconv\"\n\t\"strings\"\n)\n\n" +
	"var (\n\t_ = bufio.NewReader\n\t_ = bytes.NewBuffer\n\t_ = json.Marshal\n\t_ = errors.Is\n\t_ = flag.NewFlagSet\n\t_ = io.EOF\n\t_ = log.New\n\t_ = sort.Sort\n\t_ = strconv.Itoa\n\t_ = strings.NewReader\n\ttrace string\n)\n\n" +
	"func try(label string, f func() string) {\n\tdefer func() {\n\t\tif r := recover(); r != nil {\n\t\t\tfmt.Println(label, \"PANIC\")\n\t\t}\n\t}()\n\tfmt.Println(label, f())\n}\n\n"

// the expressions handing an operand to a compiled function, per consumer
type hxForm struct {
	Name, Cls string
	Expr      func(op string) string // Go expression of type string
}

var hxFmtForms = []hxForm{
	{"fmt.Sprint", "str", func(o string) string { return "fmt.Sprint(" + o + ")" }},
	{"fmt.Sprintln", "str", func(o string) string { return "fmt.Sprintln(" + o + ")" }},
	{"fmt.Sprintf", "str", func(o string) string { return "fmt.Sprintf(\"%v|%s\", " + o + ", " + o + ")" }},
	{"fmt.Sprintf", "str", func(o string) string { return "fmt.Sprintf(\"%+v|%q\", " + o + ", " + o + ")" }},
	{"fmt.Sprintf", "sharp", func(o string) string { return "fmt.Sprintf(\"%#v\", " + o + ")" }},
	{"fmt.Sprintf", "num", func(o string) string { return "fmt.Sprintf(\"%d\", " + o + ")" }},
	{"fmt.Fprint", "str", func(o string) string {
		return "func() string { var b bytes.Buffer; fmt.Fprint(&b, " + o + "); return b.String() }()"
	}},
	{"fmt.Fprintf", "str", func(o string) string {
		return "func() string { var b bytes.Buffer; fmt.Fprintf(&b, \"%v\", " + o + "); return b.String() }()"
	}},
	{"fmt.Fprintln", "str", func(o string) string {
		return "func() string { var b bytes.Buffer; fmt.Fprintln(&b, " + o + "); return b.String() }()"
	}},
	{"fmt.Errorf", "str", func(o string) string { return "fmt.Errorf(\"e: %v\", " + o + ").Error()" }},
	{"log.Panic", "str", func(o string) string {
		return "func() (s string) { defer func() { s = fmt.Sprint(recover()) }(); log.Panic(" + o + "); return }()"
	}},
	{"log.Panicf", "str", func(o string) string {
		return "func() (s string) { defer func() { s = fmt.Sprint(recover()) }(); log.Panicf(\"%v\", " + o + "); return }()"
	}},
	{"log.Logger.Print", "str", func(o string) string {
		return "func() string { var b bytes.Buffer; log.New(&b, \"\", 0).Print(" + o + "); return b.String() }()"
	}},
}

var hxJSONForm = hxForm{"json.Marshal", "", func(o string) string {
	return "func() string { b, err := json.Marshal(" + o + "); return string(b) + fmt.Sprint(err) }()"
}}

func hxTable() map[string][]c05MapEntry {
	repo := os.Getenv("VERIF_REPO")
	if repo == "" {
		repo = "/repo"
	}
	t, err := c05MapTypesOf(repo)
	if err != nil {
		return map[string][]c05MapEntry{}
	}
	return t
}

func hxSubsets(ms []string) [][]string {
	res := [][]string{{}}
	for _, m := range ms {
		n := len(res)
		for i := 0; i < n; i++ {
			res = append(res, append(append([]string{}, res[i]...), m))
		}
	}
	return res
}

type hxBuilder struct {
	b      strings.Builder
	main   strings.Builder
	probes []*hxProbe
	tbl    map[string][]c05MapEntry
	// noDumps: skip probes where no interface is served and the value is dumped field by field
	// (embedded pointers print as addresses, json nests yaegi's embedded structs: not dispatch questions)
	noDumps bool
}

func (hb *hxBuilder) probe(c hxConsumer, implY, implG []string, expr, desc string, skipNoneSharp bool) {
	g := c.gResult(implG)
	if g == "none" && (c.Cls == "sharp" || hb.noDumps) {
		if _, wrapped := c.yVisible(hb.tbl, implY); !wrapped && skipNoneSharp {
			// %#v of a struct prints the type name, which yaegi's anonymous reflect types do not have: not a dispatch question
			return
		}
	}
	p := &hxProbe{Label: fmt.Sprintf("h%d", len(hb.probes)+1), Consumer: c, ImplY: implY, ImplG: implG, Code: expr, Desc: desc}
	p.Region = hxRegion(c, hb.tbl, implY, implG)
	hb.probes = append(hb.probes, p)
	fmt.Fprintf(&hb.main, "\ttry(%q, func() string { return %s })\n", p.Label, expr)
}

func (hb *hxBuilder) finish(kind string) *c05HostX { return hb.finishWith(kind, "") }

func (hb *hxBuilder) finishWith(kind, extraImports string) *c05HostX {
	hdr := strings.Replace(hxHeader, "import (\n", "import (\n"+extraImports, 1)
	src := hdr + hb.b.String() + "func main() {\n" + hb.main.String() + "}\n"
	return &c05HostX{src: src, probes: hb.probes, kind: kind}
}

// genHostXPairs: the deterministic programs enumerating every subset of the probed interfaces.
func genHostXPairs(tbl map[string][]c05MapEntry) []*c05HostX {
	var progs []*c05HostX
	// fmt: 16 types, value receivers
	fmtM := []string{"Format", "GoString", "Error", "String"}
	subs := hxSubsets(fmtM)
	for part := 0; part < 2; part++ {
		hb := &hxBuilder{tbl: tbl}
		for k, sub := range subs {
			if k%2 != part {
				continue
			}
			tn := fmt.Sprintf("FT%d", k)
			fmt.Fprintf(&hb.b, "type %s struct{ N int }\n\n", tn)
			for _, m := range sub {
				hb.b.WriteString(hxMethodSrc(tn, m, false))
			}
			for _, op := range []string{tn + "{N: 7}", "&" + tn + "{N: 8}"} {
				for _, f := range hxFmtForms {
					hb.probe(hxConsumerOf(f.Name, f.Cls), sub, sub, f.Expr(op), f.Name+"/"+f.Cls+" "+op, true)
				}
			}
		}
		progs = append(progs, hb.finish("pairs-fmt"))
	}
	// json and io
	hb := &hxBuilder{tbl: tbl}
	for k, sub := range hxSubsets([]string{"MarshalJSON", "MarshalText"}) {
		tn := fmt.Sprintf("JT%d", k)
		fmt.Fprintf(&hb.b, "type %s struct{ N int }\n\n", tn)
		for _, m := range sub {
			hb.b.WriteString(hxMethodSrc(tn, m, false))
		}
		for _, op := range []string{tn + "{N: 7}", "&" + tn + "{N: 8}"} {
			hb.probe(hxConsumerOf("json.Marshal", ""), sub, sub, hxJSONForm.Expr(op), "json.Marshal "+op, true)
		}
	}
	for k, sub := range hxSubsets([]string{"WriteTo"}) {
		tn := fmt.Sprintf("IS%d", k)
		ms := append([]string{"Read"}, sub...)
		fmt.Fprintf(&hb.b, "type %s struct {\n\tN int\n\tR string\n}\n\n", tn)
		for _, m := range ms {
			hb.b.WriteString(hxMethodSrc(tn, m, true))
		}
		hb.probe(hxConsumerOf("io.Copy.src", ""), ms, ms,
			"func() string { var b bytes.Buffer; n, err := io.Copy(&b, &"+tn+"{R: \"abc\"}); return b.String() + fmt.Sprint(n, err) }()", "io.Copy(buf, "+tn+")", true)
		hb.probe(hxConsumerOf("io.ReadAll", ""), ms, ms,
			"func() string { b, err := io.ReadAll(&"+tn+"{R: \"abc\"}); return \"plain\" + string(b) + fmt.Sprint(err) }()", "io.ReadAll("+tn+")", true)
	}
	for k, sub := range hxSubsets([]string{"ReadFrom", "WriteString"}) {
		tn := fmt.Sprintf("ID%d", k)
		ms := append([]string{"Write"}, sub...)
		fmt.Fprintf(&hb.b, "type %s struct {\n\tN int\n\tW []byte\n}\n\n", tn)
		for _, m := range ms {
			hb.b.WriteString(hxMethodSrc(tn, m, true))
		}
		hb.probe(hxConsumerOf("io.Copy.dst", ""), ms, ms,
			"func() string { w := &"+tn+"{}; n, err := io.Copy(w, io.LimitReader(strings.NewReader(\"abc\"), 9)); return string(w.W) + fmt.Sprint(n, err) }()", "io.Copy("+tn+", limited)", true)
		hb.probe(hxConsumerOf("io.WriteString", ""), ms, ms,
			"func() string { w := &"+tn+"{}; n, err := io.WriteString(w, \"abc\"); return string(w.W) + fmt.Sprint(n, err) }()", "io.WriteString("+tn+")", true)
	}
	progs = append(progs, hb.finish("pairs-json-io"))
	progs = append(progs, genHostXMisc(tbl))
	return progs
}

// ---------------------------------------------------------------- provenance of the probed methods
//
// Every method of the composed interfaces (io.Reader + io.WriterTo, io.Writer + io.ReaderFrom, and
// io.StringWriter) is, independently: declared on the interpreted type, promoted from an embedded
// interpreted struct, or promoted from an embedded COMPILED type (*bytes.Buffer, bytes.Buffer by
// value, *strings.Reader, *bufio.Reader, *bufio.Writer), directly or through an interpreted struct.
// getWrapper must look at the FULL method set (interpreted and promoted from compiled types).
// Interpreted methods leave their identity in a trace and delegate to the embedded compiled value;
// the oracle is compiled Go.

type hxBase struct {
	Type    string   // embedded field type
	Field   string   // its field name
	Methods []string // methods of our alphabet in the method set of *T through this field
	YSees   []string // those yaegi's methods() reports (a compiled type embedded by value shows its value methods only)
	Init    string   // expression for the field, reading "hello" (src) / writing to out (dst)
	ByValue bool
}

var hxSrcBases = []hxBase{
	{"*bytes.Buffer", "Buffer", []string{"Read", "WriteTo"}, []string{"Read", "WriteTo"}, "bytes.NewBufferString(\"hello\")", false},
	{"bytes.Buffer", "Buffer", []string{"Read", "WriteTo"}, nil, "", true},
	{"*strings.Reader", "Reader", []string{"Read", "WriteTo"}, []string{"Read", "WriteTo"}, "strings.NewReader(\"hello\")", false},
	{"*bufio.Reader", "Reader", []string{"Read", "WriteTo"}, []string{"Read", "WriteTo"}, "bufio.NewReader(strings.NewReader(\"hello\"))", false},
}

var hxDstBases = []hxBase{
	{"*bytes.Buffer", "Buffer", []string{"ReadFrom", "Write", "WriteString"}, []string{"ReadFrom", "Write", "WriteString"}, "&bytes.Buffer{}", false},
	{"bytes.Buffer", "Buffer", []string{"ReadFrom", "Write", "WriteString"}, nil, "", true},
	{"*bufio.Writer", "Writer", []string{"ReadFrom", "Write", "WriteString"}, []string{"ReadFrom", "Write", "WriteString"}, "bufio.NewWriter(&out)", false},
}

func hxProvMethod(t, path, m string) string {
	rc := "(r *" + t + ")"
	id := t + "." + m + ":;"
	switch m {
	case "Read":
		return fmt.Sprintf("func %s Read(p []byte) (int, error) { trace += \"%s\"; return r.%s.Read(p) }\n\n", rc, id, path)
	case "WriteTo":
		return fmt.Sprintf("func %s WriteTo(w io.Writer) (int64, error) {\n\ttrace += \"%s\"\n\tn, err := w.Write([]byte(\"<%s>\"))\n\treturn int64(n), err\n}\n\n", rc, id, t)
	case "Write":
		return fmt.Sprintf("func %s Write(p []byte) (int, error) { trace += \"%s\"; return r.%s.Write(p) }\n\n", rc, id, path)
	case "ReadFrom":
		return fmt.Sprintf("func %s ReadFrom(rd io.Reader) (int64, error) {\n\ttrace += \"%s\"\n\tb, err := io.ReadAll(rd)\n\tr.%s.Write(b)\n\treturn int64(len(b)), err\n}\n\n", rc, id, path)
	case "WriteString":
		return fmt.Sprintf("func %s WriteString(x string) (int, error) { trace += \"%s\"; return r.%s.WriteString(x) }\n\n", rc, id, path)
	}
	return ""
}

// genHostXProvenance: all bases x {direct, through an interpreted struct} x all subsets of interpreted overrides.
func genHostXProvenance(r *rng, tbl map[string][]c05MapEntry) []*c05HostX {
	var progs []*c05HostX
	k := 0
	for role, bases := range [][]hxBase{hxSrcBases, hxDstBases} {
		hb := &hxBuilder{tbl: tbl}
		rej := &hxBuilder{tbl: tbl} // value-embedded compiled type providing the static method: yaegi rejects the program
		rej.b.WriteString("type sink struct{ b *bytes.Buffer }\n\nfunc (s sink) Write(p []byte) (int, error) { return s.b.Write(p) }\n\nfunc lim() io.Reader { return io.LimitReader(strings.NewReader(\"abc\"), 9) }\n\n")
		main := hb
		hb.b.WriteString("type sink struct{ b *bytes.Buffer }\n\nfunc (s sink) Write(p []byte) (int, error) { return s.b.Write(p) }\n\nfunc lim() io.Reader { return io.LimitReader(strings.NewReader(\"abc\"), 9) }\n\n")
		own := []string{"Read", "WriteTo"}
		if role == 1 {
			own = []string{"ReadFrom", "Write", "WriteString"}
		}
		for _, base := range bases {
			for depth := 1; depth <= 2; depth++ {
				for _, sub := range hxSubsets(own) {
					k++
					hb = main
					static := "Read"
					if role == 1 {
						static = "Write"
					}
					rejected := base.ByValue && !hxSubset([]string{static}, sub)
					if rejected {
						if depth != 1 || len(sub) != 0 {
							continue
						}
						hb = rej
					}
					tn := fmt.Sprintf("PT%d", k)
					in := fmt.Sprintf("PI%d", k)
					// where the interpreted overrides are declared: on the type itself or (depth 2) on the inner struct
					onInner := depth == 2 && r.bool()
					if depth == 1 {
						fmt.Fprintf(&hb.b, "type %s struct {\n\t%s\n\tN int\n}\n\n", tn, base.Type)
					} else {
						fmt.Fprintf(&hb.b, "type %s struct {\n\t%s\n\tA int\n}\n\ntype %s struct {\n\t*%s\n\tN int\n}\n\n", in, base.Type, tn, in)
					}
					path := base.Field
					declOn := tn
					if depth == 2 && !onInner {
						path = in + "." + base.Field
					}
					if onInner {
						declOn = in
					}
					interp := map[string]bool{}
					for _, m := range base.Methods {
						interp[m] = false
					}
					for _, m := range sub {
						hb.b.WriteString(hxProvMethod(declOn, path, m))
						interp[m] = true
					}
					implG := append([]string{}, base.Methods...)
					implY := append(append([]string{}, base.YSees...), sub...)
					sort.Strings(implY)
					implY = hxDedup(implY)
					// construction of the operand
					var mk string
					fieldInit := base.Field + ": " + base.Init
					switch {
					case base.ByValue && depth == 1:
						mk = "x := &" + tn + "{}"
					case base.ByValue:
						mk = "x := &" + tn + "{" + in + ": &" + in + "{}}"
					case depth == 1:
						mk = "x := &" + tn + "{" + fieldInit + "}"
					default:
						mk = "x := &" + tn + "{" + in + ": &" + in + "{" + fieldInit + "}}"
					}
					desc := fmt.Sprintf("%s depth %d interpreted %v", base.Type, depth, sub)
					fix := func() {
						p := hb.probes[len(hb.probes)-1]
						p.Interp = interp
						if base.ByValue && p.Region == "host-ptr-recv" {
							p.Region = "host-value-embed"
						}
						if rejected {
							p.Region, p.NoCoq = "host-value-embed", true
						}
						informative := false
						for _, pr := range p.Consumer.Probes {
							informative = informative || interp[pr.Methods[0]]
						}
						if !informative {
							// every candidate method is compiled: which one ran cannot be observed; compared with compiled Go only
							p.NoCoq = true
						}
					}
					if role == 0 {
						fill := ""
						if base.ByValue {
							fill = "x.Buffer.WriteString(\"hello\"); "
						}
						hb.probe(hxConsumerOf("io.Copy.src", ""), implY, implG,
							"func() string { trace = \"\"; var out bytes.Buffer; "+mk+"; "+fill+"n, err := io.Copy(sink{&out}, x); return trace + fmt.Sprint(n, err, out.String()) }()", "io.Copy(sink, "+desc+")", false)
						fix()
						hb.probe(hxConsumerOf("io.ReadAll", ""), implY, implG,
							"func() string { trace = \"\"; var out bytes.Buffer; _ = out; "+mk+"; "+fill+"b, err := io.ReadAll(x); return trace + fmt.Sprint(string(b), err) }()", "io.ReadAll("+desc+")", false)
						fix()
					} else {
						res := "x.String()"
						if base.Field == "Writer" {
							res = "func() string { x.Flush(); return out.String() }()"
						}
						hb.probe(hxConsumerOf("io.Copy.dst", ""), implY, implG,
							"func() string { trace = \"\"; var out bytes.Buffer; _ = out; "+mk+"; n, err := io.Copy(x, lim()); return trace + fmt.Sprint(n, err, "+res+") }()", "io.Copy("+desc+", limited)", false)
						fix()
						hb.probe(hxConsumerOf("io.WriteString", ""), implY, implG,
							"func() string { trace = \"\"; var out bytes.Buffer; _ = out; "+mk+"; n, err := io.WriteString(x, \"abc\"); return trace + fmt.Sprint(n, err, "+res+") }()", "io.WriteString("+desc+")", false)
						fix()
					}
				}
			}
		}
		kind := "provenance-src"
		if role == 1 {
			kind = "provenance-dst"
		}
		progs = append(progs, main.finishWith(kind, ""), rej.finishWith(kind+"-rejected", ""))
	}
	return progs
}

func hxDedup(l []string) []string {
	var res []string
	for i, x := range l {
		if i == 0 || x != l[i-1] {
			res = append(res, x)
		}
	}
	return res
}

// genHostXRandom: a chain H0 <- H1 <- H2 (embedding by value or by pointer); the fmt / json methods
// are declared at random levels with random receiver kinds, possibly shadowed by an outer level.
func genHostXRandom(r *rng, tbl map[string][]c05MapEntry) *c05HostX {
	hb := &hxBuilder{tbl: tbl, noDumps: true}
	top := 1 + r.intn(2)
	var embedPtr [3]bool
	for k := 1; k <= 2; k++ {
		embedPtr[k] = r.chance(40)
	}
	type decl struct {
		level int
		ptr   bool
	}
	decls := map[string][]decl{}
	groups := []string{"Format", "GoString", "Error", "String", "MarshalJSON", "MarshalText"}
	for _, g := range groups {
		if r.chance(45) {
			continue
		}
		l := r.intn(top + 1)
		decls[g] = append(decls[g], decl{l, r.chance(35)})
		if l < top && r.chance(20) {
			decls[g] = append(decls[g], decl{l + 1 + r.intn(top-l), r.chance(35)})
		}
	}
	hb.b.WriteString("type H0 struct{ N int }\n\n")
	for k := 1; k <= top; k++ {
		star := ""
		if embedPtr[k] {
			star = "*"
		}
		fmt.Fprintf(&hb.b, "type H%d struct {\n\t%sH%d\n\tA%d int\n}\n\n", k, star, k-1, k)
	}
	for _, g := range groups {
		for _, d := range decls[g] {
			hb.b.WriteString(hxMethodSrc(fmt.Sprintf("H%d", d.level), g, d.ptr))
		}
	}
	lit := "H0{N: 7}"
	for k := 1; k <= top; k++ {
		amp := ""
		if embedPtr[k] {
			amp = "&"
		}
		lit = fmt.Sprintf("H%d{H%d: %s%s, A%d: %d}", k, k-1, amp, lit, k, 10+k)
	}
	fmt.Fprintf(&hb.b, "var x = %s\n\n", lit)
	// method sets
	var implY []string
	inSet := func(g string, ptr bool) bool {
		best := decl{level: -1}
		for _, d := range decls[g] {
			if d.level <= top && d.level > best.level {
				best = d
			}
		}
		if best.level < 0 {
			return false
		}
		if !best.ptr || ptr {
			return true
		}
		for l := best.level + 1; l <= top; l++ {
			if embedPtr[l] {
				return true
			}
		}
		return false
	}
	for _, g := range groups {
		if len(decls[g]) > 0 {
			implY = append(implY, g)
		}
	}
	for _, o := range []struct {
		expr string
		ptr  bool
	}{{"x", false}, {"&x", true}} {
		var implG []string
		for _, g := range groups {
			if inSet(g, o.ptr) {
				implG = append(implG, g)
			}
		}
		fmtY, fmtG := hxFilter(implY, groups[:4]), hxFilter(implG, groups[:4])
		for _, f := range hxFmtForms {
			if !r.chance(55) {
				continue
			}
			hb.probe(hxConsumerOf(f.Name, f.Cls), fmtY, fmtG, f.Expr(o.expr), f.Name+"/"+f.Cls+" "+o.expr, true)
		}
		hb.probe(hxConsumerOf("json.Marshal", ""), hxFilter(implY, groups[4:]), hxFilter(implG, groups[4:]), hxJSONForm.Expr(o.expr), "json.Marshal "+o.expr, true)
	}
	return hb.finish("random-chain")
}

func hxFilter(ms, keep []string) []string {
	var res []string
	for _, m := range ms {
		for _, k := range keep {
			if m == k {
				res = append(res, m)
			}
		}
	}
	sort.Strings(res)
	return res
}

// genHostXMisc: errors.Is / Unwrap / As on error values with every subset of {Is, Unwrap},
// sort.Sort / Stable / Reverse and flag.Var with declared and promoted methods.
func genHostXMisc(tbl map[string][]c05MapEntry) *c05HostX {
	hb := &hxBuilder{tbl: tbl}
	for k, sub := range hxSubsets([]string{"Is", "Unwrap"}) {
		tn := fmt.Sprintf("ET%d", k)
		ms := append([]string{"Error"}, sub...)
		sort.Strings(ms)
		fmt.Fprintf(&hb.b, "type %s struct{ N int }\n\nfunc (r %s) Error() string { return \"%s.Error:\" + strconv.Itoa(r.N) }\n\n", tn, tn, tn)
		for _, m := range sub {
			if m == "Is" {
				fmt.Fprintf(&hb.b, "func (r %s) Is(t error) bool { trace += \"%s.Is: \"; return t == io.EOF }\n\n", tn, tn)
			} else {
				fmt.Fprintf(&hb.b, "func (r %s) Unwrap() error { trace += \"%s.Unwrap: \"; return io.EOF }\n\n", tn, tn)
			}
		}
		fmt.Fprintf(&hb.b, "func mk%s() error { return %s{N: 3} }\n\nfunc mkp%s() error { return &%s{N: 4} }\n\n", tn, tn, tn, tn)
		for _, mk := range []string{"mk" + tn + "()", "mkp" + tn + "()"} {
			hb.probe(hxConsumerOf("errors.Is", ""), ms, ms, "func() string { trace = \"\"; ok := errors.Is("+mk+", io.EOF); return trace + fmt.Sprint(ok) }()", "errors.Is "+mk, false)
			hb.probe(hxConsumerOf("errors.Unwrap", ""), ms, ms, "func() string { trace = \"\"; u := errors.Unwrap("+mk+"); return trace + fmt.Sprint(u) }()", "errors.Unwrap "+mk, false)
		}
		// the chain built by compiled fmt.Errorf("%w") around an interpreted error, and errors.As with an interpreted target type
		hb.probe(hxConsumerOf("errors.Is", ""), ms, ms, "func() string { trace = \"\"; e := mk"+tn+"(); w := fmt.Errorf(\"w: %w\", e); return trace + fmt.Sprint(w, errors.Unwrap(w) != nil, errors.Is(w, io.EOF)) }()", "Errorf %w "+tn, false)
		hb.probes[len(hb.probes)-1].NoCoq = true
		hb.probe(hxConsumerOf("errors.Is", ""), ms, ms, "func() string { var t "+tn+"; ok := errors.As(mk"+tn+"(), &t); return fmt.Sprint(ok, t.N) }()", "errors.As "+tn, false)
		hb.probes[len(hb.probes)-1].NoCoq = true
		hb.probes[len(hb.probes)-1].Region = "host-errors"
	}
	hb.b.WriteString("type SV []int\n\nfunc (s SV) Len() int { return len(s) }\n\nfunc (s SV) Less(i, j int) bool { return s[i] < s[j] }\n\nfunc (s SV) Swap(i, j int) { s[i], s[j] = s[j], s[i] }\n\n")
	hb.b.WriteString("type SP struct{ V []int }\n\nfunc (s *SP) Len() int { return len(s.V) }\n\nfunc (s *SP) Less(i, j int) bool { return s.V[i] < s.V[j] }\n\nfunc (s *SP) Swap(i, j int) { s.V[i], s.V[j] = s.V[j], s.V[i] }\n\n")
	hb.b.WriteString("type SQ struct{ *SP }\n\ntype SR struct {\n\tSP\n\tA int\n}\n\n")
	hb.b.WriteString("type FV struct{ S string }\n\nfunc (v *FV) String() string { return \"FV.String:\" + v.S }\n\nfunc (v *FV) Set(x string) error { v.S = \"set:\" + x; return nil }\n\ntype FW struct{ FV }\n\n")
	srt := []string{"Len", "Less", "Swap"}
	sc := hxConsumerOf("sort.Sort", "")
	hb.probe(sc, srt, srt, "func() string { x := SV{3, 1, 2}; sort.Sort(x); return fmt.Sprint(x, sort.IsSorted(x)) }()", "sort.Sort SV", false)
	hb.probe(sc, srt, srt, "func() string { x := SV{3, 1, 2, 5}; sort.Stable(sort.Reverse(x)); return fmt.Sprint(x) }()", "sort.Stable Reverse SV", false)
	hb.probe(sc, srt, srt, "func() string { x := &SP{[]int{3, 1, 2}}; sort.Sort(x); return fmt.Sprint(x.V) }()", "sort.Sort *SP", false)
	hb.probe(sc, srt, srt, "func() string { x := SQ{&SP{[]int{3, 1, 2}}}; sort.Stable(x); return fmt.Sprint(x.V) }()", "sort.Stable SQ", false)
	hb.probe(sc, srt, srt, "func() string { x := &SR{SP{[]int{9, 7, 8}}, 1}; sort.Sort(x); return fmt.Sprint(x.V, sort.IsSorted(x)) }()", "sort.Sort *SR", false)
	fv := []string{"Set", "String"}
	fc := hxConsumerOf("flag.Var", "")
	hb.probe(fc, fv, fv, "func() string { fs := flag.NewFlagSet(\"x\", flag.ContinueOnError); v := &FV{\"a\"}; fs.Var(v, \"v\", \"u\"); err := fs.Parse([]string{\"-v\", \"zz\"}); return fmt.Sprint(v.S, err, fs.Lookup(\"v\").Value.String(), fs.Lookup(\"v\").DefValue) }()", "flag.Var *FV", false)
	hb.probe(fc, fv, fv, "func() string { fs := flag.NewFlagSet(\"x\", flag.ContinueOnError); v := &FW{FV{\"a\"}}; fs.Var(v, \"v\", \"u\"); err := fs.Parse([]string{\"-v=q\"}); return fmt.Sprint(v.S, err, fs.Lookup(\"v\").Value.String()) }()", "flag.Var *FW", false)
	return hb.finish("pairs-misc")
}

// ---------------------------------------------------------------- shadowed promoted compiled methods
//
// An interpreted struct embeds a compiled NON-interface type (time.Time by value, *bytes.Buffer,
// *strings.Builder, *strings.Reader) and declares an interpreted method that SHADOWS one promoted
// from it; the value is handed, by value or by pointer, to compiled code expecting the interface
// that method belongs to.  Dimensions: number and position of the fields of the struct (yaegi marks
// the embedded field Anonymous in the reflect type only when it is the single field, so the reflect
// type of a single-field struct really has the promoted compiled methods) x base x shadowed method
// x receiver kind x operand kind x consumer.  Compiled Go calls the interpreted (shallowest) method.
// Compared with compiled Go only (no Coq case): the interpreted method leaves its identity in a trace.

type hxShadowBase struct {
	Type, Field, Init string
	Methods           []string // methods of the base that a probed interface contains
	NameClash         bool     // the base has a method Format(string) string: by name a fmt.Formatter for yaegi
}

var hxShadowBases = []hxShadowBase{
	{"time.Time", "Time", "time.Date(2021, 3, 4, 0, 0, 0, 0, time.UTC)", []string{"String", "MarshalJSON"}, true},
	{"*bytes.Buffer", "Buffer", "bytes.NewBufferString(\"hello\")", []string{"String", "Write", "Read"}, false},
	{"*strings.Builder", "Builder", "&strings.Builder{}", []string{"String", "Write"}, false},
	{"*strings.Reader", "Reader", "strings.NewReader(\"hello\")", []string{"Read"}, false},
}

func genHostXShadow(r *rng, tbl map[string][]c05MapEntry) []*c05HostX {
	var progs []*c05HostX
	k := 0
	for _, base := range hxShadowBases {
		for layout := 0; layout < 3; layout++ { // 0: single field, 1: base then extra, 2: extra then base
			// one program per (base, layout), run in a child process: handing a raw interpreted struct to
			// compiled code can kill the host with a fatal run-time error
			hb := &hxBuilder{tbl: tbl}
			hb.b.WriteString("func showStringer(s fmt.Stringer) string { return s.String() }\n\n")
			for _, m := range base.Methods {
				for _, ptrRecv := range []bool{false, true} {
					k++
					tn := fmt.Sprintf("SH%d", k)
					switch layout {
					case 0:
						fmt.Fprintf(&hb.b, "type %s struct{ %s }\n\n", tn, base.Type)
					case 1:
						fmt.Fprintf(&hb.b, "type %s struct {\n\t%s\n\tN int\n}\n\n", tn, base.Type)
					default:
						fmt.Fprintf(&hb.b, "type %s struct {\n\tN int\n\t%s\n}\n\n", tn, base.Type)
					}
					rc := "(r " + tn + ")"
					if ptrRecv {
						rc = "(r *" + tn + ")"
					}
					id := tn + "." + m + ":;"
					switch m {
					case "String":
						fmt.Fprintf(&hb.b, "func %s String() string { trace += \"%s\"; return \"<%s>\" }\n\n", rc, id, tn)
					case "MarshalJSON":
						fmt.Fprintf(&hb.b, "func %s MarshalJSON() ([]byte, error) { trace += \"%s\"; return []byte(\"\\\"<%s>\\\"\"), nil }\n\n", rc, id, tn)
					case "Write":
						fmt.Fprintf(&hb.b, "func %s Write(p []byte) (int, error) { trace += \"%s\"; return r.%s.Write(bytes.ToUpper(p)) }\n\n", rc, id, base.Field)
					case "Read":
						fmt.Fprintf(&hb.b, "func %s Read(p []byte) (int, error) { trace += \"%s\"; n, err := r.%s.Read(p); copy(p, bytes.ToUpper(p[:n])); return n, err }\n\n", rc, id, base.Field)
					}
					lit := tn + "{" + base.Field + ": " + base.Init + "}"
					for _, ptrOp := range []bool{false, true} {
						if ptrRecv && !ptrOp {
							continue // the shadowing method is not in the method set of the value
						}
						op := lit
						if ptrOp {
							op = "&" + lit
						}
						cell := map[string]any{"base": base.Type, "layout": layout, "method": m, "ptrRecv": ptrRecv, "ptrOperand": ptrOp}
						add := func(form, expr string) {
							c := hxConsumer{Name: "shadow." + form, Key: "", Static: []string{m}, Probes: []hxP{{m, []string{m}}}}
							hb.probe(c, []string{m}, []string{m}, "func() string { trace = \"\"; x := "+op+"; _ = x; "+expr+" }()", fmt.Sprintf("shadow %s %v", form, cell), false)
							p := hb.probes[len(hb.probes)-1]
							p.NoCoq = true
							p.Region = hxShadowRegion(base, layout, m, ptrRecv, ptrOp, form)
							p.Cell = map[string]any{"form": form}
							for kk, vv := range cell {
								p.Cell[kk] = vv
							}
						}
						switch m {
						case "String":
							add("iface-var", "var s fmt.Stringer = x; r := s.String(); return trace + r")
							add("iface-param", "r := showStringer(x); return trace + r")
							add("fmt.Sprint", "r := fmt.Sprint(x); return trace + r")
							add("fmt.Sprintf-s", "r := fmt.Sprintf(\"%s\", x); return trace + r")
						case "MarshalJSON":
							add("json.Marshal", "b, err := json.Marshal(x); return trace + string(b) + fmt.Sprint(err)")
						case "Write":
							add("bufio.NewWriter", "bw := bufio.NewWriter(x); bw.Write([]byte(\"def\")); bw.Flush(); return trace + x."+base.Field+".String()")
							add("iface-var", "var w io.Writer = x; w.Write([]byte(\"abc\")); return trace + x."+base.Field+".String()")
							add("io.Copy.dst", "n, err := io.Copy(x, io.LimitReader(strings.NewReader(\"abc\"), 9)); return trace + fmt.Sprint(n, err) + x."+base.Field+".String()")
						case "Read":
							add("io.ReadAll", "b, err := io.ReadAll(x); return trace + string(b) + fmt.Sprint(err)")
							add("iface-var", "var rd io.Reader = x; p := make([]byte, 8); n, err := rd.Read(p); return trace + string(p[:n]) + fmt.Sprint(err)")
							add("bufio.NewReader", "br := bufio.NewReader(x); l, err := br.ReadString('l'); return trace + l + fmt.Sprint(err)")
						}
					}
				}
			}
			hx := hb.finishWith("shadow", "\t\"time\"\n")
			hx.src = strings.Replace(hx.src, "\ttrace string\n", "\ttrace string\n\t_ = time.Now\n", 1)
			hx.child = true
			progs = append(progs, hx)
		}
	}
	return progs
}

// hxShadowRegion: the cells that already fail on the unchanged tree, by the defect they belong to.
func hxShadowRegion(base hxShadowBase, layout int, m string, ptrRecv, ptrOp bool, form string) string {
	if base.NameClash && strings.HasPrefix(form, "fmt.") {
		// time.Time has Format(layout string) string: implements() compares names only, the operand is taken
		// for a fmt.Formatter and building the wrapper panics in reflect.Set
		return "host-name-clash"
	}
	composedExtra := base.Type == "*bytes.Buffer" || base.Type == "*strings.Reader"
	if layout == 1 && !ptrOp && (m == "Read" || m == "Write") && composedExtra {
		// getWrapper chooses the composed wrapper (the promoted WriteTo / ReadFrom is in methods()), but the
		// promoted compiled method is not found on a non-pointer operand whose embedded field comes first
		// among several fields: "method not found: WriteTo / ReadFrom"
		return "host-composed-promoted-value"
	}
	return ""
}

// ---------------------------------------------------------------- defined types  (type C B)
//
// A type defined from another NAMED interpreted type has the fields of that type (and so the methods
// promoted from its embedded structs) but none of its methods.  Family k: A (embedded struct), B struct{ A; X int },
// C defined as "type C B", D defined as "type D C".  For every method name, who declares it is a
// dimension: {A only, A and B, A and C, A B and C, B and C, C only, B only}; all seven are exercised
// for two names in every run, through every call form (direct, pointer, method value, through an
// interpreted interface by value and by pointer, fmt.Sprint for String, conversions C(b) / B(c)).
// Compared with compiled Go only (the selector model has no defined types).

func genHostXDefined(r *rng, tbl map[string][]c05MapEntry) []*c05HostX {
	hb := &hxBuilder{tbl: tbl}
	// who declares the name: bit 0 = A, bit 1 = B, bit 2 = C
	configs := []int{1, 3, 5, 7, 6, 4, 2}
	names := []string{"M", "N", "String"}
	for _, n := range append([]string{"Z"}, names...) {
		fmt.Fprintf(&hb.b, "type KD%s interface{ %s() string }\n\n", n, n)
	}
	off := 1 + r.intn(6)
	// declaration order is a dimension too: all types first and the methods after them (order 0), or every
	// type directly followed by its methods, so that B's methods exist when "type C B" is met (order 1)
	for k := 0; k < 2*len(configs); k++ {
		order := k / len(configs)
		var typeDecl, methDecl [4]strings.Builder
		a, b, c, d := fmt.Sprintf("DA%d", k), fmt.Sprintf("DB%d", k), fmt.Sprintf("DC%d", k), fmt.Sprintf("DD%d", k)
		fmt.Fprintf(&typeDecl[0], "type %s struct{ V int }\n\n", a)
		fmt.Fprintf(&methDecl[0], "func (r %s) Z() string { return \"%s.Z:\" + strconv.Itoa(r.V) }\n\n", a, a)
		if r.bool() {
			fmt.Fprintf(&typeDecl[1], "type %s struct {\n\t%s\n\tX int\n}\n\n", b, a)
		} else {
			fmt.Fprintf(&typeDecl[1], "type %s struct {\n\tX int\n\t%s\n}\n\n", b, a)
		}
		fmt.Fprintf(&typeDecl[2], "type %s %s\n\n", c, b)
		fmt.Fprintf(&typeDecl[3], "type %s %s\n\n", d, c)
		kk := k % len(configs)
		cfg := map[string]int{"M": configs[kk], "N": configs[(kk+off)%len(configs)], "String": configs[(kk+2*off)%len(configs)]}
		ptrC := map[string]bool{}
		for _, n := range names {
			for bit, t := range []string{a, b, c} {
				if cfg[n]&(1<<bit) == 0 {
					continue
				}
				rc := "(r " + t + ")"
				if t == c && r.chance(30) {
					rc = "(r *" + t + ")"
					ptrC[n] = true
				}
				fmt.Fprintf(&methDecl[bit], "func %s %s() string { return \"%s.%s:\" + strconv.Itoa(r.V) }\n\n", rc, n, t, n)
			}
		}
		if order == 0 {
			for j := range typeDecl {
				hb.b.WriteString(typeDecl[j].String())
			}
			for j := range methDecl {
				hb.b.WriteString(methDecl[j].String())
			}
		} else {
			for j := range typeDecl {
				hb.b.WriteString(typeDecl[j].String())
				hb.b.WriteString(methDecl[j].String())
			}
		}
		mk := fmt.Sprintf("c := %s{%s: %s{V: %d}, X: %d}; _ = c; ", c, a, a, 10+k, k)
		add := func(form, n, expr string, region string) {
			cs := hxConsumer{Name: "defined." + form, Static: []string{n}, Probes: []hxP{{n, []string{n}}}}
			hb.probe(cs, []string{n}, []string{n}, "func() string { "+mk+expr+" }()", fmt.Sprintf("defined %s %s config %d", form, n, cfg[n]), false)
			p := hb.probes[len(hb.probes)-1]
			p.NoCoq, p.Region = true, region
			p.Cell = map[string]any{"form": form, "name": n, "declaredBy(A=1,B=2,C=4)": cfg[n], "ptrRecvC": ptrC[n], "methodsFollowTheirType": order == 1}
		}
		for _, n := range names {
			hasC := cfg[n]&4 != 0 || cfg[n]&1 != 0 // declared on C, or promoted from A
			hasD := cfg[n]&1 != 0                  // D only gets what is promoted from A
			hasB := cfg[n]&3 != 0
			if hasC {
				add("call", n, "return c."+n+"()", "")
				add("ptr-call", n, "p := &c; return p."+n+"()", "")
				add("method-value", n, "f := c."+n+"; return f()", "")
				if !(cfg[n]&4 != 0 && ptrC[n]) {
					add("iface", n, "var i KD"+n+" = c; return i."+n+"()", "")
					add("iface-assert", n, "var z KDZ = c; i, ok := z.(KD"+n+"); if !ok { return \"no\" }; return i."+n+"()", "")
				}
				add("iface-ptr", n, "var i KD"+n+" = &c; return i."+n+"()", "")
				if n == "String" && !(cfg[n]&4 != 0 && ptrC[n]) {
					add("fmt.Sprint", n, "return fmt.Sprint(c)", "")
				}
				if n == "String" {
					add("fmt.Sprint-ptr", n, "return fmt.Sprint(&c)", "")
				}
			} else {
				// the name is declared on B only: C does not have it
				add("iface-assert-absent", n, "var z KDZ = c; _, ok := z.(KD"+n+"); return fmt.Sprint(ok)", "defined-methodset")
			}
			if hasB {
				add("convert-to-B", n, "return "+b+"(c)."+n+"()", "")
			}
			if hasD {
				add("D-call", n, "d := "+d+"(c); return d."+n+"()", "")
				add("D-iface", n, "var i KD"+n+" = "+d+"(c); return i."+n+"()", "")
			} else if hasC {
				add("D-iface-assert-absent", n, "var z KDZ = "+d+"(c); _, ok := z.(KD"+n+"); return fmt.Sprint(ok)", "defined-methodset")
			}
		}
		add("fields", "Z", "c.V = 5; c.X = 6; return fmt.Sprint(c.V, c."+a+".V, c.X, c.Z())", "")
	}
	return []*c05HostX{hb.finish("defined")}
}
