package main

import (
	"fmt"
	"strings"
)

// ---------------------------------------------------------------- universe generator

type c05Knobs struct {
	fieldShadow  int  // percent: a plain field name from the shared alphabet (creates shadowing across depths)
	methShadow   int  // percent: a method name already used elsewhere
	namedStruct  int  // percent: a non-embedded struct-typed field (region named-field-descent)
	fieldMethMix int  // percent: a method named like a field of the alphabet (region field-method-depth)
	ptrCycle     int  // percent: an embedded pointer to a later type (cycles through pointers)
	sigClash     bool // interfaces / methods may use the non-canonical signature for a name
}

var c05MainKnobs = c05Knobs{fieldShadow: 45, methShadow: 55, namedStruct: 0, fieldMethMix: 0, ptrCycle: 0}

var (
	c05FieldNames = []string{"X", "Y", "Z"}
	c05MethNames  = []string{"M", "N", "P", "Q"}
)

func c05CanonSig(name string) int {
	if name == "Q" {
		return 1
	}
	return 0
}

func (u *c05Univ) embedDepth(t int, seen map[int]bool) int {
	if seen[t] {
		return 0
	}
	seen[t] = true
	d := 0
	for _, f := range u.Structs[t].Fields {
		if f.Embed && f.Typ >= 0 && f.Typ < len(u.Structs) {
			if x := 1 + u.embedDepth(f.Typ, seen); x > d {
				d = x
			}
		}
	}
	delete(seen, t)
	return d
}

func genC05Universe(r *rng, k c05Knobs) *c05Univ {
	u := &c05Univ{}
	n := 3 + r.intn(5)
	mid := 0
	for i := 0; i < n; i++ {
		var s c05Struct
		used := map[string]bool{}
		// state field first or last
		stateFirst := r.bool()
		if stateFirst {
			s.Fields = append(s.Fields, c05Field{Name: sname(i), Typ: -1})
		}
		// embedded fields (value: only earlier types, keeps the declarations finite; pointer: any other type)
		ne := 0
		if i > 0 {
			ne = r.intn(3)
			if r.chance(15) {
				ne = 3
			}
		}
		for e := 0; e < ne; e++ {
			j := r.intn(i)
			ptr := r.chance(35)
			if r.chance(k.ptrCycle) && i+1 < n {
				j = i + 1 + r.intn(n-i-1)
				ptr = true
			}
			if used[tname(j)] || used["f"+tname(j)] {
				continue
			}
			f := c05Field{Name: tname(j), Embed: true, Ptr: ptr, Typ: j}
			if r.chance(k.namedStruct) {
				f.Embed = false
				f.Name = "f" + tname(j)
			}
			// keep the embedding depth at most 3
			s.Fields = append(s.Fields, f)
			u.Structs = append(u.Structs, s)
			tooDeep := f.Embed && j < i && u.embedDepth(i, map[int]bool{}) > 3
			u.Structs = u.Structs[:i]
			if tooDeep {
				s.Fields = s.Fields[:len(s.Fields)-1]
				continue
			}
			used[f.Name] = true
			if f.Embed {
				used[tname(j)] = true
			}
		}
		// plain fields
		for _, fn := range c05FieldNames {
			if r.chance(k.fieldShadow) {
				pos := len(s.Fields)
				f := c05Field{Name: fn, Typ: -1}
				if r.bool() && pos > 0 {
					// before the embedded fields
					s.Fields = append([]c05Field{f}, s.Fields...)
				} else {
					s.Fields = append(s.Fields, f)
				}
				used[fn] = true
			}
		}
		if !stateFirst {
			s.Fields = append(s.Fields, c05Field{Name: sname(i), Typ: -1})
		}
		// methods
		for _, mn := range c05MethNames {
			if r.chance(k.methShadow) {
				sig := c05CanonSig(mn)
				if k.sigClash && r.chance(30) {
					sig = 1 - sig
				}
				s.Meths = append(s.Meths, c05Meth{Name: mn, Ptr: r.chance(40), Sig: sig, ID: mid})
				mid++
			}
		}
		if r.chance(k.fieldMethMix) {
			fn := r.pick(c05FieldNames)
			if !used[fn] {
				s.Meths = append(s.Meths, c05Meth{Name: fn, Ptr: r.chance(40), Sig: 0, ID: mid})
				mid++
			}
		}
		u.Structs = append(u.Structs, s)
	}
	// interfaces with overlapping method sets
	ni := 2 + r.intn(3)
	for i := 0; i < ni; i++ {
		var it c05Iface
		if i > 0 && r.chance(40) {
			it.Embeds = append(it.Embeds, r.intn(i))
		}
		for _, mn := range c05MethNames {
			if r.chance(40) {
				sig := c05CanonSig(mn)
				if k.sigClash && r.chance(30) {
					sig = 1 - sig
				}
				u.Ifaces = append(u.Ifaces, it)
				inherited, has := u.ifaceMethods(i)[mn]
				u.Ifaces = u.Ifaces[:i]
				if has && inherited != sig {
					continue
				}
				it.Meths = append(it.Meths, c05IM{mn, sig})
			}
		}
		if len(it.Meths) == 0 && len(it.Embeds) == 0 {
			mn := r.pick(c05MethNames)
			it.Meths = append(it.Meths, c05IM{mn, c05CanonSig(mn)})
		}
		u.Ifaces = append(u.Ifaces, it)
	}
	// declaration order: shuffled
	for i := range u.Structs {
		u.Order = append(u.Order, tname(i))
	}
	for i := range u.Ifaces {
		u.Order = append(u.Order, iname(i))
	}
	for i := len(u.Order) - 1; i > 0; i-- {
		j := r.intn(i + 1)
		u.Order[i], u.Order[j] = u.Order[j], u.Order[i]
	}
	return u
}

// ---------------------------------------------------------------- instances (composite literals with unique state values)

type c05Cell struct {
	Path  []int // index path from the root of the instance to the int field
	Owner int
	Field string
}

type c05Inst struct {
	u     *c05Univ
	next  *int
	cells map[int]c05Cell
}

const c05MaxInstDepth = 6

// lit renders a composite literal of type T<t>; every int field gets a fresh value recorded in cells.
func (in *c05Inst) lit(t int, path []int, depth int) string {
	var parts []string
	for i, f := range in.u.Structs[t].Fields {
		p := append(append([]int{}, path...), i)
		if f.Typ < 0 {
			*in.next++
			in.cells[*in.next] = c05Cell{Path: p, Owner: t, Field: f.Name}
			parts = append(parts, fmt.Sprintf("%s: %d", f.Name, *in.next))
			continue
		}
		if f.Ptr {
			if depth >= c05MaxInstDepth || f.Typ > t {
				// nil: pointers to later types close the embedding cycles (yaegi cannot build such nested literals)
				continue
			}
			parts = append(parts, fmt.Sprintf("%s: &%s", f.Name, in.lit(f.Typ, p, depth+1)))
		} else {
			parts = append(parts, fmt.Sprintf("%s: %s", f.Name, in.lit(f.Typ, p, depth+1)))
		}
	}
	return tname(t) + "{" + strings.Join(parts, ", ") + "}"
}

// pathExpr renders root.F1.F2... following the index path from type t.
func (u *c05Univ) pathExpr(root string, t int, path []int) string {
	e := root
	cur := t
	for _, i := range path {
		f := u.Structs[cur].Fields[i]
		e += "." + f.Name
		cur = f.Typ
	}
	return e
}
