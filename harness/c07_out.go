package main

import (
	"fmt"
	"os"
	"path/filepath"
	"strings"
)

// C07 — cases files for coqc and the summary for the driver.

func c07dirCoq(d string) string { return d }

func c07modeCoq(m string) string {
	switch m {
	case "ind":
		return "MInd"
	case "spread":
		return "MSpread"
	}
	return "MPlain"
}

func (c *c07case) coq() (kind, term string) {
	switch c.Kind {
	case "args":
		return "arg", fmt.Sprintf("(%d%%N, %s, (%s, %s), %s, %s, %s, %s, %s, %s)", c.ID, c.Dir, coqBool(c.Defer), coqBool(c.FuncV),
			c07coqTypes(c.Sig.In), coqBool(c.Sig.Variadic), c07modeCoq(c.Mode), c07coqVals(c.Sent), c07coqVals(c.Impl), c07coqVals(c.Ref))
	case "results":
		p := c.CoqK
		if p == "" {
			p = "PFrame"
		}
		ts, sent, ref := c.Ts, c.Sent, c.Ref
		if c.Full != nil {
			ts, sent = c.FullTs, c.Full
		}
		return "res", fmt.Sprintf("(%d%%N, %s, %s, %s, %s, %s, %s)", c.ID, c.Dir, p, c07coqTypes(ts), c07coqVals(sent), c07coqVals(c.Impl), c07coqVals(ref))
	case "meth":
		m := c.Meth
		form := map[string]string{"value": "FValue", "pointer": "FPointer", "method-value": "FMethodValue", "method-expr": "FMethodExpr", "via-interface": "FViaInterface"}[m.form]
		vp := "None"
		if m.vp >= 0 {
			vp = fmt.Sprintf("(Some %d)", m.vp)
		}
		return "meth", fmt.Sprintf("(%d%%N, %s, %s, %d, %d, %s, %s, %s)", c.ID, form, vp, m.np, m.na, c.Sent[0].coq(), c.Impl[0].coq(), c.Ref[0].coq())
	}
	nilv := "VNil"
	atc, prev := nilv, nilv
	if c.Old != nil {
		atc = c.Old.coq()
	}
	if c.Prev != nil {
		prev = c.Prev.coq()
	}
	return "var", fmt.Sprintf("(%d%%N, %s, %s, %s, %s, %s, %s, %s)", c.ID, c.CoqK, c.Ts[0].coq(), atc, prev, c.Sent[0].coq(), c.Impl[0].coq(), c.Ref[0].coq())
}

func (h *c07h) finish(out string, jobs []*c07job) error {
	sm := h.sm
	distinct := distinctSet{}
	for _, j := range jobs {
		sm.Evaluations += j.evals
		sm.RefComparisons += j.refs
		for k, v := range j.count {
			sm.Distribution[k] += v
		}
		for _, d := range j.dist {
			distinct.add(d)
		}
	}
	byKind := map[string][]string{}
	for _, c := range h.cases {
		k, term := c.coq()
		byKind[k] = append(byKind[k], term)
		sm.ImplComparisons++
		sm.RefComparisons++
		sm.count("case:" + c.Kind + ":" + c.Dir)
		if c.Region != "" {
			sm.count("region:" + c.Region)
		}
		info := map[string]any{"kind": c.Kind, "dir": c.Dir, "shape": c.Shape, "mode": c.Mode, "region": c.Region, "sent": c07valStrings(c.Sent)}
		if c.Sig != nil {
			info["signature"] = c07sigString(c.Sig)
		} else {
			info["type"] = c.Ts[0].src()
		}
		for _, k := range []string{"stream", "argform", "path", "how", "read", "write", "form", "method"} {
			if v, ok := c.Input[k]; ok {
				info[k] = v
			}
		}
		sm.CaseIndex[fmt.Sprint(c.ID)] = info
		if !c07equal(c.Impl, c.Ref) {
			why := ""
			for _, v := range c.Impl {
				if v.BadMsg != "" {
					why = v.BadMsg
					break
				}
			}
			in := map[string]any{}
			for k, v := range info {
				in[k] = v
			}
			in["script"] = c.Input["script"]
			sm.RefMismatches = append(sm.RefMismatches, refMismatch{ID: c.ID, Region: c.Region, Input: in, Impl: c07valStrings(c.Impl), Ref: c07valStrings(c.Ref), Note: why})
		}
		if len(sm.Samples) < 6 && c.Kind == "args" && c.Region == "" && len(c.Sent) >= 2 && c.ID%37 == 1 {
			sm.Samples = append(sm.Samples, map[string]any{"case": info, "observed": c07valStrings(c.Impl)})
		}
	}
	next := len(h.cases)
	for _, j := range jobs {
		for _, w := range j.wraps {
			next++
			w.ID = next
			probe := "WComparable"
			if w.probe != "comparable" {
				probe = "(WMethod " + coqStr(w.probe) + ")"
			}
			byKind["wrap"] = append(byKind["wrap"], fmt.Sprintf("(%d%%N, %s, %s, %s, %s, %s)", w.ID, w.pkind, coqStrList(w.methods), probe, coqBool(w.impl), coqBool(w.ref)))
			sm.ImplComparisons++
			sm.RefComparisons++
			sm.count("case:wrap")
			info := map[string]any{"kind": "wrap", "param": w.pkind, "methods": strings.Join(w.methods, ","), "probe": w.probe, "region": w.region}
			sm.CaseIndex[fmt.Sprint(w.ID)] = info
			if w.region != "" {
				sm.count("region:" + w.region)
			}
			if w.impl != w.ref {
				in := map[string]any{"script": w.input["script"]}
				for k, v := range info {
					in[k] = v
				}
				sm.RefMismatches = append(sm.RefMismatches, refMismatch{ID: w.ID, Region: w.region, Input: in, Impl: w.impl, Ref: w.ref})
			}
		}
	}
	whoCoq := func(l []string, failed bool) string {
		it := make([]string, len(l))
		for i, w := range l {
			it[i] = map[string]string{"script": "WScript", "host": "WHost", "both": "WBoth", "none": "WNone"}[w]
		}
		return "(" + coqList(it) + ", " + coqBool(failed) + ")"
	}
	for _, j := range jobs {
		for _, d := range j.disps {
			next++
			d.ID = next
			lay := map[string]string{"only": "LOnly", "first": "LFirst", "last": "LLast"}[d.f.layout]
			facts := fmt.Sprintf("{| ef_ptr := %s; ef_layout := %s; ef_implements := %s; ef_nummeth := %s; ef_real := %s |}",
				coqBool(d.f.ptr), lay, coqBool(d.f.implements), coqBool(d.f.nummeth), coqBool(d.f.real))
			byKind["disp"] = append(byKind["disp"], fmt.Sprintf("(%d%%N, %s, %s, %s, %s, %s, %s)", d.ID, facts, coqStrList(d.e.over), coqBool(d.e.delegate),
				coqStrList(d.e.iface.methods), whoCoq(d.impl, d.failed), whoCoq(d.inscript, d.infail)))
			sm.ImplComparisons++
			sm.RefComparisons++
			sm.count("case:disp")
			if d.region != "" {
				sm.count("region:" + d.region)
			}
			info := map[string]any{"kind": "disp", "region": d.region}
			for _, k := range []string{"stream", "iface", "embed", "layout", "overrides", "delegate", "pointer-receiver", "by-pointer", "pass"} {
				info[k] = d.input[k]
			}
			sm.CaseIndex[fmt.Sprint(d.ID)] = info
			g := d.e.gDispatch()
			if d.failed || fmt.Sprint(d.impl) != fmt.Sprint(g) {
				in := map[string]any{"script": d.input["script"]}
				for k, v := range info {
					in[k] = v
				}
				sm.RefMismatches = append(sm.RefMismatches, refMismatch{ID: d.ID, Region: d.region, Input: in,
					Impl: map[string]any{"ran": d.impl, "failed": d.failed}, Ref: map[string]any{"ran": g, "in-script": d.inscript}, Note: "which implementation ran each method the host called"})
			}
		}
	}
	for _, j := range jobs {
		for _, c := range j.sess {
			next++
			c.ID = next
			oc := func(l []string) (string, bool) {
				it := make([]string, len(l))
				ok := true
				for i, x := range l {
					switch x {
					case "ok":
						it[i] = "OOk"
					case "zero":
						it[i] = "OZero"
					default:
						ok = false
						it[i] = "OZero"
					}
				}
				return coqList(it), ok
			}
			implT, ok1 := oc(c.impl)
			refT, ok2 := oc(c.ref)
			byKind["sess"] = append(byKind["sess"], fmt.Sprintf("(%d%%N, %s, %s, %s)", c.ID, coqList(c.steps), implT, refT))
			sm.ImplComparisons++
			sm.RefComparisons++
			sm.count("case:sess")
			if c.region != "" {
				sm.count("region:" + c.region)
			}
			info := map[string]any{"kind": "sess", "region": c.region, "steps": c.input["steps"], "signature": c.input["signature"], "path": c.input["path"]}
			sm.CaseIndex[fmt.Sprint(c.ID)] = info
			allok := ok1 && ok2
			for _, x := range append(append([]string{}, c.impl...), c.ref...) {
				allok = allok && x == "ok"
			}
			if !allok {
				in := map[string]any{"script": c.input["script"], "observed": c.input["observed"]}
				for k, v := range info {
					in[k] = v
				}
				region := c.region
				if !ok1 || !ok2 {
					region = "" // neither the function's results nor zero values
				}
				sm.RefMismatches = append(sm.RefMismatches, refMismatch{ID: c.ID, Region: region, Input: in, Impl: c.impl, Ref: "every native call gives the function's results, like the in-script calls: " + fmt.Sprint(c.ref),
					Note: "a function value kept by the host across the session"})
			}
		}
	}
	for _, j := range jobs {
		for _, c := range j.echos {
			next++
			c.ID = next
			q := c.q
			cls := q.class(c.impl, c.fail)
			repCoq := func(x string) string {
				return map[string]string{"raw": "ARaw", "wrap": "AWrap", "box": "(ABox 0)", "fail": "AFail"}[x]
			}
			shape := map[string]string{"lit": "ALit", "var": "ASlot", "field": "ASlot", "elem": "ASlot", "mapelem": "ASlot", "deref": "ASlot", "call": "ACall", "methcall": "ACall",
				"hostcall": "AHostCall", "conv": "AConv", "nested2": "(ANested 0)", "nested3": "(ANested 1)"}[q.Shape]
			pt := map[string]string{"concrete": "PConcrete", "iface": "PIface", "any": "PAny", "hostiface": "PHostIface"}[q.P]
			sink := "KEcho"
			if q.Sink == "EchoStr" {
				sink = "KEchoStr"
			}
			obs := repCoq(cls)
			region := c.region
			if obs == "" {
				obs, region = "AFail", "" // an echo that is none of the known classes
				if cls == "fail" {
					obs = "AFail"
				}
			}
			byKind["echo"] = append(byKind["echo"], fmt.Sprintf("(%d%%N, %s, %s, %s, %d, %s, %s, %s)", c.ID, pt, coqBool(q.hasM()), shape, q.Depth, sink, obs, repCoq(q.gEcho())))
			sm.ImplComparisons++
			sm.RefComparisons++
			sm.count("case:echo")
			if c.region != "" {
				sm.count("region:" + c.region)
			}
			info := map[string]any{"kind": "echo", "region": c.region}
			for _, k := range []string{"stream", "param-type", "value", "shape", "forwarded-through", "sink"} {
				info[k] = c.input[k]
			}
			sm.CaseIndex[fmt.Sprint(c.ID)] = info
			if cls != q.gEcho() {
				in := map[string]any{"script": c.input["script"]}
				for k, v := range info {
					in[k] = v
				}
				if repCoq(cls) == "" {
					region = ""
				}
				sm.RefMismatches = append(sm.RefMismatches, refMismatch{ID: c.ID, Region: region, Input: in, Impl: map[string]any{"echo": c.impl, "failed": c.fail, "class": cls},
					Ref: map[string]any{"class": q.gEcho(), "plainest-shape-echo": c.ref}, Note: "the host echoes %T:%v of what it receives"})
			}
		}
		for _, c := range j.stmts {
			next++
			c.ID = next
			g := c.g
			form := map[string]string{"go": "FGo", "defer": "FDefer"}[g.Form]
			callee := map[string]string{"host-direct": "CHostDirect", "host-direct-any": "CHostDirect", "host-var": "CHostVar", "host-var-typed": "CHostVarTyped", "host-param": "CHostParam",
				"host-field": "CHostField", "script-func": "CScriptFunc", "script-closure": "CScriptClosure", "host-method": "CHostMethod", "host-method-value": "CHostMethodValue",
				"script-method": "CScriptMethod", "script-method-value": "CScriptMethodValue"}[g.Callee]
			region := c.region
			late := c.impl == "second"
			if c.impl == "other" {
				region = ""
				late = !g.yLate() // neither value: make the model disagree
			}
			byKind["stmt"] = append(byKind["stmt"], fmt.Sprintf("(%d%%N, %s, %s, %s, false)", c.ID, form, callee, coqBool(late)))
			sm.ImplComparisons++
			sm.RefComparisons++
			sm.count("case:stmt")
			if c.region != "" {
				sm.count("region:" + c.region)
			}
			info := map[string]any{"kind": "stmt", "region": c.region, "form": g.Form, "callee": g.Callee, "arg": g.Arg}
			sm.CaseIndex[fmt.Sprint(c.ID)] = info
			if c.impl != "first" {
				in := map[string]any{"script": c.input["script"], "received": c.input["received"], "failed": c.input["failed"], "at-statement": c.input["at-statement"], "assigned-after": c.input["assigned-after"]}
				for k, v := range info {
					in[k] = v
				}
				sm.RefMismatches = append(sm.RefMismatches, refMismatch{ID: c.ID, Region: region, Input: in, Impl: c.input["received"], Ref: c.input["at-statement"],
					Note: "Go evaluates the arguments of a go/defer statement at the statement (child process, GOMAXPROCS(1))"})
			}
		}
	}
	for _, j := range jobs {
		for _, c := range j.lits {
			next++
			c.ID = next
			var ks, ii, ri []string
			for _, e := range c.l.Els {
				if e.key >= 0 {
					ks = append(ks, fmt.Sprintf("(Some %d)", e.key))
				} else {
					ks = append(ks, "None")
				}
			}
			for _, i := range c.implIdx {
				ii = append(ii, fmt.Sprint(i))
			}
			ridx, rlen := c.l.indexes()
			for _, i := range ridx {
				ri = append(ri, fmt.Sprint(i))
			}
			byKind["lit"] = append(byKind["lit"], fmt.Sprintf("(%d%%N, %s, (%s, %d), (%s, %d))", c.ID, coqList(ks), coqList(ii), c.implLen, coqList(ri), rlen))
			sm.ImplComparisons++
			sm.RefComparisons++
			sm.count("case:lit")
			sm.CaseIndex[fmt.Sprint(c.ID)] = map[string]any{"kind": "lit", "type": "host." + c.l.Type, "form": c.l.Form, "literal": c.l.litSrc("host." + c.l.Type)}
		}
	}
	for _, j := range jobs {
		for _, m := range j.other {
			next++
			m.ID = next
			sm.RefMismatches = append(sm.RefMismatches, m)
		}
	}
	hdr := "From Verif Require Import Lib.Str Boundary.Types Boundary.Marshal Boundary.Cases.\n"
	per := map[string]int{"arg": 120, "res": 150, "var": 200, "meth": 400, "wrap": 2000, "disp": 2000, "sess": 2000, "echo": 3000, "stmt": 3000, "lit": 3000}
	for _, k := range []string{"arg", "res", "var", "meth", "wrap", "disp", "sess", "echo", "stmt", "lit"} {
		cases := byKind[k]
		for i, n := 0, 0; i < len(cases); i, n = i+per[k], n+1 {
			e := i + per[k]
			if e > len(cases) {
				e = len(cases)
			}
			body := fmt.Sprintf("Definition cases : list %s_case := [\n%s\n].\nDefinition MY := Eval vm_compute in %s_mis_y cases.\nPrint MY.\nDefinition MG := Eval vm_compute in %s_mis_g cases.\nPrint MG.\n",
				k, strings.Join(cases[i:e], ";\n"), k, k)
			name := fmt.Sprintf("cases_%s_%d.v", k, n)
			sm.CasesFiles = append(sm.CasesFiles, name)
			if err := os.WriteFile(filepath.Join(out, name), []byte(hdr+body), 0o644); err != nil {
				return err
			}
		}
	}
	sm.DistinctNontriv = len(distinct)
	sm.Rule = "signature shapes drawn from the type grammar (basic kinds, host structs, pointers, arrays, slices, maps, funcs, error, interface{}; depth <= 3; 0-4 parameters, 0-3 results, variadic or not, function types nested twice) x seeded argument/result values x call-site shape and argument form (script calls host) or access path and call mode (host calls script, with the same call inside the script); " +
		"host and script variables read/written from the other side, mutations through pointers/slices/maps, values and closures crossing twice, stateful closures called from both sides, type assertions of Interface() to static func types, host methods (value/pointer/method value/method expression/interface), negative zero, script types handed to fmt/errors/sort/io/heap (reference: compiled Go); " +
		"evaluation = one scenario run on the implementation; distinct = distinct (stream, signature or type, mode, shape, values); non-trivial = every scenario performs at least one crossing of the boundary with a generated value"
	return sm.write(out)
}
