package main

import (
	"bufio"
	"bytes"
	"context"
	"encoding/json"
	"errors"
	"fmt"
	"os"
	"os/exec"
	"path/filepath"
	"reflect"
	"runtime"
	"strings"
	"sync"
	"time"

	"github.com/traefik/yaegi/interp"
	"github.com/traefik/yaegi/stdlib"
)

// Child-process runner of C06: a batch of programs is evaluated by real yaegi in a child of this
// binary, one JSON line per finished case, so that a crash or a hang of the host is observed by the
// parent (which restarts the child after the offending case) and not suffered.

type c06ChildIn struct {
	ID   int    `json:"id"`
	Src  string `json:"src"`  // whole program with func main
	Defs string `json:"defs"` // the same definitions with Main/Probe instead of main
	// Aux: a whole program outside the Coq models (receiver pool stream): variant A only, with
	// os.Stdout of the script bound to the interpreter's Stdout (YAEGI_SPECIAL_STDIO).
	Aux bool `json:"aux,omitempty"`
	// Session: a usability session on ONE interpreter (c06_aux.go); Src and Defs are unused.
	Session *c06Session `json:"session,omitempty"`
	// Entry: one cell of the entry point x panic site matrix (c06_entry.go).
	Entry *c06EntryIn `json:"entry,omitempty"`
}

type c06ChildOut struct {
	ID int `json:"id"`
	// variant A: Eval(whole program)
	Stdout     string `json:"stdout"`
	End        string `json:"end"`
	IsPanicErr bool   `json:"is_panic_err"` // the error is an interp.Panic
	ValueType  string `json:"value_type"`   // dynamic type of Panic.Value
	Wraps      int    `json:"wraps"`        // number of reflect.Value layers around the carried value
	VKind      string `json:"vkind"`        // int | str | err | fault | other: the carried value itself
	// variant B on ONE interpreter, through Interpreter.Eval: Eval(defs); Eval("Main()"); Eval("Probe()")
	DefsErr string `json:"defs_err"`
	Stdout2 string `json:"stdout2"`
	End2    string `json:"end2"`
	Probe   string `json:"probe"`
	// session: one line per observed step
	Lines []string `json:"lines,omitempty"`
}

// contractViolation checks the part of C06 that has no compiled counterpart.
func (o c06ChildOut) contractViolation() string {
	switch {
	case strings.HasPrefix(o.End, "host-crash"):
		return "host crashed: " + o.End
	case o.End == "timeout" || o.End2 == "timeout":
		return "" // a hang is reported through the comparison with the reference
	case strings.HasPrefix(o.End, "panic:") && !o.IsPanicErr:
		return "escaping panic not returned as interp.Panic"
	case o.DefsErr != "":
		return "definitions not accepted: " + o.DefsErr
	case o.End2 != o.End || o.Stdout2 != o.Stdout:
		return fmt.Sprintf("Eval(\"Main()\") behaves differently from the whole program: %q %q", o.Stdout2, o.End2)
	case o.Probe != "4242":
		return "interpreter not usable after the evaluation: Probe() = " + o.Probe
	}
	return ""
}

type c06EndInfo struct {
	isPanic bool
	vtype   string
	wraps   int
	vkind   string
}

func c06YaegiEnd(err error) (end string, info c06EndInfo) {
	if err == nil {
		return "ok", info
	}
	var p interp.Panic
	if errors.As(err, &p) {
		info.isPanic = true
		info.vtype = fmt.Sprintf("%T", p.Value)
		info.wraps, info.vkind = c06Carrier(p.Value)
		// the text a host sees through the error interface (fmt.Sprint of the carried value)
		return "panic:" + classifyPanic(strings.TrimPrefix(p.Error(), "runtime error: ")), info
	}
	if errors.Is(err, context.DeadlineExceeded) || errors.Is(err, context.Canceled) {
		return "timeout", info
	}
	return "compile-error:" + firstLine(err.Error()), info
}

// c06Carrier looks at Panic.Value itself: how many reflect.Value layers, and what is inside.
func c06Carrier(v interface{}) (wraps int, kind string) {
	for wraps < 16 {
		rv, ok := v.(reflect.Value)
		if !ok {
			break
		}
		if !rv.IsValid() || !rv.CanInterface() {
			return wraps, "other"
		}
		wraps++
		v = rv.Interface()
	}
	isFault := func(msg string) bool {
		return !strings.HasPrefix(classifyPanic(strings.TrimPrefix(msg, "runtime error: ")), "value:")
	}
	switch x := v.(type) {
	case int:
		return wraps, "int"
	case string:
		if isFault(x) {
			return wraps, "fault"
		}
		if c06StrRe.MatchString(x) {
			return wraps, "str"
		}
	case error:
		if isFault(x.Error()) {
			return wraps, "fault"
		}
		if c06ErrRe.MatchString(x.Error()) {
			return wraps, "err"
		}
	}
	return wraps, "other"
}

type c06EvalRes struct {
	v   reflect.Value
	err error
}

// c06Eval evaluates src on i with a timeout; a host panic on the evaluating goroutine is caught.
// plain: Interpreter.Eval (only Execute stands between a script panic and the host) instead of
// EvalWithContext (which recovers once more in its own goroutine).
func c06Eval(i *interp.Interpreter, src string, timeout time.Duration, plain bool) (res c06EvalRes, end string, info c06EndInfo) {
	done := make(chan c06EvalRes, 1)
	crash := make(chan string, 1)
	go func() {
		defer func() {
			if p := recover(); p != nil {
				crash <- fmt.Sprint(p)
			}
		}()
		if plain {
			v, err := i.Eval(src)
			done <- c06EvalRes{v, err}
			return
		}
		ctx, cancel := context.WithTimeout(context.Background(), timeout)
		defer cancel()
		v, err := i.EvalWithContext(ctx, src)
		done <- c06EvalRes{v, err}
	}()
	select {
	case r := <-done:
		end, info = c06YaegiEnd(r.err)
		return r, end, info
	case m := <-crash:
		return res, "host-crash:" + firstLine(m), info
	case <-time.After(timeout + 2*time.Second):
		return res, "timeout", info
	}
}

func c06RunOne(in c06ChildIn, timeout time.Duration) c06ChildOut {
	o := c06ChildOut{ID: in.ID}
	if in.Entry != nil {
		o.Lines = c06RunEntry(*in.Entry, timeout)
		o.End, o.End2, o.Probe = "ok", "ok", "4242"
		return o
	}
	if in.Session != nil {
		o.Lines = c06RunSession(*in.Session, timeout)
		o.End, o.End2, o.Probe = "ok", "ok", "4242"
		return o
	}
	if in.Aux {
		os.Setenv("YAEGI_SPECIAL_STDIO", "1")
		defer os.Unsetenv("YAEGI_SPECIAL_STDIO")
	}
	{
		var stdout, stderr bytes.Buffer
		i := interp.New(interp.Options{Stdout: &stdout, Stderr: &stderr})
		if err := i.Use(stdlib.Symbols); err != nil {
			o.End = "host-crash:use:" + err.Error()
			return o
		}
		var info c06EndInfo
		_, o.End, info = c06Eval(i, in.Src, timeout, false)
		o.IsPanicErr, o.ValueType, o.Wraps, o.VKind = info.isPanic, info.vtype, info.wraps, info.vkind
		o.Stdout = stdout.String()
	}
	if in.Aux {
		o.End2, o.Stdout2, o.Probe = o.End, o.Stdout, "4242"
		return o
	}
	if o.End == "timeout" || strings.HasPrefix(o.End, "host-crash") || strings.HasPrefix(o.End, "compile-error") {
		o.End2, o.Probe = o.End, "skipped"
		return o
	}
	var stdout, stderr bytes.Buffer
	i := interp.New(interp.Options{Stdout: &stdout, Stderr: &stderr})
	i.Use(stdlib.Symbols)
	if r, end, _ := c06Eval(i, in.Defs, timeout, true); r.err != nil || end != "ok" {
		o.DefsErr = end
		return o
	}
	var info2 c06EndInfo
	_, o.End2, info2 = c06Eval(i, "Main()", timeout, true)
	o.Stdout2 = stdout.String()
	if info2.isPanic && (info2.wraps != o.Wraps || info2.vkind != o.VKind) {
		o.End2 += fmt.Sprintf(" [carried value differs: %d %s]", info2.wraps, info2.vkind)
	}
	if o.End2 == "timeout" {
		o.Probe = "skipped"
		return o
	}
	r, end, _ := c06Eval(i, "Probe()", timeout, true)
	switch {
	case end != "ok":
		o.Probe = end
	case !r.v.IsValid():
		o.Probe = "invalid"
	default:
		o.Probe = fmt.Sprint(r.v.Interface())
	}
	return o
}

func init() {
	register("c06-child", "internal: evaluate a batch of C06 programs with yaegi, one JSON line per case", func(args []string) error {
		if len(args) != 2 {
			return fmt.Errorf("usage: c06-child <batch.json> <timeout>")
		}
		b, err := os.ReadFile(args[0])
		if err != nil {
			return err
		}
		timeout, err := time.ParseDuration(args[1])
		if err != nil {
			return err
		}
		var ins []c06ChildIn
		if err := json.Unmarshal(b, &ins); err != nil {
			return err
		}
		w := bufio.NewWriter(os.Stdout)
		enc := json.NewEncoder(w)
		for _, in := range ins {
			// announce the case first: if the process dies, the parent knows which one it was
			fmt.Fprintf(w, "{\"start\":%d}\n", in.ID)
			w.Flush()
			if err := enc.Encode(c06RunOne(in, timeout)); err != nil {
				return err
			}
			w.Flush()
		}
		return nil
	})
}

// c06RunChildren distributes the cases over one child process per core.
func c06RunChildren(ins []c06ChildIn, timeout time.Duration) map[int]c06ChildOut {
	res := map[int]c06ChildOut{}
	var mu sync.Mutex
	workers := runtime.NumCPU()
	if workers > 16 {
		workers = 16
	}
	if workers > len(ins) {
		workers = len(ins)
	}
	if workers == 0 {
		return res
	}
	dir, err := os.MkdirTemp("", "vh-c06-*")
	if err != nil {
		return res
	}
	defer os.RemoveAll(dir)
	self, _ := os.Executable()
	var wg sync.WaitGroup
	for w := 0; w < workers; w++ {
		var batch []c06ChildIn
		for i := w; i < len(ins); i += workers {
			batch = append(batch, ins[i])
		}
		wg.Add(1)
		go func(w int, batch []c06ChildIn) {
			defer wg.Done()
			for round := 0; len(batch) > 0; round++ {
				path := filepath.Join(dir, fmt.Sprintf("b%d_%d.json", w, round))
				b, _ := json.Marshal(batch)
				os.WriteFile(path, b, 0o644)
				budget := time.Duration(len(batch))*(3*timeout+8*time.Second) + 30*time.Second
				ctx, cancel := context.WithTimeout(context.Background(), budget)
				cmd := exec.CommandContext(ctx, self, "c06-child", path, timeout.String())
				var out, errb bytes.Buffer
				cmd.Stdout, cmd.Stderr = &out, &errb
				rerr := cmd.Run()
				cancel()
				started := 0
				doneIDs := map[int]bool{}
				sc := bufio.NewScanner(&out)
				sc.Buffer(make([]byte, 1<<20), 1<<26)
				for sc.Scan() {
					var st struct {
						Start int `json:"start"`
					}
					var o c06ChildOut
					line := sc.Bytes()
					if json.Unmarshal(line, &st) == nil && st.Start != 0 {
						started = st.Start
						continue
					}
					if json.Unmarshal(line, &o) == nil && o.ID != 0 {
						mu.Lock()
						res[o.ID] = o
						mu.Unlock()
						doneIDs[o.ID] = true
					}
				}
				var rest []c06ChildIn
				crashed := false
				for _, in := range batch {
					if doneIDs[in.ID] {
						continue
					}
					if !crashed && (in.ID == started || started == 0) {
						// the child died while (or before) evaluating this case
						crashed = true
						mu.Lock()
						res[in.ID] = c06ChildOut{ID: in.ID, End: "host-crash:child died: " + firstLine(fmt.Sprint(rerr)) + ": " + firstLine(errb.String()), End2: "host-crash", Probe: "skipped"}
						mu.Unlock()
						continue
					}
					rest = append(rest, in)
				}
				if len(rest) == len(batch) { // no progress: give up on the batch
					for _, in := range rest {
						mu.Lock()
						res[in.ID] = c06ChildOut{ID: in.ID, End: "host-crash:child made no progress", End2: "host-crash", Probe: "skipped"}
						mu.Unlock()
					}
					rest = nil
				}
				batch = rest
			}
		}(w, batch)
	}
	wg.Wait()
	return res
}

// c06RefAll compiles and runs the programs with the Go toolchain. To keep the link time down the
// cases are bundled: every case becomes a package cNNNNN (its definitions, unchanged, with Main
// exported) and one driver binary per group of cases calls cNNNNN.Main() for the case named on its
// command line. If the bundled build fails the programs are built one by one (goRefBatch).
func c06RefAll(progs []goProg, timeout time.Duration) (map[string]outcome, error) {
	res, err := c06RefBundled(progs, timeout)
	if err == nil {
		return res, nil
	}
	fmt.Fprintln(os.Stderr, "c06: bundled reference build failed, building one by one:", firstLine(err.Error()))
	plain := make([]goProg, len(progs))
	for i, p := range progs {
		plain[i] = goProg{Name: p.Name, Files: map[string]string{"main.go": p.Files["main.go"]}}
	}
	return goRefBatch(plain, timeout, false)
}

func c06RefBundled(progs []goProg, timeout time.Duration) (map[string]outcome, error) {
	res := map[string]outcome{}
	dir, err := os.MkdirTemp("", "vh-c06ref-*")
	if err != nil {
		return nil, err
	}
	defer os.RemoveAll(dir)
	if err := os.WriteFile(filepath.Join(dir, "go.mod"), []byte("module ref\n\ngo 1.22\n"), 0o644); err != nil {
		return nil, err
	}
	const per = 48
	groupOf := map[string]string{}
	for g := 0; g*per < len(progs); g++ {
		part := progs[g*per : min(len(progs), (g+1)*per)]
		gname := fmt.Sprintf("g%04d", g)
		var drv strings.Builder
		drv.WriteString("package main\n\nimport (\n\t\"os\"\n")
		for _, p := range part {
			fmt.Fprintf(&drv, "\t%q\n", "ref/"+p.Name)
		}
		drv.WriteString(")\n\nfunc main() {\n\tswitch os.Args[1] {\n")
		for _, p := range part {
			fmt.Fprintf(&drv, "\tcase %q:\n\t\t%s.Main()\n", p.Name, p.Name)
			src := strings.Replace(p.Files["defs"], "package main\n", "package "+p.Name+"\n", 1)
			os.MkdirAll(filepath.Join(dir, p.Name), 0o755)
			if err := os.WriteFile(filepath.Join(dir, p.Name, "p.go"), []byte(src), 0o644); err != nil {
				return nil, err
			}
			groupOf[p.Name] = gname
		}
		drv.WriteString("\t}\n}\n")
		os.MkdirAll(filepath.Join(dir, gname), 0o755)
		if err := os.WriteFile(filepath.Join(dir, gname, "main.go"), []byte(drv.String()), 0o644); err != nil {
			return nil, err
		}
	}
	bin := filepath.Join(dir, "bin")
	os.MkdirAll(bin, 0o755)
	ctx, cancel := context.WithTimeout(context.Background(), 20*time.Minute)
	defer cancel()
	cmd := exec.CommandContext(ctx, "go", "build", "-o", bin+"/", "./...")
	cmd.Dir = dir
	cmd.Env = append(os.Environ(), "GOFLAGS=-mod=mod", "GOPROXY=off", "GOSUMDB=off", "GOTOOLCHAIN=local", "GO111MODULE=on")
	if bout, berr := cmd.CombinedOutput(); berr != nil {
		return nil, fmt.Errorf("go build: %v: %s", berr, string(bout))
	}
	var mu sync.Mutex
	parallelMap(len(progs), 0, func(i int) {
		p := progs[i]
		r := c06RunBinary(filepath.Join(bin, groupOf[p.Name]), p.Name, timeout)
		mu.Lock()
		res[p.Name] = r
		mu.Unlock()
	})
	return res, nil
}

func c06RunBinary(path, arg string, timeout time.Duration) outcome {
	ctx, cancel := context.WithTimeout(context.Background(), timeout)
	defer cancel()
	cmd := exec.CommandContext(ctx, path, arg)
	var out, errb bytes.Buffer
	cmd.Stdout, cmd.Stderr = &out, &errb
	err := cmd.Run()
	r := outcome{Stdout: out.String()}
	switch {
	case ctx.Err() != nil:
		r.End = "timeout"
	case err == nil:
		r.End = "ok"
	default:
		r.End = goEnd(errb.String(), err)
	}
	return r
}
