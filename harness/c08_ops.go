package main

import (
	"strings"
)

// C08, operand templates: "every statement form x executed concurrently by N goroutines with DISTINCT operands".
//
// Every program starts N goroutines that run the SAME function (hence the same call sites / statements, i.e. the
// same generated closures) on per-goroutine operands prepared sequentially by main. Worker id computes
//
//	res[id] = sum over x = 1..K of ((id*A + B + x) % 1009)
//
// through one particular language mechanism (interface method call, method value, closure variable, struct /
// array / slice / map operand, type assertion / switch, composite literals, defer/recover, range, ...), so the
// result identifies WHOSE operand was used: a closure that caches an operand per statement instead of per
// execution makes a worker compute another worker's figure. All sub-templates share one closed form
// (Conc/Model.v g_ops); the output does not depend on the schedule; main prints res in index order.

type c08opsTpl struct {
	Name    string
	Imports []string // besides fmt and sync
	Decls   string   // package-level declarations
	Params  string   // worker parameters after id
	Body    string   // computes s from the parameters
	Prep    string   // statements in main before the spawn loop
	Args    string   // worker arguments after id, for goroutine id
	Spawn   string   // replaces the default spawn loop when not empty
	Post    string   // statements in main after the spawn loop, before wg.Wait()
	After   string   // statements in main after wg.Wait(), before the results are printed
	Region  string   // the cell lies in the region of a known finding (label); "" = main stream
	KMul    int      // iterations multiplier (statements whose failure needs real overlap of executions)
	Skip    string   // not generated: the unchanged tree disagrees with compiled Go here for a reason outside C08 (label)
}

const c08opsLoop = "for x := 1; x <= @K@; x++ "

var c08Ops = []c08opsTpl{
	{ // method call through a script-declared interface, dynamic values of an interpreted type
		Name: "ifcall",
		Decls: `type Handler interface{ Handle(x int) int }
type named struct{ base int }
func (h named) Handle(x int) int { return (h.base + x) % 1009 }`,
		Params: "h Handler",
		Body:   "s := 0\n\t" + c08opsLoop + "{\n\t\ts += h.Handle(x)\n\t}",
		Prep:   "ns := make([]named, @N@)\n\ths := make([]Handler, @N@)\n\tfor i := range hs {\n\t\tns[i].base = i*@A@ + @B@\n\t\ths[i] = ns[i]\n\t}",
		Args:   "hs[id]",
	},
	{ // the same with a BLOCKING argument between method lookup and invocation
		Name: "ifcallblk",
		Decls: `type Handler interface{ Handle(x int) int }
type named struct{ base int }
func (h named) Handle(x int) int {
	if x < 0 {
		return -1
	}
	return (h.base + x) % 1009
}`,
		Params: "h Handler, jobs chan int",
		Body:   "s := 0\n\tfor {\n\t\tv := h.Handle(<-jobs)\n\t\tif v < 0 {\n\t\t\tbreak\n\t\t}\n\t\ts += v\n\t}",
		Prep:   "ns := make([]named, @N@)\n\ths := make([]Handler, @N@)\n\tjobs := make([]chan int, @N@)\n\tfor i := range hs {\n\t\tns[i].base = i*@A@ + @B@\n\t\ths[i] = ns[i]\n\t\tjobs[i] = make(chan int)\n\t}",
		Args:   "hs[id], jobs[id]",
		Post:   "for x := 1; x <= @K@; x++ {\n\t\tfor i := range jobs {\n\t\t\tjobs[i] <- x\n\t\t}\n\t}\n\tfor i := range jobs {\n\t\tjobs[i] <- -1\n\t}",
	},
	{ // interface holding pointers, methods with pointer receivers that mutate the receiver
		Name: "ifptr",
		Decls: `type Acc interface {
	Add(x int)
	Total() int
}
type acc struct{ base, sum int }
func (a *acc) Add(x int)  { a.sum += (a.base + x) % 1009 }
func (a *acc) Total() int { return a.sum }`,
		Params: "h Acc",
		Body:   c08opsLoop + "{\n\t\th.Add(x)\n\t}\n\ts := h.Total()",
		Prep:   "hs := make([]Acc, @N@)\n\tfor i := range hs {\n\t\ta := new(acc)\n\t\ta.base = i*@A@ + @B@\n\t\ths[i] = a\n\t}",
		Args:   "hs[id]",
	},
	{ // method values: of a concrete value and through the interface
		Name: "methval",
		Decls: `type Handler interface{ Handle(x int) int }
type named struct{ base int }
func (h named) Handle(x int) int { return (h.base + x) % 1009 }`,
		Params: "v named, h Handler",
		Body:   "f := v.Handle\n\tg := h.Handle\n\ts := 0\n\t" + c08opsLoop + "{\n\t\tif x%2 == 0 {\n\t\t\ts += f(x)\n\t\t} else {\n\t\t\ts += g(x)\n\t\t}\n\t}",
		Prep:   "vs := make([]named, @N@)\n\ths := make([]Handler, @N@)\n\tfor i := range vs {\n\t\tvs[i] = named{base: i*@A@ + @B@}\n\t\ths[i] = vs[i]\n\t}",
		Args:   "vs[id], hs[id]",
	},
	{ // closures received as parameters and called through the variable
		Name:   "closvar",
		Decls:  "func mk(base int) func(int) int {\n\treturn func(x int) int { return (base + x) % 1009 }\n}",
		Params: "fn func(int) int",
		Body:   "s := 0\n\t" + c08opsLoop + "{\n\t\ts += fn(x)\n\t}",
		Prep:   "fns := make([]func(int) int, @N@)\n\tfor i := range fns {\n\t\tfns[i] = mk(i*@A@ + @B@)\n\t}",
		Args:   "fns[id]",
	},
	{ // struct operand passed by value and modified locally
		Name:   "structop",
		Decls:  "type pt struct {\n\tbase, acc int\n\ttag       string\n}",
		Params: "p pt",
		Body:   c08opsLoop + "{\n\t\tp.acc += (p.base + x) % 1009\n\t}\n\ts := p.acc + len(p.tag) - 1",
		Prep:   "pts := make([]pt, @N@)\n\tfor i := range pts {\n\t\tpts[i].base = i*@A@ + @B@\n\t\tpts[i].tag = \"t\"\n\t}",
		Args:   "pts[id]",
	},
	{ // pointer to a per-goroutine struct
		Name:   "ptrop",
		Decls:  "type pt struct{ base, acc int }",
		Params: "p *pt",
		Body:   c08opsLoop + "{\n\t\tp.acc += (p.base + x) % 1009\n\t}\n\ts := p.acc",
		Prep:   "pts := make([]*pt, @N@)\n\tfor i := range pts {\n\t\tpts[i] = new(pt)\n\t\tpts[i].base = i*@A@ + @B@\n\t}",
		Args:   "pts[id]",
	},
	{ // array operand (by value)
		Name:   "arrayop",
		Params: "arr [4]int",
		Body:   c08opsLoop + "{\n\t\tarr[1+x%3] += (arr[0] + x) % 1009\n\t}\n\ts := arr[1] + arr[2] + arr[3]",
		Prep:   "arrs := make([][4]int, @N@)\n\tfor i := range arrs {\n\t\tarrs[i][0] = i*@A@ + @B@\n\t}",
		Args:   "arrs[id]",
	},
	{ // private slice operand, index expressions, append, slicing
		Name:   "sliceop",
		Params: "buf []int",
		Body:   c08opsLoop + "{\n\t\tbuf[1+x%3] += (buf[0] + x) % 1009\n\t\tbuf = append(buf, x)\n\t}\n\ttail := buf[4:]\n\ts := buf[1] + buf[2] + buf[3] + len(tail) - @K@",
		Prep:   "bufs := make([][]int, @N@)\n\tfor i := range bufs {\n\t\tbufs[i] = make([]int, 4, 8)\n\t\tbufs[i][0] = i*@A@ + @B@\n\t}",
		Args:   "bufs[id]",
	},
	{ // private map operand
		Name:   "mapop",
		Params: "m map[string]int",
		Body:   c08opsLoop + "{\n\t\tm[\"acc\"] += (m[\"base\"] + x) % 1009\n\t\tif _, ok := m[\"nope\"]; ok {\n\t\t\tm[\"acc\"] = -1\n\t\t}\n\t}\n\tdelete(m, \"base\")\n\ts := m[\"acc\"] + len(m) - 1",
		Prep:   "ms := make([]map[string]int, @N@)\n\tfor i := range ms {\n\t\tms[i] = map[string]int{}\n\t\tms[i][\"base\"] = i*@A@ + @B@\n\t}",
		Args:   "ms[id]",
	},
	{ // type assertions, one- and two-valued
		Name:   "typeassert",
		Decls:  "type box struct{ base int }",
		Params: "v interface{}",
		Body:   "s := 0\n\t" + c08opsLoop + "{\n\t\tif x%2 == 0 {\n\t\t\ts += (v.(box).base + x) % 1009\n\t\t} else if b, ok := v.(box); ok {\n\t\t\ts += (b.base + x) % 1009\n\t\t}\n\t\tif _, ok := v.(int); ok {\n\t\t\ts = -1\n\t\t}\n\t}",
		Prep:   "vs := make([]interface{}, @N@)\n\tfor i := range vs {\n\t\tvs[i] = box{i*@A@ + @B@}\n\t}",
		Args:   "vs[id]",
	},
	{ // type switch over per-goroutine dynamic types
		Name:   "typeswitch",
		Decls:  "type box struct{ base int }",
		Params: "v interface{}",
		Body:   "s := 0\n\t" + c08opsLoop + "{\n\t\tbase := -1\n\t\tswitch t := v.(type) {\n\t\tcase int:\n\t\t\tbase = t\n\t\tcase box:\n\t\t\tbase = t.base\n\t\tcase *box:\n\t\t\tbase = t.base\n\t\t}\n\t\ts += (base + x) % 1009\n\t}",
		Prep:   "vs := make([]interface{}, @N@)\n\tfor i := range vs {\n\t\tb := i*@A@ + @B@\n\t\tswitch i % 3 {\n\t\tcase 0:\n\t\t\tvs[i] = b\n\t\tcase 1:\n\t\t\tvs[i] = box{b}\n\t\tdefault:\n\t\t\tp := new(box)\n\t\t\tp.base = b\n\t\t\tvs[i] = p\n\t\t}\n\t}",
		Args:   "vs[id]",
	},
	{ // composite literals of every kind built inside the goroutine
		Name:   "complit",
		Decls:  "type pt struct{ base, acc int }",
		Params: "base int",
		Body:   "s := 0\n\t" + c08opsLoop + "{\n\t\te := pt{base: base, acc: x}\n\t\tq := &pt{base: base}\n\t\tsl := []int{base, x}\n\t\tm := map[string]int{\"b\": base}\n\t\tar := [2]int{base, x}\n\t\ts += ((e.base+q.base+sl[0]+m[\"b\"]+ar[0])/5 + (e.acc+sl[1]+ar[1])/3) % 1009\n\t}",
		Args:   "id*@A@+@B@",
	},
	{ // defer, panic and recover inside goroutines
		Name:   "deferrec",
		Decls: `func step(base, x int) (r int) {
	defer func() {
		if e := recover(); e != nil {
			r = len(fmt.Sprint(e)) - 5 + (base+x)%1009
		}
	}()
	panic(fmt.Sprint("p", (base+x)%1009+1000))
}
func step2(base, x int) (r int) {
	want := (base + x) % 1009
	defer func() {
		if e := recover(); e != nil {
			r = want
		}
	}()
	var m map[string]int
	m["x"] = 1
	return -1
}`,
		Params: "base int",
		Body:   "s := 0\n\t" + c08opsLoop + "{\n\t\tif x%2 == 0 {\n\t\t\ts += step(base, x)\n\t\t} else {\n\t\t\ts += step2(base, x)\n\t\t}\n\t}",
		Args:   "id*@A@+@B@",
	},
	{ // range over slice, map, string and array operands
		Name:    "rangeops",
		Imports: []string{"strings"},
		Params:  "sl []int, m map[int]bool, str string, ar [3]int",
		Body:    "base := 0\n\tfor _, v := range sl {\n\t\tbase += v\n\t}\n\tfor i, v := range ar {\n\t\tbase += v * i\n\t}\n\ts := 0\n\tfor x := range m {\n\t\ts += (base + x) % 1009\n\t}\n\tn := 0\n\tfor range str {\n\t\tn++\n\t}\n\ts += n - @K@",
		Prep:    "sls := make([][]int, @N@)\n\tms := make([]map[int]bool, @N@)\n\tars := make([][3]int, @N@)\n\tfor i := range sls {\n\t\tb := i*@A@ + @B@\n\t\tsls[i] = []int{b / 2, b - b/2 - 3}\n\t\tars[i] = [3]int{7, 1, 1}\n\t\tms[i] = map[int]bool{}\n\t\tfor x := 1; x <= @K@; x++ {\n\t\t\tms[i][x] = true\n\t\t}\n\t}\n\tstr := strings.Repeat(\"y\", @K@)",
		Args:    "sls[id], ms[id], str, ars[id]",
	},
	{ // interface held in a struct field / in a nested struct field
		Name: "iffield",
		Decls: `type Handler interface{ Handle(x int) int }
type named struct{ base int }
func (h named) Handle(x int) int { return (h.base + x) % 1009 }
type svc2 struct{ h Handler }
type svc3 struct {
	inner svc2
	id    int
}`,
		Params: "w2 svc2, w3 svc3",
		Body:   "s := 0\n\t" + c08opsLoop + "{\n\t\tif x%2 == 0 {\n\t\t\ts += w3.inner.h.Handle(x)\n\t\t} else {\n\t\t\ts += w2.h.Handle(x)\n\t\t}\n\t}",
		Prep:   "ns := make([]named, @N@)\n\tw2s := make([]svc2, @N@)\n\tw3s := make([]svc3, @N@)\n\tfor i := range ns {\n\t\tns[i].base = i*@A@ + @B@\n\t\tw2s[i].h = ns[i]\n\t\tw3s[i].inner.h = ns[i]\n\t}",
		Args:   "w2s[id], w3s[id]",
	},
	{ // function stored in a struct field
		Name:   "funcfield",
		Decls:  "type cbs struct{ cb func(int) int }\nfunc mk(base int) func(int) int {\n\treturn func(x int) int { return (base + x) % 1009 }\n}",
		Params: "c cbs",
		Body:   "s := 0\n\t" + c08opsLoop + "{\n\t\ts += c.cb(x)\n\t}",
		Prep:   "cs := make([]cbs, @N@)\n\tfor i := range cs {\n\t\tcs[i].cb = mk(i*@A@ + @B@)\n\t}",
		Args:   "cs[id]",
	},
	{ // go statement on an interface method: lookup in the spawner, invocation in the new goroutine
		Name: "gomethod",
		Decls: `type runner interface {
	Run(id int, res []int, wg *sync.WaitGroup)
}
type job struct{ base int }
func (j job) Run(id int, res []int, wg *sync.WaitGroup) {
	defer wg.Done()
	s := 0
	for x := 1; x <= @K@; x++ {
		s += (j.base + x) % 1009
	}
	res[id] = s
}`,
		Prep:  "js := make([]job, @N@)\n\trs := make([]runner, @N@)\n\tfor i := range rs {\n\t\tjs[i].base = i*@A@ + @B@\n\t\trs[i] = js[i]\n\t}",
		Spawn: "for id := 0; id < @N@; id++ {\n\t\twg.Add(1)\n\t\tgo rs[id].Run(id, res, &wg)\n\t}",
	},
	{ // go statement on a closure variable whose arguments are re-assigned by the spawner afterwards
		Name:  "goargs",
		Decls: "type cfgT struct{ tag string }",
		Spawn: `run := func(id, base, base2 int, tag string) {
		defer wg.Done()
		s := 0
		for x := 1; x <= @K@; x++ {
			s += (base + x) % 1009
		}
		if base != base2 || tag != fmt.Sprint("t", id) {
			s = -1
		}
		res[id] = s
	}
	var cfg cfgT
	k, base := 0, 0
	for id := 0; id < @N@; id++ {
		wg.Add(1)
		k = id
		base = id*@A@ + @B@
		cfg.tag = fmt.Sprint("t", id)
		go run(k, base, k*@A@+@B@, cfg.tag)
	}
	k, base, cfg.tag = -1, -1, "?"`,
	},
	{ // string operands
		Name:   "strop",
		Params: "tag string",
		Body:   "base := 0\n\tfor i := 1; i < len(tag); i++ {\n\t\tbase = base*10 + int(tag[i]-'0')\n\t}\n\ts := 0\n\t" + c08opsLoop + "{\n\t\tt := tag + \"x\"\n\t\ts += (base + x + len(t) - len(tag) - 1) % 1009\n\t}",
		Prep:   "tags := make([]string, @N@)\n\tfor i := range tags {\n\t\ttags[i] = fmt.Sprintf(\"w%05d\", i*@A@+@B@)\n\t}",
		Args:   "tags[id]",
	},
	{ // variadic calls, spread and not
		Name:   "variadic",
		Decls:  "func sum(xs ...int) int {\n\tt := 0\n\tfor _, v := range xs {\n\t\tt += v\n\t}\n\treturn t\n}",
		Params: "base int",
		Body:   "s := 0\n\t" + c08opsLoop + "{\n\t\tif x%2 == 0 {\n\t\t\ts += sum(base, x) % 1009\n\t\t} else {\n\t\t\targs := []int{base, x}\n\t\t\ts += sum(args...) % 1009\n\t\t}\n\t}",
		Args:   "id*@A@+@B@",
	},
	{ // several results, nested calls whose results are arguments
		Name:   "multiret",
		Decls:  "func split(v int) (int, int) { return v / 1009, v % 1009 }\nfunc inner(b, x int) int   { return b + x }\nfunc second(a, b int) int  { return b }",
		Params: "base int",
		Body:   "s := 0\n\t" + c08opsLoop + "{\n\t\tif x%2 == 0 {\n\t\t\t_, r := split(inner(base, x))\n\t\t\ts += r\n\t\t} else {\n\t\t\ts += second(split(inner(base, x)))\n\t\t}\n\t}",
		Args:   "id*@A@+@B@",
	},
	{ // methods of binary (stdlib) values owned by the goroutine
		Name:    "binrecv",
		Imports: []string{"bytes"},
		Params:  "buf *bytes.Buffer",
		Body:    "base := buf.Len()\n\ts := 0\n\t" + c08opsLoop + "{\n\t\tbuf.WriteByte(byte('a' + x%26))\n\t\ts += (base + x) % 1009\n\t}\n\ts += buf.Len() - base - @K@",
		Prep:    "bufs := make([]*bytes.Buffer, @N@)\n\tfor i := range bufs {\n\t\tbufs[i] = new(bytes.Buffer)\n\t\tbufs[i].Write(make([]byte, i*@A@+@B@))\n\t}",
		Args:    "bufs[id]",
	},
	{ // script type behind a stdlib interface (interface wrapper), called back by binary code
		Name:    "ifacebin",
		Imports: []string{"strconv"},
		Decls:   "type lbl struct{ base int }\nfunc (l lbl) String() string { return strconv.Itoa(l.base) }\nfunc mkl(b int) fmt.Stringer  { return lbl{b} }",
		Params:  "v fmt.Stringer",
		Body:    "s := 0\n\t" + c08opsLoop + "{\n\t\tb, _ := strconv.Atoi(fmt.Sprint(v))\n\t\ts += (b + x) % 1009\n\t}",
		Prep:    "vs := make([]fmt.Stringer, @N@)\n\tfor i := range vs {\n\t\tvs[i] = mkl(i*@A@ + @B@)\n\t}",
		Args:    "vs[id]",
	},
	{ // labelled loops, switch, goto-free control flow and short-circuit operators on per-goroutine values
		Name:   "control",
		Params: "base int, flags []bool",
		Body:   "s := 0\nouter:\n\tfor x := 1; ; x++ {\n\t\tswitch {\n\t\tcase x > @K@:\n\t\t\tbreak outer\n\t\tcase flags[0] && !flags[1] || base < 0:\n\t\t\ts += (base + x) % 1009\n\t\tdefault:\n\t\t\ts = -1\n\t\t\tbreak outer\n\t\t}\n\t}",
		Prep:   "fl := make([][]bool, @N@)\n\tfor i := range fl {\n\t\tfl[i] = []bool{true, false}\n\t}",
		Args:   "id*@A@+@B@, fl[id]",
	},
}

func c08opsIndex(name string) int {
	for i, t := range c08Ops {
		if t.Name == name {
			return i
		}
	}
	return -1
}

// c08opsSource renders sub-template sub (placeholders still to be substituted by c08subst).
func c08opsSource(sub int) string {
	t := c08Ops[sub]
	var b strings.Builder
	b.WriteString("package main\n\nimport (\n\t\"fmt\"\n\t\"sync\"\n")
	for _, im := range t.Imports {
		b.WriteString("\t\"" + im + "\"\n")
	}
	b.WriteString(")\n\n")
	if t.Decls != "" {
		b.WriteString(t.Decls + "\n\n")
	}
	if t.Spawn == "" {
		b.WriteString("func worker(id int, " + t.Params + ", res []int, wg *sync.WaitGroup) {\n\tdefer wg.Done()\n\t" + t.Body + "\n\tres[id] = s\n}\n\n")
	}
	b.WriteString("func main() {\n\tres := make([]int, @N@)\n\tvar wg sync.WaitGroup\n")
	if t.Prep != "" {
		b.WriteString("\t" + t.Prep + "\n")
	}
	if t.Spawn != "" {
		b.WriteString("\t" + t.Spawn + "\n")
	} else {
		b.WriteString("\tfor id := 0; id < @N@; id++ {\n\t\twg.Add(1)\n\t\tgo worker(id, " + t.Args + ", res, &wg)\n\t}\n")
	}
	if t.Post != "" {
		b.WriteString("\t" + t.Post + "\n")
	}
	b.WriteString("\twg.Wait()\n")
	if t.After != "" {
		b.WriteString("\t" + t.After + "\n")
	}
	b.WriteString("\tfor _, v := range res {\n\t\tfmt.Println(v)\n\t}\n}\n")
	return b.String()
}
