package main

import (
	"fmt"
	"strings"
)

// C19 program generator: sequential programs, one statement per line, many of the lines being
// marker statements println("L<k>") where k is the statement's own line, so that the sequence of
// executions of line k can be read off the program's own output.

type c19Prog struct {
	Src       string
	NLines    int
	Markers   []int          // lines holding a marker statement
	Funcs     []string       // names of the declared functions
	FuncFirst map[string]int // function name -> line of its first statement (always a marker)
	Globals   int            // package-level variables with an initialiser
	GoLit     bool           // the second goroutine is started from a function literal
	HostPanic bool           // a line request makes SetBreakpoints panic in the host (finding C19-linebp-hostpanic)
	Conc      bool           // two goroutines handing values over unbuffered channels (outside the model: reference checks only)
	BPLines   []int          // lines on which the sessions may put breakpoints (nil: every line)
	Wild      bool           // generated with the shapes on which the tracker is known to lose the node
	Tag       string         // "gen" or the name of a fixed witness
}

type c19gen struct {
	r       *rng
	wild    bool
	lines   []string
	markers []int
	nid     int // fresh names
	// per function
	loops  int
	chans  int
	defers int
	callee []string // functions that may be called from the function being generated
}

func (g *c19gen) emit(ind int, s string) int {
	g.lines = append(g.lines, strings.Repeat("\t", ind)+s)
	return len(g.lines)
}

func (g *c19gen) marker(ind int) {
	k := len(g.lines) + 1
	g.emit(ind, fmt.Sprintf(`println("L%d")`, k))
	g.markers = append(g.markers, k)
}

func (g *c19gen) fresh(p string) string {
	g.nid++
	return fmt.Sprintf("%s%d", p, g.nid)
}

func (g *c19gen) cond() string {
	switch g.r.intn(5) {
	case 0:
		return "x%2 == 0"
	case 1:
		return fmt.Sprintf("x > %d", g.r.intn(6))
	case 2:
		return fmt.Sprintf("x < %d", 1+g.r.intn(6))
	case 3:
		return "x%3 != 1"
	default:
		return fmt.Sprintf("x != %d", g.r.intn(4))
	}
}

func (g *c19gen) assign(ind int) {
	switch g.r.intn(4) {
	case 0:
		g.emit(ind, "x++")
	case 1:
		g.emit(ind, fmt.Sprintf("x = x + %d", 1+g.r.intn(3)))
	case 2:
		g.emit(ind, fmt.Sprintf("x += %d", 1+g.r.intn(3)))
	default:
		g.emit(ind, "x = x*2%7 + 1")
	}
}

// block emits between lo and hi statements. first: the block must start with a marker.
func (g *c19gen) block(ind, depth, lo, hi int, first bool, inFunc bool) {
	n := lo + g.r.intn(hi-lo+1)
	for i := 0; i < n; i++ {
		if i == 0 && first {
			g.marker(ind)
			continue
		}
		g.stmt(ind, depth, inFunc)
	}
}

// chanStmt emits a self-contained, single-goroutine use of a buffered channel. Every channel
// operation has a blocking and a cancellable implementation, chosen when the closures are generated
// (interp.cancelChan): plain execution runs the first, a debugged program the second (except in
// function literals and after a line request, whose closures are generated earlier).
func (g *c19gen) chanStmt(ind int) {
	c := g.fresh("c")
	v := g.fresh("v")
	ok := g.fresh("ok")
	switch g.r.intn(6) {
	case 0: // send / receive within capacity, len and cap
		g.emit(ind, fmt.Sprintf("%s := make(chan int, %d)", c, 2+g.r.intn(2)))
		g.emit(ind, fmt.Sprintf("%s <- x", c))
		g.emit(ind, fmt.Sprintf("%s <- x + 1", c))
		k := len(g.lines) + 1
		g.emit(ind, fmt.Sprintf(`println("L%d", len(%s), cap(%s))`, k, c, c))
		g.markers = append(g.markers, k)
		g.emit(ind, fmt.Sprintf("x = <-%s", c))
		g.emit(ind, fmt.Sprintf("%s := <-%s", v, c))
		g.emit(ind, fmt.Sprintf("x += %s %% 3", v))
	case 1: // two-value receive before and after close
		g.emit(ind, fmt.Sprintf("%s := make(chan int, 2)", c))
		g.emit(ind, fmt.Sprintf("%s <- x", c))
		g.emit(ind, fmt.Sprintf("%s, %s := <-%s", v, ok, c))
		g.emit(ind, fmt.Sprintf("if %s {", ok))
		g.marker(ind + 1)
		g.emit(ind+1, fmt.Sprintf("x += %s %% 3", v))
		g.emit(ind, "}")
		if g.r.bool() {
			g.emit(ind, fmt.Sprintf("%s <- 4", c))
		}
		g.emit(ind, fmt.Sprintf("close(%s)", c))
		g.emit(ind, fmt.Sprintf("%s, %s = <-%s", v, ok, c))
		g.emit(ind, fmt.Sprintf("if %s {", ok))
		g.marker(ind + 1)
		g.emit(ind, "} else {")
		g.emit(ind+1, "x++")
		g.marker(ind + 1)
		g.emit(ind, "}")
		g.emit(ind, fmt.Sprintf("%s, %s = <-%s", v, ok, c))
		g.emit(ind, fmt.Sprintf("if !%s {", ok))
		g.marker(ind + 1)
		g.emit(ind+1, fmt.Sprintf("x += %s + 1", v))
		g.emit(ind, "}")
	case 2: // range over a closed buffered channel
		g.emit(ind, fmt.Sprintf("%s := make(chan int, 3)", c))
		for i, n := 0, g.r.intn(4); i < n; i++ {
			g.emit(ind, fmt.Sprintf("%s <- x + %d", c, i))
		}
		g.emit(ind, fmt.Sprintf("close(%s)", c))
		g.emit(ind, fmt.Sprintf("for %s := range %s {", v, c))
		g.marker(ind + 1)
		g.emit(ind+1, fmt.Sprintf("x += %s %% 2", v))
		g.emit(ind, "}")
	case 3: // select with default, with a ready receive, with a ready send
		g.emit(ind, fmt.Sprintf("%s := make(chan int, 1)", c))
		if g.r.bool() {
			g.emit(ind, fmt.Sprintf("%s <- x", c))
		}
		g.emit(ind, "select {")
		g.emit(ind, fmt.Sprintf("case %s := <-%s:", v, c))
		g.marker(ind + 1)
		g.emit(ind+1, fmt.Sprintf("x += %s %% 3", v))
		g.emit(ind, "default:")
		g.emit(ind+1, "x++")
		g.marker(ind + 1)
		g.emit(ind, "}")
		g.emit(ind, "select {")
		g.emit(ind, fmt.Sprintf("case %s <- 5:", c))
		g.marker(ind + 1)
		g.emit(ind, "default:")
		g.emit(ind+1, "x++")
		g.marker(ind + 1)
		g.emit(ind, "}")
		k := len(g.lines) + 1
		g.emit(ind, fmt.Sprintf(`println("L%d", len(%s))`, k, c))
		g.markers = append(g.markers, k)
	case 4: // drain a closed channel with the two-value receive until it reports closed
		g.emit(ind, fmt.Sprintf("%s := make(chan int, 3)", c))
		for i, n := 0, 1+g.r.intn(3); i < n; i++ {
			g.emit(ind, fmt.Sprintf("%s <- %d", c, 1+g.r.intn(5)))
		}
		g.emit(ind, fmt.Sprintf("close(%s)", c))
		kv := g.fresh("k")
		g.emit(ind, fmt.Sprintf("for %s := 0; %s < 6; %s++ {", kv, kv, kv))
		g.emit(ind+1, fmt.Sprintf("%s, %s := <-%s", v, ok, c))
		g.emit(ind+1, fmt.Sprintf("if !%s {", ok))
		g.marker(ind + 2)
		g.emit(ind+2, "break")
		g.emit(ind+1, "}")
		g.marker(ind + 1)
		g.emit(ind+1, fmt.Sprintf("x += %s %% 2", v))
		g.emit(ind, "}")
	default: // the same inside a function literal, whose closures are generated at compile time
		h := g.fresh("h")
		g.emit(ind, h+" := func(w int) int {")
		g.marker(ind + 1)
		g.emit(ind+1, fmt.Sprintf("%s := make(chan int, 2)", c))
		g.emit(ind+1, fmt.Sprintf("%s <- w", c))
		g.emit(ind+1, fmt.Sprintf("close(%s)", c))
		g.emit(ind+1, fmt.Sprintf("%s, %s := <-%s", v, ok, c))
		g.emit(ind+1, fmt.Sprintf("if %s {", ok))
		g.marker(ind + 2)
		g.emit(ind+1, "}")
		g.emit(ind+1, fmt.Sprintf("%s, %s = <-%s", v, ok, c))
		g.emit(ind+1, fmt.Sprintf("if %s {", ok))
		g.marker(ind + 2)
		g.emit(ind+2, fmt.Sprintf("w += %s + 10", v))
		g.emit(ind+1, "}")
		g.emit(ind+1, fmt.Sprintf("for %s := range %s {", v, c))
		g.emit(ind+2, fmt.Sprintf("w += %s", v))
		g.emit(ind+1, "}")
		g.emit(ind+1, "return w + 1")
		g.emit(ind, "}")
		g.emit(ind, fmt.Sprintf("x = %s(x) %% 9", h))
	}
}

func (g *c19gen) stmt(ind, depth int, inFunc bool) {
	k := g.r.intn(100)
	if depth > 0 && g.chans < 3 && g.r.chance(14) {
		g.chans++
		g.chanStmt(ind)
		return
	}
	switch {
	case k < 24:
		g.marker(ind)
	case k < 36:
		g.assign(ind)
	case k < 54 && depth > 0: // if / if-else
		g.emit(ind, "if "+g.cond()+" {")
		g.block(ind+1, depth-1, 1, 3, true, inFunc)
		if g.r.chance(50) {
			g.emit(ind, "} else {")
			if g.wild && g.r.chance(70) {
				// both branches start with a closure of the same generator
				g.block(ind+1, depth-1, 1, 3, true, inFunc)
			} else {
				g.assign(ind + 1)
				g.block(ind+1, depth-1, 1, 2, true, inFunc)
			}
		}
		g.emit(ind, "}")
	case k < 68 && depth > 0 && (g.wild || g.loops == 0): // three-clause loop
		g.loops++
		v := g.fresh("i")
		g.emit(ind, fmt.Sprintf("for %s := 0; %s < %d; %s++ {", v, v, 1+g.r.intn(3), v))
		g.block(ind+1, depth-1, 1, 3, true, inFunc)
		g.emit(ind, "}")
	case k < 76 && depth > 0 && g.wild: // condition-only loop
		g.loops++
		v := g.fresh("k")
		g.emit(ind, v+" := 0")
		g.emit(ind, fmt.Sprintf("for %s < %d {", v, 1+g.r.intn(3)))
		g.block(ind+1, depth-1, 1, 2, true, inFunc)
		g.emit(ind+1, v+"++")
		g.emit(ind, "}")
	case k < 86 && len(g.callee) > 0: // call
		f := g.r.pick(g.callee)
		if g.r.bool() {
			g.emit(ind, fmt.Sprintf("x = %s(x%%4) + 1", f))
		} else {
			g.emit(ind, fmt.Sprintf("%s(%d)", f, g.r.intn(4)))
		}
	case k < 91: // closure, defined and called
		h := g.fresh("h")
		g.emit(ind, h+" := func(v int) int {")
		g.marker(ind + 1)
		g.emit(ind+1, fmt.Sprintf("return v + %d", 1+g.r.intn(3)))
		g.emit(ind, "}")
		g.emit(ind, fmt.Sprintf("x = %s(x)", h))
	case k < 95 && g.defers < 2 && depth > 0: // deferred closure
		g.defers++
		g.emit(ind, "defer func() {")
		g.marker(ind + 1)
		g.emit(ind, "}()")
	case k < 100 && g.wild && depth > 0: // switch
		g.emit(ind, "switch x % 3 {")
		g.emit(ind, "case 0:")
		g.block(ind+1, depth-1, 1, 2, true, inFunc)
		g.emit(ind, "case 1:")
		g.block(ind+1, depth-1, 1, 2, true, inFunc)
		g.emit(ind, "default:")
		g.block(ind+1, depth-1, 1, 2, true, inFunc)
		g.emit(ind, "}")
	default:
		g.marker(ind)
	}
}

// c19Generate builds one program.
func c19Generate(r *rng, wild bool, cell int) c19Prog {
	g := &c19gen{r: r, wild: wild}
	p := c19Prog{FuncFirst: map[string]int{}, Wild: wild, Tag: "gen"}
	g.emit(0, "package main")
	g.emit(0, "")
	g.emit(0, `import "fmt"`)
	nf := 1 + r.intn(4)
	for i := 0; i < nf; i++ {
		name := fmt.Sprintf("f%d", i+1)
		g.loops, g.defers, g.chans = 0, 0, 0
		g.emit(0, "")
		kind := r.intn(10)
		switch {
		case kind < 2: // recursive
			g.emit(0, fmt.Sprintf("func %s(a int) int {", name))
			p.FuncFirst[name] = len(g.lines) + 1
			g.marker(1)
			g.emit(1, "x := a")
			g.emit(1, "if a <= 0 {")
			g.marker(2)
			g.emit(2, "return x")
			g.emit(1, "}")
			g.block(1, 1, 0, 2, false, true)
			g.emit(1, fmt.Sprintf("return %s(a-1) + x", name))
		case kind < 4: // panics and recovers
			g.emit(0, fmt.Sprintf("func %s(a int) (r int) {", name))
			p.FuncFirst[name] = len(g.lines) + 1
			g.marker(1)
			g.emit(1, "x := a")
			g.emit(1, "defer func() {")
			g.marker(2)
			g.emit(2, "if e := recover(); e != nil {")
			g.marker(3)
			g.emit(3, "r = -1")
			g.emit(2, "}")
			g.emit(1, "}()")
			g.block(1, 1, 0, 2, false, true)
			g.emit(1, fmt.Sprintf("if x > %d {", r.intn(3)))
			if r.bool() {
				g.emit(2, `panic("boom")`)
			} else {
				g.emit(2, "var s []int")
				g.emit(2, "x = s[x]")
			}
			g.emit(1, "}")
			g.marker(1)
			g.emit(1, "return x")
		default:
			g.emit(0, fmt.Sprintf("func %s(a int) int {", name))
			p.FuncFirst[name] = len(g.lines) + 1
			g.marker(1)
			g.emit(1, "x := a")
			g.block(1, 2, 1, 4, false, true)
			if r.chance(30) {
				g.emit(1, fmt.Sprintf("if x > %d {", 2+r.intn(4)))
				g.marker(2)
				g.emit(2, "return x - 1")
				g.emit(1, "}")
			}
			g.emit(1, "return x")
		}
		g.emit(0, "}")
		g.callee = append(g.callee, name)
		p.Funcs = append(p.Funcs, name)
	}
	// Callee kinds (cell/2 odd): a type with methods of every receiver form; the debugger's enterCall
	// is reached for every interpreted call and names the frame after the callee.
	var methodCalls []string
	if (cell/4)%2 == 1 {
		g.emit(0, "")
		g.emit(0, "type T1 struct{ n int }")
		recvs := []struct{ recv, use string }{
			{"t T1", " + t.n"}, {"t *T1", " + t.n"}, {"T1", ""}, {"*T1", ""}, {"_ T1", ""},
		}
		for k, rc := range recvs {
			name := fmt.Sprintf("M%d", k+1)
			g.loops, g.defers, g.chans = 0, 0, 0
			g.emit(0, "")
			g.emit(0, fmt.Sprintf("func (%s) %s(a int) int {", rc.recv, name))
			p.FuncFirst[name] = len(g.lines) + 1
			p.Funcs = append(p.Funcs, name)
			g.marker(1)
			g.emit(1, "x := a")
			g.block(1, 1, 0, 2, false, true)
			g.emit(1, fmt.Sprintf("return x%s + %d", rc.use, k))
			g.emit(0, "}")
		}
		g.emit(0, "")
		g.emit(0, "type I1 interface {")
		g.emit(1, "M1(int) int")
		g.emit(1, "M3(int) int")
		g.emit(1, "M5(int) int")
		g.emit(0, "}")
		// call forms: direct, through an interface (value receivers), as a method value, deferred
		for k := range recvs {
			name := fmt.Sprintf("M%d", k+1)
			forms := []string{"direct", "value"}
			if k == 0 || k == 2 || k == 4 {
				forms = append(forms, "iface")
			}
			switch forms[(cell/8+k+r.intn(2))%len(forms)] {
			case "direct":
				methodCalls = append(methodCalls, fmt.Sprintf("x = tv.%s(x%%4) %% 7", name))
			case "iface":
				methodCalls = append(methodCalls, fmt.Sprintf("x = iv.%s(x%%4) %% 7", name))
			default:
				mv := g.fresh("mv")
				methodCalls = append(methodCalls, fmt.Sprintf("%s := tv.%s", mv, name), fmt.Sprintf("x = %s(x%%4) %% 7", mv))
			}
		}
	}
	// package-level variables with an initialiser, which runs on the root frame (cell%4: none, a call,
	// a function literal, a composite literal of function literals: closures whose capture frame is
	// cloned from the root frame)
	var globals []string
	var rootLits []string
	switch {
	case !wild && cell%4 == 2:
		p.Globals = 1
		g.emit(0, "")
		g.emit(0, "var h0 = func(v int) int {")
		g.marker(1)
		g.emit(1, fmt.Sprintf("return v + %d", 1+r.intn(3)))
		g.emit(0, "}")
		rootLits = append(rootLits, "x = h0(x) % 9")
	case !wild && cell%4 == 3:
		p.Globals = 1
		g.emit(0, "")
		g.emit(0, "var tab = []func(int) int{")
		for k := 0; k < 2; k++ {
			g.emit(1, "func(v int) int {")
			g.marker(2)
			g.emit(2, fmt.Sprintf("return v*%d + 1", k+2))
			g.emit(1, "},")
		}
		g.emit(0, "}")
		rootLits = append(rootLits, "x = tab[x%2](x) % 9", "x = tab[(x+1)%2](x) % 9")
	}
	if (wild && r.chance(35)) || (!wild && cell%4 == 1) {
		ng := 1 // the main stream has at most one: see the finding C19-linebp-globals
		if wild {
			ng = 1 + r.intn(3)
		}
		p.Globals = ng
		for i, n := 0, ng; i < n; i++ {
			gv := fmt.Sprintf("g%d", i+1)
			g.emit(0, "")
			g.emit(0, fmt.Sprintf("var %s = %s(%d)", gv, r.pick(g.callee), r.intn(4)))
			globals = append(globals, gv)
		}
	}
	g.emit(0, "")
	g.loops, g.defers, g.chans = 0, 0, 0
	g.emit(0, "func main() {")
	p.FuncFirst["main"] = len(g.lines) + 1
	p.Funcs = append(p.Funcs, "main")
	g.marker(1)
	g.emit(1, fmt.Sprintf("x := %d", r.intn(4)))
	for _, gv := range globals {
		g.emit(1, fmt.Sprintf("x = x + %s%%3", gv))
	}
	if len(methodCalls) > 0 {
		g.emit(1, "tv := T1{n: 1}")
		g.emit(1, "var iv I1 = tv")
		for _, c := range methodCalls {
			g.emit(1, c)
		}
	}
	for _, c := range rootLits {
		g.emit(1, c)
	}
	g.block(1, 2, 3, 7, false, false)
	// every function is called at least once
	for _, f := range g.callee {
		if r.chance(60) {
			g.emit(1, fmt.Sprintf("x = %s(%d) + x%%5", f, r.intn(4)))
		}
	}
	k := len(g.lines) + 1
	g.emit(1, fmt.Sprintf(`fmt.Println("L%d", x)`, k))
	g.markers = append(g.markers, k)
	if r.chance(8) { // the program ends with a panic
		if r.bool() {
			g.emit(1, `panic("end")`)
		} else {
			g.emit(1, "var s []int")
			g.emit(1, "s[x] = 1")
		}
	}
	g.emit(0, "}")
	p.Src = strings.Join(g.lines, "\n") + "\n"
	p.NLines = len(g.lines)
	p.Markers = g.markers
	return p
}

// fixed witnesses of the known finding (replayed on every run).
func c19Witnesses() []c19Prog {
	mk := func(tag, src string, markers ...int) c19Prog {
		return c19Prog{Src: src, NLines: strings.Count(src, "\n"), Markers: markers, Funcs: []string{"main"},
			FuncFirst: map[string]int{"main": 4}, Wild: true, Tag: tag}
	}
	two := mk("two-globals", "package main\n\nfunc f1(a int) int {\n\tprintln(\"L4\")\n\treturn a + 1\n}\n\nvar g1 = f1(2)\n\nvar g2 = f1(0)\n\nfunc main() {\n\tprintln(\"L13\")\n\tprintln(\"L14\", g1+g2)\n}\n", 4, 13, 14)
	two.Globals = 2
	two.Funcs = []string{"f1", "main"}
	two.FuncFirst = map[string]int{"f1": 4, "main": 13}
	hp := mk("selector-type-parameter", "package main\n\nimport \"sync\"\n\nfunc f(wg *sync.WaitGroup) {\n\tprintln(\"L6\")\n}\n\nfunc main() {\n\tvar wg sync.WaitGroup\n\tf(&wg)\n\tprintln(\"L12\")\n}\n", 6, 12)
	hp.Funcs = []string{"f", "main"}
	hp.FuncFirst = map[string]int{"f": 6, "main": 10}
	hp.HostPanic = true
	return []c19Prog{
		two,
		hp,
		mk("if-else-same-generator", "package main\n\nfunc main() {\n\tprintln(\"L4\")\n\tc := false\n\tif c {\n\t\tprintln(\"L7\")\n\t} else {\n\t\tprintln(\"L9\")\n\t}\n\tprintln(\"L11\")\n}\n", 4, 7, 9, 11),
		mk("loop-condition", "package main\n\nfunc main() {\n\tprintln(\"L4\")\n\ti := 0\n\tfor i < 3 {\n\t\tprintln(\"L7\")\n\t\ti++\n\t}\n\tprintln(\"L10\")\n}\n", 4, 7, 10),
	}
}

// c19MarkerTrace reads the marker lines off the output of a run.
func c19MarkerTrace(stdout string) []int {
	var out []int
	for _, l := range strings.Split(stdout, "\n") {
		if len(l) < 2 || l[0] != 'L' {
			continue
		}
		v, n := 0, 0
		for _, c := range l[1:] {
			if c < '0' || c > '9' {
				break
			}
			v = v*10 + int(c-'0')
			n++
		}
		if n > 0 {
			out = append(out, v)
		}
	}
	return out
}

// c19GenerateConc builds a two-goroutine program: values are handed over unbuffered channels and a
// sync.WaitGroup joins the worker, so the output does not depend on scheduling. The worker is a
// named function or a function literal. Breakpoints are only put on lines that the main goroutine
// runs (the sessions drive goroutine 0 only).
func c19GenerateConc(r *rng) c19Prog {
	g := &c19gen{r: r}
	p := c19Prog{FuncFirst: map[string]int{}, Conc: true, Tag: "conc"}
	g.emit(0, "package main")
	g.emit(0, "")
	g.emit(0, "import (")
	g.emit(1, `"fmt"`)
	g.emit(1, `"sync"`)
	g.emit(0, ")")
	g.emit(0, "")
	lit := r.bool()
	p.GoLit = lit
	mul := 2 + r.intn(3)
	n := 2 + r.intn(3)
	worker := func(ind int) {
		g.emit(ind, "defer wg.Done()")
		switch r.intn(3) {
		case 0:
			g.emit(ind, "for v := range in {")
			g.emit(ind+1, fmt.Sprintf("out <- v * %d", mul))
			g.emit(ind, "}")
		case 1:
			g.emit(ind, "for {")
			g.emit(ind+1, "v, ok := <-in")
			g.emit(ind+1, "if !ok {")
			g.emit(ind+2, "break")
			g.emit(ind+1, "}")
			g.emit(ind+1, fmt.Sprintf("out <- v + %d", mul))
			g.emit(ind, "}")
		default:
			g.emit(ind, "for open := true; open; {")
			g.emit(ind+1, "select {")
			g.emit(ind+1, "case v, ok := <-in:")
			g.emit(ind+2, "if !ok {")
			g.emit(ind+3, "open = false")
			g.emit(ind+2, "} else {")
			g.emit(ind+3, fmt.Sprintf("out <- v * %d + 1", mul))
			g.emit(ind+2, "}")
			g.emit(ind+1, "}")
			g.emit(ind, "}")
		}
		g.emit(ind, "close(out)")
	}
	if !lit {
		// the WaitGroup is a package-level variable: a parameter of type *sync.WaitGroup is the shape of
		// the finding C19-linebp-hostpanic (see c19Witnesses)
		g.emit(0, "var wg sync.WaitGroup")
		g.emit(0, "")
		g.emit(0, "func worker(in chan int, out chan int) {")
		worker(1)
		g.emit(0, "}")
		g.emit(0, "")
	}
	g.emit(0, "func main() {")
	first := len(g.lines) + 1
	p.FuncFirst["main"] = first
	p.Funcs = []string{"main"}
	g.marker(1)
	g.emit(1, fmt.Sprintf("x := %d", r.intn(4)))
	g.emit(1, "in := make(chan int)")
	g.emit(1, "out := make(chan int)")
	if lit {
		g.emit(1, "var wg sync.WaitGroup")
	}
	g.emit(1, "wg.Add(1)")
	var workerLines [2]int
	if lit {
		workerLines[0] = len(g.lines) + 1
		g.emit(1, "go func() {")
		worker(2)
		g.emit(1, "}()")
		workerLines[1] = len(g.lines)
	} else {
		g.emit(1, "go worker(in, out)")
	}
	v := g.fresh("i")
	g.emit(1, fmt.Sprintf("for %s := 0; %s < %d; %s++ {", v, v, n, v))
	g.emit(2, fmt.Sprintf("in <- %s + x", v))
	g.emit(2, "w := <-out")
	k := len(g.lines) + 1
	g.emit(2, fmt.Sprintf(`println("L%d", w)`, k))
	g.markers = append(g.markers, k)
	g.emit(2, "x += w % 3")
	g.emit(1, "}")
	g.emit(1, "close(in)")
	g.emit(1, "w, ok := <-out")
	k = len(g.lines) + 1
	g.emit(1, fmt.Sprintf(`println("L%d", w, ok)`, k))
	g.markers = append(g.markers, k)
	g.emit(1, "wg.Wait()")
	k = len(g.lines) + 1
	g.emit(1, fmt.Sprintf(`fmt.Println("L%d", x, w)`, k))
	g.markers = append(g.markers, k)
	g.emit(0, "}")
	for l := first; l <= len(g.lines); l++ {
		if lit && l >= workerLines[0] && l <= workerLines[1] {
			continue
		}
		p.BPLines = append(p.BPLines, l)
	}
	p.Src = strings.Join(g.lines, "\n") + "\n"
	p.NLines = len(g.lines)
	p.Markers = g.markers
	return p
}
