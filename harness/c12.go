package main

import (
	_ "embed"
	"encoding/json"
	"flag"
	"fmt"
	"os"
	"path/filepath"
	"sort"
	"strings"
	"testing/fstest"
	"time"
)

// C12: ill-typed programs are rejected before anything runs.
//   impl  = interp.Eval in a fresh interpreter (compile stage in-process under recover, execution of
//           programs that pass the static checks in a child process), Options.Stdout/Stderr captured
//   ref   = go/types on the same source (unused variables/imports/labels not counted)
//   Y, G  = coq/Tc: YaegiCheck / GoTyping on MiniGo, Escapes (table) on the rich stream, Pipeline
// Streams: mini (MiniGo programs x the operators of Tc/Mutations.v inside the family Y models),
//          rich (template programs x the 35-operator catalogue), multi (imported source packages).

func init() {
	register("c12", "C12 ill-typed programs are rejected before anything runs: mutant sweep, go/types reference, cases for the Coq models", runC12)
}

//go:embed c12_escapes.json
var c12EscapesJSON []byte

type c12EscapeRow struct {
	Key   string `json:"key"`
	Class string `json:"class"` // "ran" | "host-panic"
	Line  string `json:"line"`
	Err   string `json:"err,omitempty"`
	Ref   string `json:"ref"`
}

func c12ClassCode(c string) int {
	switch c {
	case "ran":
		return 0
	case "rejected":
		return 1
	case "host-panic":
		return 2
	case "printed":
		return 3
	}
	return 9
}

// c12Region: the known-finding region of an escape key = its catalogue number.
func c12Region(key string) string {
	if len(key) >= 2 {
		return "esc-" + key[:2]
	}
	return "esc"
}

func runC12(args []string) error {
	fs := flag.NewFlagSet("c12", flag.ExitOnError)
	out := fs.String("out", "/verif/build/C12", "output directory")
	tier := fs.String("tier", "quick", "quick|thorough")
	seed := fs.Uint64("seed", envSeed(), "seed")
	fs.Parse(args)
	if err := os.MkdirAll(*out, 0o755); err != nil {
		return err
	}
	sm := newSummary("C12")
	tPhase := time.Now()
	phase := func(name string) {
		sm.Notes = append(sm.Notes, fmt.Sprintf("phase %s: %.1fs", name, time.Since(tPhase).Seconds()))
		tPhase = time.Now()
	}
	r := newRng(*seed)
	distinct := distinctSet{}
	nMini, nRounds, nSnip, nMulti := 3, 1, 6, 12
	if *tier == "thorough" {
		nMini, nRounds, nSnip, nMulti = 80, 25, 6, 300
	}
	id := 0
	newID := func(input any) int {
		id++
		sm.CaseIndex[fmt.Sprint(id)] = input
		return id
	}
	hdr := "From Coq Require Import String.\nFrom Verif Require Import Tc.Syntax Tc.Checker Tc.GoTyping Tc.YaegiCheck Tc.Mutations Tc.Pipeline Tc.Cases.\nOpen Scope string_scope.\n"
	write := func(name, body string) error {
		sm.CasesFiles = append(sm.CasesFiles, name)
		return os.WriteFile(filepath.Join(*out, name), []byte(hdr+body), 0o644)
	}
	tail := func(fn string) string {
		return fmt.Sprintf("Definition MY := Eval vm_compute in %s_mis_y cases.\nPrint MY.\nDefinition MG := Eval vm_compute in %s_mis_g cases.\nPrint MG.\n", fn, fn)
	}

	// ------------------------------------------------------------ A. MiniGo stream
	{
		rm := r.fork()
		var defs, cases []string
		flush := func(k int) error {
			if len(cases) == 0 {
				return nil
			}
			body := strings.Join(defs, "\n") + "\nDefinition cases : list mini_case := [\n" + strings.Join(cases, ";\n") + "\n].\n" + tail("mini") +
				"Definition MUNK := Eval vm_compute in mini_unmodelled cases.\nPrint MUNK.\n"
			defs, cases = nil, nil
			return write(fmt.Sprintf("cases_mini_%d.v", k), body)
		}
		wits := c12Witnesses()
		type mres struct {
			src   string
			refOK bool
			ref   string
			impl  c12Obs
		}
		type munit struct {
			pi    int
			p     *mprog
			src   string
			refOK bool
			orig  c12Obs
			note  string
			muts  []mmutant
			rs    []mres
		}
		// pass 1: programs and their mutants
		var units []*munit
		for pi := -len(wits); pi < nMini; pi++ {
			u := &munit{pi: pi}
			if pi < 0 {
				u.p = wits[pi+len(wits)].Orig
				// the witnesses of the _refuted theorems of Props/C12.v, replayed on the implementation
				u.muts = []mmutant{wits[pi+len(wits)].Mut}
			} else {
				u.p = c12MiniProgram(rm.fork())
				for _, m := range c12MiniMutants(u.p) {
					if m.Fam != "" {
						u.muts = append(u.muts, m)
					}
				}
			}
			u.src = u.p.Go()
			u.rs = make([]mres, len(u.muts))
			units = append(units, u)
		}
		// pass 2: go/types and the static passes of yaegi on everything, in parallel; the mutants that
		// pass the static checks are evaluated in child processes (an accepted ill-typed program can take
		// the host down: stack overflow, fatal errors)
		type ref struct{ u, i int }
		var work []ref
		for ui, u := range units {
			work = append(work, ref{ui, -1})
			for i := range u.muts {
				work = append(work, ref{ui, i})
			}
		}
		parallelMap(len(work), 0, func(k int) {
			u := units[work[k].u]
			if i := work[k].i; i >= 0 {
				ms := u.muts[i].Prog.Go()
				u.rs[i].src = ms
				mk, err := c12TypeCheck(ms, false)
				if err != nil {
					u.rs[i].ref = "parse error: " + err.Error()
					return
				}
				u.rs[i].refOK = len(mk.Errs) == 0
				if !u.rs[i].refOK {
					u.rs[i].ref = mk.Errs[0]
				}
				u.rs[i].impl = c12Compile(ms, false, nil)
				return
			}
			ck, err := c12TypeCheck(u.src, false)
			u.refOK = err == nil && len(ck.Errs) == 0
			// the property asks that the well-typed program is not rejected: the static passes succeed.
			// Whether it then runs to completion is another property's business (counted, not judged).
			u.orig = c12Compile(u.src, false, nil)
			if u.orig.Class == "compiled" {
				u.orig.Class = "accepted"
				if ro := c12EvalInProcess(u.src, false, nil, 90*time.Second); ro.Class != "accepted" {
					u.note = ro.Class + " " + ro.Err
				}
			}
		})
		{
			var esc []*c12richMutant
			var where []ref
			for ui, u := range units {
				for i := range u.muts {
					if u.rs[i].impl.Class == "compiled" {
						esc = append(esc, &c12richMutant{Src: u.rs[i].src})
						where = append(where, ref{ui, i})
					}
				}
			}
			c12BatchEval(esc)
			for k, w := range where {
				units[w.u].rs[w.i].impl = esc[k].Obs
			}
		}
		// pass 3: cases
		for _, u := range units {
			pi, p, src, refOK, o, muts, rs := u.pi, u.p, u.src, u.refOK, u.orig, u.muts, u.rs
			if u.note != "" {
				sm.count("mini:original-fails-at-run-time")
				sm.Notes = append(sm.Notes, "a well-typed MiniGo program passes the static checks but fails at run time (not a C12 matter): "+u.note)
			}
			sm.Evaluations++
			sm.RefComparisons++
			sm.ImplComparisons++
			sm.count("mini:original")
			cid := newID(map[string]any{"stream": "mini", "kind": "original", "source": src})
			oc := 0
			if o.Class != "accepted" {
				oc = c12ClassCode(o.Class)
			}
			if !refOK || o.Class != "accepted" {
				// the generator is wrong (not a finding) or yaegi rejects / fails a well-typed program
				sm.RefMismatches = append(sm.RefMismatches, refMismatch{ID: cid, Region: "", Input: src, Impl: o, Ref: map[string]any{"accepted": refOK}, Note: "unmutated MiniGo program"})
			}
			pname := fmt.Sprintf("p%d", pi)
			if pi < 0 {
				pname = fmt.Sprintf("w%d", pi+len(wits))
			}
			defs = append(defs, fmt.Sprintf("Definition %s : prog := %s.", pname, p.Coq()))
			cases = append(cases, fmt.Sprintf("(%d%%N, %s, None, %d%%N, %d%%N, %s)", cid, pname, p.hash(), oc, coqBool(refOK)))
			if len(sm.Samples) < 1 {
				sm.Samples = append(sm.Samples, map[string]any{"stream": "mini", "source": src})
			}
			for i, m := range muts {
				line := c12DiffLine(src, rs[i].src)
				in := map[string]any{"stream": "mini", "operator": m.Mut, "site": m.Site, "line": line, "family": m.Fam}
				cid := newID(in)
				sm.Evaluations++
				sm.RefComparisons++
				sm.ImplComparisons++
				sm.count("mini:" + strings.Fields(strings.Trim(m.Mut, "()"))[0])
				if !rs[i].refOK {
					sm.count("mini:ill-typed")
				} else {
					sm.count("mini:mutant-still-well-typed")
				}
				distinct.add("mini", rs[i].src)
				implRejected := rs[i].impl.Class == "rejected"
				if implRejected == rs[i].refOK || rs[i].impl.Class == "host-panic" {
					region := ""
					if m.Fam != "ok" {
						region = m.Fam
					}
					sm.RefMismatches = append(sm.RefMismatches, refMismatch{ID: cid, Region: region, Input: in, Impl: rs[i].impl, Ref: map[string]any{"accepted": rs[i].refOK, "error": rs[i].ref}})
				}
				cases = append(cases, fmt.Sprintf("(%d%%N, %s, Some (%s, %s), %d%%N, %d%%N, %s)", cid, pname, m.Mut, m.Site.Coq(), m.Prog.hash(), c12ClassCode(rs[i].impl.Class), coqBool(rs[i].refOK)))
			}
			if pi >= 0 {
				if err := flush(pi); err != nil {
					return err
				}
			}
		}
	}

	phase("mini")
	// ------------------------------------------------------------ B. rich stream
	var table []c12EscapeRow
	if err := json.Unmarshal(c12EscapesJSON, &table); err != nil {
		return fmt.Errorf("c12_escapes.json: %v", err)
	}
	known := map[string]string{}
	for _, row := range table {
		known[row.Key] = row.Class
	}
	{
		rr := r.fork()
		type pair struct{ key, class string }
		seen := map[pair]int{}
		type rcase struct{ key, text string }
		var rcases []rcase
		dropped := 0
		jobs, err := c12RichPlan(rr, nRounds, nSnip)
		if err != nil {
			return err
		}
		phase("rich plan")
		// the unmutated programs: well-typed for go/types, not rejected by yaegi
		origs := make([]c12Obs, len(jobs))
		refErrs := make([][]string, len(jobs))
		parallelMap(len(jobs), 0, func(i int) {
			j := jobs[i]
			ck, err := c12TypeCheck(j.Src, false)
			if err != nil {
				refErrs[i] = []string{err.Error()}
			} else {
				refErrs[i] = ck.Errs
			}
			o := c12Compile(j.Src, j.UseStd, nil)
			if o.Class == "compiled" {
				o.Class = "accepted"
				if ro := c12EvalInProcess(j.Src, j.UseStd, nil, 90*time.Second); ro.Class != "accepted" {
					o.Err = "fails at run time: " + ro.Class + " " + ro.Err
				}
			}
			origs[i] = o
		})
		for i, j := range jobs {
			sm.Evaluations++
			sm.RefComparisons++
			sm.count("rich:original")
			if strings.HasPrefix(origs[i].Err, "fails at run time") {
				sm.count("rich:original-fails-at-run-time")
				sm.Notes = append(sm.Notes, "a well-typed template program ("+j.Name+") passes the static checks but "+origs[i].Err)
			}
			if len(refErrs[i]) > 0 || origs[i].Class != "accepted" {
				cid := newID(map[string]any{"stream": "rich", "kind": "original", "source": j.Src})
				sm.RefMismatches = append(sm.RefMismatches, refMismatch{ID: cid, Region: "", Input: j.Src, Impl: origs[i], Ref: refErrs[i], Note: "unmutated template program"})
				j.Muts = nil
			}
			for _, sn := range j.Snippets {
				sm.count("rich:snippet:" + sn)
			}
		}
		phase("rich originals")
		c12RichEval(jobs)
		phase("rich eval")
		for _, j := range jobs {
			for _, m := range j.Muts {
				if m.RefErr == "" && m.Control && m.Obs.Class != "" {
					// a well-typed control of the constant-subset dimension: not rejected by the static passes
					sm.Evaluations++
					sm.RefComparisons++
					sm.ImplComparisons++
					sm.count("rich:control-well-typed")
					sm.count("rich:control-" + m.Key[:2])
					distinct.add("rich", m.Key)
					if m.Obs.Class != "compiled" {
						region := ""
						if kc, ok := known[m.Key]; ok && kc == "false-"+m.Obs.Class {
							region = c12Region(m.Key)
						}
						cid := newID(map[string]any{"stream": "rich", "kind": "well-typed control", "key": m.Key, "line": m.Line, "yaegi": m.Obs, "source": m.Src})
						sm.RefMismatches = append(sm.RefMismatches, refMismatch{ID: cid, Region: region, Input: map[string]any{"key": m.Key, "line": m.Line, "source": m.Src}, Impl: m.Obs, Ref: "go/types accepts", Note: "well-typed control rejected"})
					}
					continue
				}
				if m.RefErr == "" {
					dropped++
					sm.count("rich:dropped(go/types accepts or parse error)")
					continue
				}
				key, class := m.Key, m.Obs.Class
				sm.Evaluations++
				sm.RefComparisons++
				sm.ImplComparisons++
				sm.count("rich:op-" + key[:2])
				sm.count("rich:" + class)
				if strings.Contains(key, "-sweep") {
					sm.count("rich:type-class-sweep")
				}
				distinct.add("rich", key)
				pr := pair{key, class}
				cid, dup := seen[pr]
				if !dup {
					cid = newID(map[string]any{"stream": "rich", "key": key, "line": m.Line, "go/types": m.RefErr, "yaegi": m.Obs})
					seen[pr] = cid
					rcases = append(rcases, rcase{key, fmt.Sprintf("(%d%%N, %s, %d%%N)", cid, coqRawStr(key), c12ClassCode(class))})
					if len(sm.Samples) < 4 && class == "rejected" {
						sm.Samples = append(sm.Samples, map[string]any{"stream": "rich", "key": key, "line": m.Line, "go/types": m.RefErr, "yaegi": m.Obs.Err})
					}
				}
				if class != "rejected" && !dup {
					region := ""
					if kc, ok := known[key]; ok && kc == class {
						region = c12Region(key)
					}
					in := map[string]any{"key": key, "line": m.Line}
					if region == "" {
						// not a known escape: the whole mutated source is the replay
						in["source"] = m.Src
					}
					sm.RefMismatches = append(sm.RefMismatches, refMismatch{ID: cid, Region: region, Input: in, Impl: m.Obs, Ref: "go/types: " + m.RefErr})
				}
			}
		}
		// sorted by key (byte order), as the table of Tc/Escapes.v is: Cases.rich_mis_y merges the two
		sort.SliceStable(rcases, func(a, b int) bool { return rcases[a].key < rcases[b].key })
		cases := make([]string, len(rcases))
		for i, c := range rcases {
			cases[i] = c.text
		}
		per := (len(cases) + 7) / 8
		if per < 200 {
			per = 200
		}
		for i, k := 0, 0; i < len(cases); i, k = i+per, k+1 {
			j := i + per
			if j > len(cases) {
				j = len(cases)
			}
			body := "Definition cases : list rich_case := [\n" + strings.Join(cases[i:j], ";\n") + "\n].\n" + tail("rich")
			if err := write(fmt.Sprintf("cases_rich_%d.v", k), body); err != nil {
				return err
			}
		}
		sm.Notes = append(sm.Notes, fmt.Sprintf("rich stream: %d mutants accepted by go/types (or unparsable) were discarded; %d escape keys are listed in harness/c12_escapes.json", dropped, len(table)))
	}

	phase("rich cases")
	// ------------------------------------------------------------ C. multi-package stream
	{
		rq := r.fork()
		var cases []string
		for wi := -1; wi < nMulti; wi++ {
			var w *c12world
			if wi < 0 {
				w = c12WitnessWorld() // w_refuted of Tc/Proofs.v
			} else {
				w = c12World(rq.fork())
			}
			if w.Clean != nil {
				if co, _ := w.Clean.eval(); co.Class != "accepted" {
					// a well-typed package fails at run time under yaegi: not a C12 matter, the world is not used
					sm.count("multi:skipped(unbroken world fails at run time: " + co.Class + ")")
					continue
				}
			}
			obs, trace := w.eval()
			refOK := w.refOK()
			in := map[string]any{"stream": "multi", "files": w.files(), "broken": w.Broken}
			cid := newID(in)
			sm.Evaluations++
			sm.RefComparisons++
			sm.ImplComparisons++
			sm.count("multi")
			sm.count("multi:" + obs.Class)
			distinct.add("multi", fmt.Sprint(w.files()))
			want := "rejected"
			if refOK {
				want = "accepted"
			}
			if obs.Class != want {
				region := ""
				if obs.Class == "printed" && !refOK {
					region = "multi-pkg-init"
				}
				sm.RefMismatches = append(sm.RefMismatches, refMismatch{ID: cid, Region: region, Input: in, Impl: map[string]any{"class": obs.Class, "trace": trace, "err": obs.Err, "output": obs.Output}, Ref: map[string]any{"accepted": refOK, "trace": []int{}}})
			}
			code := c12ClassCode(obs.Class)
			if obs.Class == "accepted" {
				code = 0
			}
			cases = append(cases, fmt.Sprintf("(%d%%N, %s, %s, %d%%N, %s)", cid, w.Coq(), natList(trace), code, coqBool(refOK)))
			if wi == -1 {
				sm.Samples = append(sm.Samples, in)
			}
		}
		body := "Definition cases : list multi_case := [\n" + strings.Join(cases, ";\n") + "\n].\n" + tail("multi")
		if err := write("cases_multi_0.v", body); err != nil {
			return err
		}
	}

	phase("multi")
	sm.DistinctNontriv = len(distinct)
	sm.Rule = "mini: MiniGo programs (3 helper + 3-4 generated functions, structs, named types, slices) x every operator of Tc/Mutations.v at every node inside the family modelled by Y; " +
		"rich: template programs (prelude with methods, interfaces, channels, closures + seeded statement snippets) x the 35-operator catalogue at every applicable site, mutants go/types accepts discarded; " +
		"multi: 2-4 source packages in a MapFS, one of them possibly ill-typed, every init prints a marker; " +
		"distinct = distinct mutated sources (mini), distinct (operator, context) keys (rich), distinct worlds (multi); non-trivial = the mutant differs from the original in exactly one node and go/types has a verdict on it"
	return sm.write(*out)
}

func c12DiffLine(a, b string) string {
	la, lb := strings.Split(a, "\n"), strings.Split(b, "\n")
	for j := range lb {
		if j >= len(la) || la[j] != lb[j] {
			return strings.TrimSpace(lb[j])
		}
	}
	return ""
}

// ---------------------------------------------------------------- worlds (multi-package stream)

type c12pkg struct {
	Imports []int
	Body    *mprog
}

type c12world struct {
	Pkgs   []c12pkg  // the last one is main
	Broken int       // index of the ill-typed package, -1 if none
	Clean  *c12world // the same world before one package was broken (nil if none was)
}

func (w *c12world) name(i int) string {
	if i == len(w.Pkgs)-1 {
		return "main"
	}
	return fmt.Sprintf("dep%d", i)
}

// c12World: a small import DAG; with probability 3/4 one package gets a type error of a kind that
// yaegi rejects reliably (family "ok" of the MiniGo operators).
func c12World(r *rng) *c12world {
	n := 2 + r.intn(3)
	w := &c12world{Broken: -1}
	for i := 0; i < n; i++ {
		pk := c12pkg{Body: c12MiniProgram(r.fork())}
		for j := 0; j < i; j++ {
			if r.chance(55) || (i == n-1 && j == i-1) {
				pk.Imports = append(pk.Imports, j)
			}
		}
		w.Pkgs = append(w.Pkgs, pk)
	}
	// every package is reachable from main (the toolchain only builds what main needs)
	for j := 0; j < n-1; j++ {
		used := false
		for i := j + 1; i < n; i++ {
			for _, k := range w.Pkgs[i].Imports {
				used = used || k == j
			}
		}
		if !used {
			w.Pkgs[n-1].Imports = append(w.Pkgs[n-1].Imports, j)
			sort.Ints(w.Pkgs[n-1].Imports)
		}
	}
	if r.chance(75) {
		b := r.intn(n)
		var cands []mmutant
		for _, m := range c12MiniMutants(w.Pkgs[b].Body) {
			if m.Fam == "ok" && (strings.HasPrefix(m.Mut, "MArg") || strings.HasPrefix(m.Mut, "MS") || strings.HasPrefix(m.Mut, "MUndefField")) &&
				(m.Mut == "MArgExtra" || m.Mut == "MArgFewer" || m.Mut == "MSExtra" || m.Mut == "MSFewer" || m.Mut == "MUndefField") {
				cands = append(cands, m)
			}
		}
		if len(cands) > 0 {
			clean := &c12world{Pkgs: append([]c12pkg{}, w.Pkgs...), Broken: -1}
			w.Clean = clean
			w.Pkgs[b].Body = cands[r.intn(len(cands))].Prog
			w.Broken = b
		}
	}
	return w
}

func (w *c12world) source(i int) string {
	src := w.Pkgs[i].Body.Go()
	name := w.name(i)
	var imp strings.Builder
	for _, j := range w.Pkgs[i].Imports {
		fmt.Fprintf(&imp, "import _ %q\n", w.name(j))
	}
	src = strings.Replace(src, "package main\n", "package "+name+"\n\n"+imp.String(), 1)
	if name != "main" {
		src = strings.Replace(src, "func main() {\n\tprintln(\"MARK main\")", "func init() {\n\tprintln(\"MARK "+name+"\")", 1)
	}
	return src
}

func (w *c12world) files() map[string]string {
	m := map[string]string{}
	for i := range w.Pkgs {
		m[w.name(i)] = w.source(i)
	}
	return m
}

func (w *c12world) eval() (c12Obs, []int) {
	mfs := fstest.MapFS{}
	n := len(w.Pkgs)
	for i := 0; i < n-1; i++ {
		mfs["src/"+w.name(i)+"/"+w.name(i)+".go"] = &fstest.MapFile{Data: []byte(w.source(i))}
	}
	o := c12EvalInProcess(w.source(n-1), false, mfs, 90*time.Second)
	var trace []int
	for _, l := range strings.Split(o.Output, "\n") {
		if strings.HasPrefix(l, "MARK ") {
			name := strings.TrimPrefix(l, "MARK ")
			for i := 0; i < n; i++ {
				if w.name(i) == name {
					trace = append(trace, i)
				}
			}
		}
	}
	return o, trace
}

func (w *c12world) refOK() bool {
	var errs []string
	im := &c12MapImporter{files: map[string]string{}, done: map[string]*types_Package{}, errs: &errs}
	n := len(w.Pkgs)
	for i := 0; i < n-1; i++ {
		im.files[w.name(i)] = w.source(i)
	}
	im.files["main"] = w.source(n - 1)
	im.Import("main")
	return len(errs) == 0
}

func (w *c12world) Coq() string {
	var ps []string
	for _, pk := range w.Pkgs {
		ps = append(ps, fmt.Sprintf("(mkpkg %s %s)", natList(pk.Imports), pk.Body.Coq()))
	}
	return "[" + strings.Join(ps, "; ") + "]"
}

// ---------------------------------------------------------------- witnesses of the _refuted theorems (Tc/Proofs.v)

type c12witness struct {
	Orig *mprog
	Mut  mmutant
}

func c12ProgOf(main []*mstmt) *mprog {
	return &mprog{Named: []mkind{kInt}, Funcs: []*mfunc{
		{Results: []mty{tB(kString)}, Body: []*mstmt{{Tag: "Return", Es: []*mexpr{{Tag: "Str", N: 1}}}}},
		{Results: []mty{tB(kInt)}, Body: []*mstmt{{Tag: "Return", Es: []*mexpr{{Tag: "Int", N: 1}}}}},
		{Results: []mty{tB(kBool)}, Body: []*mstmt{{Tag: "Return", Es: []*mexpr{{Tag: "Bool", B: true}}}}},
		{Body: main}}}
}

func c12Witnesses() []c12witness {
	call := func(f int) *mexpr { return &mexpr{Tag: "Call", N: f} }
	v := func(x int) *mexpr { return &mexpr{Tag: "Var", N: x} }
	lit := func(n int) *mexpr { return &mexpr{Tag: "Int", N: n} }
	def := func(x int, e *mexpr) *mstmt { return &mstmt{Tag: "Define", N: x, Es: []*mexpr{e}} }
	pr := func(e *mexpr) *mstmt { return &mstmt{Tag: "Print", Es: []*mexpr{e}} }
	bin := func(op string, a, b *mexpr) *mexpr { return &mexpr{Tag: "Bin", Op: op, Args: []*mexpr{a, b}} }
	mk := func(orig, mut []*mstmt, coq, fam string, site msite) c12witness {
		return c12witness{Orig: c12ProgOf(orig), Mut: mmutant{Name: "witness", Mut: coq, Fam: fam, Site: site, Prog: c12ProgOf(mut)}}
	}
	slit := &mexpr{Tag: "LLit", T: tL(kInt), Args: []*mexpr{lit(1), lit(2)}}
	return []c12witness{
		// C12_land_refuted
		mk([]*mstmt{def(1, call(1)), def(2, call(1)), pr(bin("+", v(1), v(2)))},
			[]*mstmt{def(1, call(1)), def(2, call(1)), pr(bin("&&", v(1), v(2)))}, "(MBinop BLand)", "mini-land", msite{3, []int{2}, 0, []int{}}),
		// C12_const_cond_refuted
		mk([]*mstmt{{Tag: "If", Es: []*mexpr{call(2)}}}, []*mstmt{{Tag: "If", Es: []*mexpr{lit(1)}}}, "(MSArg 0 RInt)", "mini-const-cond", msite{3, []int{0}, -1, nil}),
		// C12_named_erasure_refuted
		mk([]*mstmt{{Tag: "Var", N: 1, T: tN(0, kInt), Es: []*mexpr{lit(1)}}}, []*mstmt{{Tag: "Var", N: 1, T: tN(0, kInt), Es: []*mexpr{call(1)}}},
			"(MSArg 0 (RCall 1))", "mini-named-erasure", msite{3, []int{0}, -1, nil}),
		// C12_index_refuted
		mk([]*mstmt{def(1, slit), pr(&mexpr{Tag: "Index", Args: []*mexpr{v(1), lit(0)}})},
			[]*mstmt{def(1, slit.clone()), pr(&mexpr{Tag: "Index", Args: []*mexpr{call(1), lit(0)}})}, "(MArg 0 (RCall 1))", "mini-index-nonindexable", msite{3, []int{1}, 0, []int{}}),
		// C12_rejects_side_condition_inhabited
		mk([]*mstmt{def(1, call(1)), pr(&mexpr{Tag: "Un", Op: "-", Args: []*mexpr{v(1)}})},
			[]*mstmt{def(1, call(1)), pr(&mexpr{Tag: "Un", Op: "!", Args: []*mexpr{v(1)}})}, "(MUnop UNot)", "ok", msite{3, []int{1}, 0, []int{}}),
	}
}

// c12WitnessWorld: w_refuted = [dep_ok; main_bad] (main imports dep0 and assigns a string to an int).
func c12WitnessWorld() *c12world {
	dep := c12ProgOf([]*mstmt{{Tag: "Print", Es: []*mexpr{{Tag: "Int", N: 1}}}})
	main := c12ProgOf([]*mstmt{{Tag: "Var", N: 1, T: tB(kInt), Es: []*mexpr{{Tag: "Str", N: 0}}}})
	return &c12world{Pkgs: []c12pkg{{Body: dep}, {Imports: []int{0}, Body: main}}, Broken: 1}
}
