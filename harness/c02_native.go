package main

import (
	"fmt"
	"math"
	"strconv"
	"strings"
)

// C02 native reference: the expected token of every evaluation is computed by this (compiled) Go
// program itself, with typed arithmetic at the operand kind (generic functions instantiated at the
// 13 integer kinds, 2 float kinds, 2 complex kinds).  The same generated programs are also built
// with `go build` (a rotating shard in the quick tier, all of them in the thorough tier) and their
// output is compared with these tokens, which validates this file.

type c02Kind struct {
	Name   string // Go type name
	Coq    string // constructor of OpDsl.rkind
	Class  string // int uint float complex string bool
	Bits   int
	Signed bool
}

var c02IntKinds = []*c02Kind{
	{"int", "KInt", "int", 64, true}, {"int8", "KInt8", "int", 8, true}, {"int16", "KInt16", "int", 16, true},
	{"int32", "KInt32", "int", 32, true}, {"int64", "KInt64", "int", 64, true},
	{"uint", "KUint", "uint", 64, false}, {"uint8", "KUint8", "uint", 8, false}, {"uint16", "KUint16", "uint", 16, false},
	{"uint32", "KUint32", "uint", 32, false}, {"uint64", "KUint64", "uint", 64, false}, {"uintptr", "KUintptr", "uint", 64, false},
}
var c02FloatKinds = []*c02Kind{{"float32", "KFloat32", "float", 32, true}, {"float64", "KFloat64", "float", 64, true}}
var c02CplxKinds = []*c02Kind{{"complex64", "KComplex64", "complex", 64, true}, {"complex128", "KComplex128", "complex", 128, true}}
var c02StringKind = &c02Kind{"string", "KString", "string", 0, false}
var c02BoolKind = &c02Kind{"bool", "KBool", "bool", 0, false}

func c02KindByName(n string) *c02Kind {
	for _, l := range [][]*c02Kind{c02IntKinds, c02FloatKinds, c02CplxKinds, {c02StringKind, c02BoolKind}} {
		for _, k := range l {
			if k.Name == n {
				return k
			}
		}
	}
	panic("c02: unknown kind " + n)
}

func (k *c02Kind) isInt() bool { return k.Class == "int" || k.Class == "uint" }

// c02V is one operand value.
type c02V struct {
	K        *c02Kind
	I        int64      // signed integer kinds
	U        uint64     // unsigned integer kinds
	F        float64    // float kinds (float32 values are exactly representable)
	C        complex128 // complex kinds
	S        string
	B        bool
	Boundary bool // counts for the "non-trivial" measure
}

func (v c02V) key() string {
	switch v.K.Class {
	case "int":
		return strconv.FormatInt(v.I, 10)
	case "uint":
		return strconv.FormatUint(v.U, 10)
	case "float":
		return fmt.Sprintf("%016x", math.Float64bits(v.F))
	case "complex":
		return fmt.Sprintf("%016x,%016x", math.Float64bits(real(v.C)), math.Float64bits(imag(v.C)))
	case "string":
		return strconv.Quote(v.S)
	}
	return fmt.Sprint(v.B)
}

// lit renders the value as an untyped Go constant ("" when the value has no constant form).
func (v c02V) lit() string {
	switch v.K.Class {
	case "int":
		return strconv.FormatInt(v.I, 10)
	case "uint":
		return strconv.FormatUint(v.U, 10)
	case "float":
		if math.IsNaN(v.F) || math.IsInf(v.F, 0) || (v.F == 0 && math.Signbit(v.F)) {
			return ""
		}
		bits := 64
		if v.K.Bits == 32 {
			bits = 32
		}
		s := strconv.FormatFloat(v.F, 'g', -1, bits)
		if !strings.ContainsAny(s, ".e") {
			s += ".0"
		}
		return s
	case "complex":
		re, im := c02V{K: c02FloatKinds[v.K.Bits/64-1], F: real(v.C)}.lit(), c02V{K: c02FloatKinds[v.K.Bits/64-1], F: imag(v.C)}.lit()
		if re == "" || im == "" {
			return ""
		}
		return "complex(" + re + ", " + im + ")"
	case "string":
		return strconv.Quote(v.S)
	}
	return fmt.Sprint(v.B)
}

// varInit renders an expression (not necessarily constant) of the value's kind, for the value tables.
func (v c02V) varInit() string {
	switch v.K.Class {
	case "float":
		if v.K.Bits == 32 {
			return fmt.Sprintf("math.Float32frombits(0x%08x)", math.Float32bits(float32(v.F)))
		}
		return fmt.Sprintf("math.Float64frombits(0x%016x)", math.Float64bits(v.F))
	case "complex":
		if v.K.Bits == 64 {
			return fmt.Sprintf("complex(math.Float32frombits(0x%08x), math.Float32frombits(0x%08x))", math.Float32bits(float32(real(v.C))), math.Float32bits(float32(imag(v.C))))
		}
		return fmt.Sprintf("complex(math.Float64frombits(0x%016x), math.Float64frombits(0x%016x))", math.Float64bits(real(v.C)), math.Float64bits(imag(v.C)))
	}
	return v.lit()
}

func (v c02V) coqZ() string {
	if v.K.Class == "int" {
		if v.I < 0 {
			return fmt.Sprintf("(%d)%%Z", v.I)
		}
		return fmt.Sprintf("%d%%Z", v.I)
	}
	return fmt.Sprintf("%d%%Z", v.U)
}

// ---------------------------------------------------------------- tokens (the format of `em` in the generated programs)

func c02Tok(v any) string {
	switch x := v.(type) {
	case float32:
		return fmt.Sprintf("f32:%08x", math.Float32bits(x))
	case float64:
		return fmt.Sprintf("f64:%016x", math.Float64bits(x))
	case complex64:
		return fmt.Sprintf("c64:%08x,%08x", math.Float32bits(real(x)), math.Float32bits(imag(x)))
	case complex128:
		return fmt.Sprintf("c128:%016x,%016x", math.Float64bits(real(x)), math.Float64bits(imag(x)))
	case string:
		return fmt.Sprintf("s:%q", x)
	}
	return fmt.Sprintf("%T:%v", v, v)
}

// c02Canon maps every NaN bit pattern to one token (Go does not define NaN payloads or signs).
func c02Canon(tok string) string {
	nan32 := func(h string) bool {
		b, err := strconv.ParseUint(h, 16, 32)
		return err == nil && b&0x7f800000 == 0x7f800000 && b&0x007fffff != 0
	}
	nan64 := func(h string) bool {
		b, err := strconv.ParseUint(h, 16, 64)
		return err == nil && b&0x7ff0000000000000 == 0x7ff0000000000000 && b&0x000fffffffffffff != 0
	}
	fix := func(parts []string, isNaN func(string) bool) []string {
		for i, p := range parts {
			if isNaN(p) {
				parts[i] = "NaN"
			}
		}
		return parts
	}
	switch {
	case strings.HasPrefix(tok, "f32:"):
		return "f32:" + strings.Join(fix([]string{tok[4:]}, nan32), ",")
	case strings.HasPrefix(tok, "f64:"):
		return "f64:" + strings.Join(fix([]string{tok[4:]}, nan64), ",")
	case strings.HasPrefix(tok, "c64:"):
		return "c64:" + strings.Join(fix(strings.Split(tok[4:], ","), nan32), ",")
	case strings.HasPrefix(tok, "c128:"):
		return "c128:" + strings.Join(fix(strings.Split(tok[5:], ","), nan64), ",")
	}
	return tok
}

func c02PanicTok(e any) string {
	m := fmt.Sprint(e)
	switch {
	case strings.Contains(m, "divide by zero"):
		return "P:div"
	case strings.Contains(m, "negative shift"):
		return "P:shift"
	}
	return "P:other"
}

// ---------------------------------------------------------------- generic typed evaluation

type c02Integer interface {
	~int | ~int8 | ~int16 | ~int32 | ~int64 | ~uint | ~uint8 | ~uint16 | ~uint32 | ~uint64 | ~uintptr
}
type c02Floating interface{ ~float32 | ~float64 }
type c02Cplx interface{ ~complex64 | ~complex128 }

type c02Ops struct {
	bin     func(op string, x, y c02V) string
	shift   func(op string, x c02V, count c02V) string
	cmp     func(op string, x, y c02V) (string, bool)
	un      func(op string, x c02V) string
	incdec  func(inc bool, x c02V) string
	fromI64 func(int64) string
	fromU64 func(uint64) string
	fromF64 func(float64) (string, bool) // false: out of range (implementation-defined in Go)
	fromC   func(complex128) string
	str     func(c02V) string // string(x) for an integer x
}

func c02IntOf[T c02Integer](v c02V) T {
	if v.K.Signed {
		return T(v.I)
	}
	return T(v.U)
}

func c02MkInt[T c02Integer](k *c02Kind) c02Ops {
	guard := func(f func() T) (tok string) {
		defer func() {
			if e := recover(); e != nil {
				tok = c02PanicTok(e)
			}
		}()
		return c02Tok(f())
	}
	var lo, hi float64
	if k.Signed {
		lo, hi = -math.Ldexp(1, k.Bits-1), math.Ldexp(1, k.Bits-1)
	} else {
		lo, hi = 0, math.Ldexp(1, k.Bits)
	}
	return c02Ops{
		bin: func(op string, xv, yv c02V) string {
			x, y := c02IntOf[T](xv), c02IntOf[T](yv)
			return guard(func() T {
				switch op {
				case "+":
					return x + y
				case "-":
					return x - y
				case "*":
					return x * y
				case "/":
					return x / y
				case "%":
					return x % y
				case "&":
					return x & y
				case "|":
					return x | y
				case "^":
					return x ^ y
				case "&^":
					return x &^ y
				}
				panic("c02: bad op " + op)
			})
		},
		shift: func(op string, xv c02V, cv c02V) string {
			x := c02IntOf[T](xv)
			if cv.K.Signed {
				s := cv.I
				return guard(func() T {
					if op == "<<" {
						return x << s
					}
					return x >> s
				})
			}
			s := cv.U
			return guard(func() T {
				if op == "<<" {
					return x << s
				}
				return x >> s
			})
		},
		cmp: func(op string, xv, yv c02V) (string, bool) {
			x, y := c02IntOf[T](xv), c02IntOf[T](yv)
			var r bool
			switch op {
			case "==":
				r = x == y
			case "!=":
				r = x != y
			case "<":
				r = x < y
			case "<=":
				r = x <= y
			case ">":
				r = x > y
			case ">=":
				r = x >= y
			default:
				panic("c02: bad cmp " + op)
			}
			return c02Tok(r), r
		},
		un: func(op string, xv c02V) string {
			x := c02IntOf[T](xv)
			switch op {
			case "-":
				return c02Tok(-x)
			case "^":
				return c02Tok(^x)
			case "+":
				return c02Tok(+x)
			}
			panic("c02: bad unary " + op)
		},
		incdec: func(inc bool, xv c02V) string {
			x := c02IntOf[T](xv)
			if inc {
				x++
			} else {
				x--
			}
			return c02Tok(x)
		},
		str:     func(v c02V) string { return c02Tok(string(c02IntOf[T](v))) },
		fromI64: func(v int64) string { return c02Tok(T(v)) },
		fromU64: func(v uint64) string { return c02Tok(T(v)) },
		fromF64: func(v float64) (string, bool) {
			t := math.Trunc(v)
			if math.IsNaN(v) || t < lo || t >= hi {
				return "", false
			}
			return c02Tok(T(v)), true
		},
	}
}

func c02MkFloat[T c02Floating](k *c02Kind) c02Ops {
	return c02Ops{
		bin: func(op string, xv, yv c02V) string {
			x, y := T(xv.F), T(yv.F)
			switch op {
			case "+":
				return c02Tok(x + y)
			case "-":
				return c02Tok(x - y)
			case "*":
				return c02Tok(x * y)
			case "/":
				return c02Tok(x / y)
			}
			panic("c02: bad op " + op)
		},
		cmp: func(op string, xv, yv c02V) (string, bool) {
			x, y := T(xv.F), T(yv.F)
			var r bool
			switch op {
			case "==":
				r = x == y
			case "!=":
				r = x != y
			case "<":
				r = x < y
			case "<=":
				r = x <= y
			case ">":
				r = x > y
			case ">=":
				r = x >= y
			}
			return c02Tok(r), r
		},
		un: func(op string, xv c02V) string {
			x := T(xv.F)
			if op == "-" {
				return c02Tok(-x)
			}
			return c02Tok(+x)
		},
		incdec: func(inc bool, xv c02V) string {
			x := T(xv.F)
			if inc {
				x++
			} else {
				x--
			}
			return c02Tok(x)
		},
		fromI64: func(v int64) string { return c02Tok(T(v)) },
		fromU64: func(v uint64) string { return c02Tok(T(v)) },
		fromF64: func(v float64) (string, bool) { return c02Tok(T(v)), true },
	}
}

func c02MkCplx[T c02Cplx](k *c02Kind) c02Ops {
	return c02Ops{
		bin: func(op string, xv, yv c02V) string {
			x, y := T(xv.C), T(yv.C)
			switch op {
			case "+":
				return c02Tok(x + y)
			case "-":
				return c02Tok(x - y)
			case "*":
				return c02Tok(x * y)
			case "/":
				return c02Tok(x / y)
			}
			panic("c02: bad op " + op)
		},
		cmp: func(op string, xv, yv c02V) (string, bool) {
			x, y := T(xv.C), T(yv.C)
			r := x == y
			if op == "!=" {
				r = x != y
			}
			return c02Tok(r), r
		},
		un: func(op string, xv c02V) string {
			x := T(xv.C)
			if op == "-" {
				return c02Tok(-x)
			}
			return c02Tok(+x)
		},
		incdec: func(inc bool, xv c02V) string {
			x := T(xv.C)
			if inc {
				x++
			} else {
				x--
			}
			return c02Tok(x)
		},
		fromC: func(v complex128) string { return c02Tok(T(v)) },
	}
}

var c02OpsOf = map[string]c02Ops{}

func init() {
	k := c02KindByName
	c02OpsOf["int"] = c02MkInt[int](k("int"))
	c02OpsOf["int8"] = c02MkInt[int8](k("int8"))
	c02OpsOf["int16"] = c02MkInt[int16](k("int16"))
	c02OpsOf["int32"] = c02MkInt[int32](k("int32"))
	c02OpsOf["int64"] = c02MkInt[int64](k("int64"))
	c02OpsOf["uint"] = c02MkInt[uint](k("uint"))
	c02OpsOf["uint8"] = c02MkInt[uint8](k("uint8"))
	c02OpsOf["uint16"] = c02MkInt[uint16](k("uint16"))
	c02OpsOf["uint32"] = c02MkInt[uint32](k("uint32"))
	c02OpsOf["uint64"] = c02MkInt[uint64](k("uint64"))
	c02OpsOf["uintptr"] = c02MkInt[uintptr](k("uintptr"))
	c02OpsOf["float32"] = c02MkFloat[float32](k("float32"))
	c02OpsOf["float64"] = c02MkFloat[float64](k("float64"))
	c02OpsOf["complex64"] = c02MkCplx[complex64](k("complex64"))
	c02OpsOf["complex128"] = c02MkCplx[complex128](k("complex128"))
}

// c02Conv: token of K2(x) for x of kind v.K; ok=false when Go leaves the result implementation-defined.
func c02Conv(v c02V, to *c02Kind) (string, bool) {
	ops := c02OpsOf[to.Name]
	if to.Class == "string" {
		return c02OpsOf[v.K.Name].str(v), true
	}
	switch v.K.Class {
	case "int":
		return ops.fromI64(v.I), true
	case "uint":
		return ops.fromU64(v.U), true
	case "float":
		return ops.fromF64(v.F)
	case "complex":
		return ops.fromC(v.C), true
	}
	panic("c02: bad conversion")
}
