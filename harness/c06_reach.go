package main

import (
	"fmt"
	"strings"
)

// C06, "recover is effective exactly when called directly by a deferred function", along the
// dimension HOW THE DEFERRED FUNCTION IS REACHED: callee kind (package-level function, method with
// value / pointer receiver, function literal; without and with an argument) x the expression that
// denotes it at the defer statement (direct name, local variable, package variable, slice element,
// struct field, map element, parameter, function result, range variable over a slice of functions,
// method expression) x use (the value is deferred itself: recover must stop the panic and return its
// value; the value is called by a deferred literal: recover must return nil and the panic goes on)
// x panic value (string, run-time fault, none). One program per (kind, reach); every cell reports
// what recover returned and whether the panic left the function; compared cell by cell with compiled Go.

var c06ReachKinds = []string{"named", "named1", "vmeth", "pmeth", "lit", "lit1"}
var c06ReachForms = []string{"direct", "localvar", "pkgvar", "slice", "field", "map", "param", "result", "range", "methexpr"}
var c06ReachUses = []string{"defer", "helper"}
var c06ReachVals = []string{"str", "fault", "none"}

type c06ReachCell struct {
	ID                   string
	Kind, Form, Use, Val string
}

type c06ReachProg struct {
	Kind, Form string
	Src        string
	Cells      []c06ReachCell
}

const c06ReachHead = `package main

import "fmt"

var cur string
var one = 1

type G struct{ id int }

func handler()        { fmt.Println(cur, "rec", recover()) }
func handler1(a int)  { fmt.Println(cur, "rec", recover(), a) }
func (g G) rescue()   { fmt.Println(cur, "rec", recover(), g.id) }
func (g *G) prescue() { fmt.Println(cur, "rec", recover(), g.id) }

func cell(id string, f func()) {
	cur = id
	defer func() {
		if e := recover(); e != nil {
			fmt.Println(id, "end escaped:", e)
		}
	}()
	f()
	fmt.Println(id, "end returned")
}

func boom(k int) {
	if k == 1 && one == 1 {
		panic("s1")
	}
	if k == 2 && one == 1 {
		var nm map[string]int
		nm["a"] = 1
	}
}
`

// c06ReachProgram renders one (kind, reach) program, or ok=false when the combination does not exist.
func c06ReachProgram(kind, form string) (p c06ReachProg, ok bool) {
	arg := kind == "named1" || kind == "lit1"
	ftype := "func()"
	call := "()"
	if arg {
		ftype, call = "func(int)", "(7)"
	}
	var value string // expression denoting the callee as a value
	switch kind {
	case "named":
		value = "handler"
	case "named1":
		value = "handler1"
	case "vmeth":
		value = "g.rescue"
	case "pmeth":
		value = "gp.prescue"
	case "lit":
		value = "func() { fmt.Println(cur, \"rec\", recover()) }"
	case "lit1":
		value = "func(a int) { fmt.Println(cur, \"rec\", recover(), a) }"
	}
	if form == "methexpr" {
		switch kind {
		case "vmeth":
			value, ftype, call = "G.rescue", "func(G)", "(g)"
		case "pmeth":
			value, ftype, call = "(*G).prescue", "func(*G)", "(gp)"
		default:
			return p, false
		}
	}
	var pre, globals, callee string
	viaParam := false
	switch form {
	case "direct", "methexpr":
		callee = value
		if form == "methexpr" {
			pre = "h := " + value
			callee = "h"
		}
	case "localvar":
		pre, callee = "h := "+value, "h"
	case "pkgvar":
		if kind == "vmeth" || kind == "pmeth" {
			pre, callee = "pv = "+value, "pv"
			globals = "var pv " + ftype + "\n"
		} else {
			globals, callee = "var pv "+ftype+" = "+value+"\n", "pv"
		}
	case "slice":
		pre, callee = "hs := []"+ftype+"{"+value+"}", "hs[0]"
	case "field":
		pre, callee = "st := struct{ f "+ftype+" }{"+value+"}", "st.f"
	case "map":
		pre, callee = "hm := map[string]"+ftype+"{\"k\": "+value+"}", "hm[\"k\"]"
	case "param":
		viaParam = true
		callee = "f"
	case "result":
		pre, callee = "get := func() "+ftype+" { return "+value+" }", "get()"
	case "range":
		callee = "c"
	}
	var b strings.Builder
	b.WriteString(c06ReachHead)
	b.WriteString(globals)
	n := 0
	var mainBody strings.Builder
	for _, use := range c06ReachUses {
		for vi, val := range c06ReachVals {
			n++
			id := fmt.Sprintf("%s-%s-%s-%s", kind, form, use, val)
			p.Cells = append(p.Cells, c06ReachCell{ID: id, Kind: kind, Form: form, Use: use, Val: val})
			deferStmt := "defer " + callee + call
			if use == "helper" {
				deferStmt = "defer func() {\n\t\t" + callee + call + "\n\t}()"
			}
			fn := fmt.Sprintf("run%d", n)
			sig := fn + "()"
			if viaParam {
				sig = fn + "(f " + ftype + ")"
			}
			fmt.Fprintf(&b, "\nfunc %s {\n\tg := G{1}\n\tgp := &G{2}\n\t_ = g\n\t_ = gp\n", sig)
			if pre != "" {
				fmt.Fprintf(&b, "\t%s\n", pre)
			}
			if form == "range" {
				fmt.Fprintf(&b, "\tfor _, c := range []%s{%s} {\n\t\t%s\n\t}\n", ftype, value, strings.ReplaceAll(deferStmt, "\n\t", "\n\t\t"))
			} else {
				fmt.Fprintf(&b, "\t%s\n", deferStmt)
			}
			fmt.Fprintf(&b, "\tboom(%d)\n}\n", []int{1, 2, 0}[vi])
			if viaParam {
				fmt.Fprintf(&mainBody, "\tcell(%q, func() {\n\t\tg := G{1}\n\t\tgp := &G{2}\n\t\t_ = g\n\t\t_ = gp\n\t\t%s(%s)\n\t})\n", id, fn, value)
			} else {
				fmt.Fprintf(&mainBody, "\tcell(%q, %s)\n", id, fn)
			}
		}
	}
	b.WriteString("\nfunc main() {\n" + mainBody.String() + "}\n")
	p.Kind, p.Form, p.Src = kind, form, b.String()
	return p, true
}

// c06ReachYaegiEffective: whether recover stops the panic in yaegi's mechanism (finding
// funcvalue-recover-anchor). The wrapper of a package-level function or method taken as a value
// (genFunctionWrapper) runs the body in newFrame(f) with f the frame that EVALUATED the value, and
// _recover looks at f.anc.recovered: recover is effective exactly when the value was taken in the
// frame of the panicking function, however it is called later. A function literal taken as a value
// (getFunc) runs in a frame whose ancestor is a clone of the creating frame, made before any panic:
// recover is never effective. Only a callee written directly in the defer statement behaves as in Go.
func c06ReachYaegiEffective(c c06ReachCell) bool {
	goEff := c.Use == "defer"
	if c.Form == "direct" {
		return goEff
	}
	if c.Kind == "lit" || c.Kind == "lit1" {
		return false
	}
	method := c.Kind == "vmeth" || c.Kind == "pmeth"
	switch c.Form {
	case "localvar", "slice", "field", "map", "range":
		return true
	case "pkgvar":
		return method // the method value is assigned in the panicking function, the function value in the global frame
	}
	return false // param: taken by the caller; result: taken in the literal that returns it
}

// c06ReachExpectedYaegi derives the result the mechanism above produces from the result of compiled Go.
func c06ReachExpectedYaegi(c c06ReachCell, goRes string) string {
	if c.Val == "none" || c06ReachYaegiEffective(c) == (c.Use == "defer") {
		return goRes
	}
	// goRes = "rec=<R><extra>,;end=<E>"
	i := strings.Index(goRes, ",;end=")
	if !strings.HasPrefix(goRes, "rec=") || i < 0 {
		return goRes
	}
	rec, end := goRes[4:i], goRes[i+6:]
	extra := ""
	for _, x := range []string{" 7", " 1", " 2"} {
		if strings.HasSuffix(rec, x) {
			extra, rec = x, strings.TrimSuffix(rec, x)
		}
	}
	if c.Use == "defer" { // Go: recovered, returned; yaegi: nil, escapes
		return "rec=ShNil" + extra + ",;end=escaped:" + rec
	}
	// Go: nil, escapes; yaegi: recovered, returned
	return "rec=" + strings.TrimPrefix(end, "escaped:") + extra + ",;end=returned"
}

func c06ReachPrograms() []c06ReachProg {
	var ps []c06ReachProg
	for _, k := range c06ReachKinds {
		for _, f := range c06ReachForms {
			// left out: yaegi cannot run them at all, for reasons unrelated to unwinding (a function
			// returning a package-level function, method expressions: reflect.Set type errors)
			if f == "methexpr" || (f == "result" && (k == "named" || k == "named1")) {
				continue
			}
			if p, ok := c06ReachProgram(k, f); ok {
				ps = append(ps, p)
			}
		}
	}
	return ps
}

// c06ReachResults maps cell id -> "rec=<what recover returned>;end=<returned | escaped:value>"
func c06ReachResults(stdout string) map[string]string {
	rec, end := map[string]string{}, map[string]string{}
	for _, l := range strings.Split(stdout, "\n") {
		f := strings.SplitN(l, " ", 3)
		if len(f) != 3 {
			continue
		}
		switch f[1] {
		case "rec":
			v := strings.Fields(f[2])
			shown := f[2]
			extra := ""
			// the recovered value may be followed by the argument / receiver id
			if len(v) > 1 {
				last := v[len(v)-1]
				if last == "7" || last == "1" || last == "2" {
					extra = " " + last
					shown = strings.Join(v[:len(v)-1], " ")
				}
			}
			rec[f[0]] += c06Shown(shown) + extra + ","
		case "end":
			e := f[2]
			if strings.HasPrefix(e, "escaped: ") {
				e = "escaped:" + c06Shown(strings.TrimPrefix(e, "escaped: "))
			}
			end[f[0]] = e
		}
	}
	res := map[string]string{}
	for id, e := range end {
		res[id] = "rec=" + rec[id] + ";end=" + e
	}
	for id, r := range rec {
		if _, ok := end[id]; !ok {
			res[id] = "rec=" + r + ";end=<none>"
		}
	}
	return res
}
