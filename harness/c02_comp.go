package main

import (
	"fmt"
	"strings"
)

// C02, composed expressions.  Every operator is correct in isolation on the unchanged tree, but the
// compiler (ast.go, cfg.go) may treat a COMPOSITION specially: a unary operator applied to a
// parenthesised binary expression, a binary operator whose operand is a unary or binary expression,
// a comparison of an arithmetic result, a conversion of an expression.  This stream enumerates the
// depth-two compositions of every operator family, over boundary values of the kind in every operand
// position (NaN, infinities and signed zeros for floats), in the value and branch contexts.  The
// reference is the same program compiled by Go (these programs are compiled on every run): there is
// no native oracle and no Coq model for this stream, it is compared behaviourally only.

type c02CompShape struct {
	Fam   string // family label: outer/inner
	Expr  string // over x, y, z
	Arity int
	Bool  bool
	Panic bool // may panic (integer division, shift)
}

func (g *c02Gen) compShapes(k *c02Kind, salt int) []c02CompShape {
	var out []c02CompShape
	rot := func(l []string, i int) string { return l[(i+int(g.seed)+salt)%len(l)] }
	cmps := c02CmpOps
	if k.Class == "bool" || k.Class == "complex" {
		cmps = []string{"==", "!="}
	}
	// !(x cmp y), also doubly parenthesised and with a negated comparison inside
	for _, c := range cmps {
		out = append(out, c02CompShape{"not/cmp", fmt.Sprintf("!(x %s y)", c), 2, true, false})
		out = append(out, c02CompShape{"not/cmp", fmt.Sprintf("!((x %s y))", c), 2, true, false})
		out = append(out, c02CompShape{"not/not-cmp", fmt.Sprintf("!(!(x %s y))", c), 2, true, false})
		out = append(out, c02CompShape{"logic/cmp", fmt.Sprintf("x %s y && y %s z", c, rot(cmps, 1)), 3, true, false})
		out = append(out, c02CompShape{"logic/cmp", fmt.Sprintf("!(x %s y) || y %s z", c, rot(cmps, 2)), 3, true, false})
		out = append(out, c02CompShape{"not/logic-cmp", fmt.Sprintf("!(x %s y && y %s z)", c, rot(cmps, 3)), 3, true, false})
	}
	if k.Class == "bool" {
		out = append(out, c02CompShape{"not/logic", "!(x && y)", 2, true, false}, c02CompShape{"not/logic", "!(x || y)", 2, true, false},
			c02CompShape{"logic/not", "!x && !y", 2, true, false}, c02CompShape{"cmp/not", "!x == y", 2, true, false}, c02CompShape{"cmp/logic", "(x && y) != (y || z)", 3, true, false})
		return out
	}
	if k.Class == "string" {
		out = append(out, c02CompShape{"cmp/bin", "x + y < z", 3, true, false}, c02CompShape{"bin/bin", "(x + y) + z", 3, false, false}, c02CompShape{"bin/bin", "x + (y + z)", 3, false, false})
		return out
	}
	ops := c02FloatOps
	uns := []string{"-", "+"}
	if k.isInt() {
		ops = c02ArithOps
		uns = []string{"-", "^", "+"}
	}
	for i, o := range ops {
		div := k.isInt() && (o == "/" || o == "%")
		o2 := rot(ops, i+1)
		div2 := k.isInt() && (o2 == "/" || o2 == "%")
		for _, u := range uns {
			out = append(out, c02CompShape{"un/bin", fmt.Sprintf("%s(x %s y)", u, o), 2, false, div})
			out = append(out, c02CompShape{"bin/un", fmt.Sprintf("%sx %s y", u, o), 2, false, div})
			out = append(out, c02CompShape{"bin/un", fmt.Sprintf("x %s %sy", o, u), 2, false, div})
		}
		out = append(out, c02CompShape{"un/un", fmt.Sprintf("-(-x) %s y", o), 2, false, div})
		out = append(out, c02CompShape{"bin/bin", fmt.Sprintf("(x %s y) %s z", o, o2), 3, false, div || div2})
		out = append(out, c02CompShape{"bin/bin", fmt.Sprintf("x %s (y %s z)", o, o2), 3, false, div || div2})
		out = append(out, c02CompShape{"bin/bin", fmt.Sprintf("x %s y %s z", o, o2), 3, false, div || div2})
		if k.Class != "complex" {
			out = append(out, c02CompShape{"cmp/bin", fmt.Sprintf("x %s y %s z", o, rot(c02CmpOps, i)), 3, true, div})
			out = append(out, c02CompShape{"cmp/un", fmt.Sprintf("-x %s y", rot(c02CmpOps, i+2)), 2, true, false})
			out = append(out, c02CompShape{"not/cmp-bin", fmt.Sprintf("!(x %s y %s z)", o, rot(c02CmpOps, i+4)), 3, true, div})
		}
		// conversion of an expression and expression of conversions
		to := "float64"
		switch {
		case k.Class == "float":
			to = "float32"
			if k.Bits == 32 {
				to = "float64"
			}
		case k.Class == "complex":
			to = "complex128"
			if k.Bits == 128 {
				to = "complex64"
			}
		case k.Signed:
			to = "uint8"
		default:
			to = "int16"
		}
		out = append(out, c02CompShape{"conv/bin", fmt.Sprintf("%s(x %s y)", to, o), 2, false, div})
		out = append(out, c02CompShape{"bin/conv", fmt.Sprintf("%s(%s(x)) %s y", k.Name, to, o), 2, false, div})
	}
	if k.isInt() {
		for _, sh := range []string{"<<", ">>"} {
			out = append(out, c02CompShape{"un/shift", fmt.Sprintf("-(x %s 3)", sh), 1, false, false})
			out = append(out, c02CompShape{"shift/bin", fmt.Sprintf("(x + y) %s 2", sh), 2, false, false})
			out = append(out, c02CompShape{"bin/shift", fmt.Sprintf("x %s 1 | y", sh), 2, false, false})
		}
	}
	return out
}

var c02CompCtxVal = []string{"ret", "asg", "ifc", "arg"}
var c02CompCtxBool = []string{"ret", "asg", "ifc", "arg", "if", "for", "sw", "andl-if", "orr-v"}

func (g *c02Gen) compSites() {
	kinds := append(append(append([]*c02Kind{}, c02IntKinds...), c02FloatKinds...), c02CplxKinds...)
	kinds = append(kinds, c02StringKind, c02BoolKind)
	intK := c02KindByName("int")
	for ki, k := range kinds {
		vals := c02Values(k)
		n := len(vals)
		if g.tier != "thorough" && n > 12 && k.isInt() {
			// integers: a rotating window of the boundary values; floats keep every special value
			var sub []c02V
			for i := 0; i < 12; i++ {
				sub = append(sub, vals[(i*n/12+int(g.seed))%n])
			}
			vals, n = sub, 12
		}
		// tuples: every value in every position, with different neighbours
		lit := func(pos int) string {
			var items []string
			for i := 0; i < 2*n; i++ {
				j := (i + pos*(n/3+1)) % n
				if i >= n && pos == 1 {
					j = i % n // second half: y equals x
				}
				items = append(items, vals[j].varInit())
			}
			return fmt.Sprintf("[]%s{%s}", k.Name, strings.Join(items, ", "))
		}
		var idx []c02V
		for i := 0; i < 2*n; i++ {
			idx = append(idx, c02V{K: intK, I: int64(i), Boundary: true})
		}
		for si, sh := range g.compShapes(k, ki) {
			ctxs := c02CompCtxVal
			R := k.Name
			if sh.Bool {
				ctxs, R = c02CompCtxBool, "bool"
			}
			if strings.HasPrefix(sh.Fam, "conv/") {
				R = sh.Expr[:strings.IndexByte(sh.Expr, '(')]
			}
			for ci, ctx := range ctxs {
				// integer kinds: two contexts per shape, rotated over kinds, shapes and seeds (every
				// family x context cell is still hit in every run, through the 11 integer kinds)
				if k.isInt() && g.tier != "thorough" && (ci+ki+si+int(g.seed))%len(ctxs) >= 2 {
					continue
				}
				s := &c02Site{Cat: "comp", Op: sh.Expr, K: k, Form: sh.Fam, Ctx: ctx, Xs: idx, RefOnly: true}
				g.nextID++
				s.ID = g.nextID
				names := []string{"x", "y", "z"}[:sh.Arity]
				tabs := ""
				var binds []string
				for j, nm := range names {
					tabs += fmt.Sprintf("var t%s%d = %s\n", nm, s.ID, lit(j))
					binds = append(binds, fmt.Sprintf("t%s%d[i]", nm, s.ID))
				}
				sg := c02Sig{params: "i int", args: "i", pro: fmt.Sprintf("\t%s := %s\n", strings.Join(names, ", "), strings.Join(binds, ", "))}
				decl, ok := c02Context(ctx, s.ID, sg, R, sh.Expr)
				if !ok {
					g.nextID--
					continue
				}
				s.Decl = tabs + "\n" + decl
				s.Call = fmt.Sprintf("s%d(x)", s.ID)
				if sh.Panic {
					s.Decl += c02Try(s.ID, sg)
					s.Call = fmt.Sprintf("t%d(x)", s.ID)
				}
				if ctx == "arg" {
					s.ArgType = R
				}
				for range idx {
					s.Expect = append(s.Expect, "?")
				}
				g.sites = append(g.sites, s)
			}
		}
	}
}
