package main

import (
	"fmt"
	"go/parser"
	"strings"
)

// C01 random program generator (main stream): seeded, type-directed, valid and deterministic by
// construction (go/types re-validates; rejected programs are discarded and counted).
//
// Determinism rules enforced here (DESIGN.md section 3, C01 "Explored"):
//   - a statement that makes an effectful call (a call that prints or writes shared variables) never
//     reads a shared variable elsewhere in the same statement (Go leaves that order unspecified);
//   - every run-time fault is deliberate: indices are reduced into range, divisors are forced odd,
//     shift counts are masked, pointers and maps are never nil; a program may contain ONE deliberate
//     faulting statement, which has no other side effect;
//   - maps are only ranged through their sorted keys; capacity is never observed;
//   - loops are bounded by dedicated counters, recursion by a budget parameter.
// Known-defect regions of yaegi are kept out of this stream (see c01regions.go).

type c1kind int

const (
	c1Int c1kind = iota
	c1Float
	c1String
	c1Bool
	c1Struct
	c1Array
	c1Slice
	c1Map
	c1Ptr
	c1Func
)

type c1field struct {
	name string
	t    *c1typ
}

type c1typ struct {
	k        c1kind
	name     string
	bits     int
	signed   bool
	elem     *c1typ
	key      *c1typ
	n        int
	fields   []c1field
	params   []*c1typ
	results  []*c1typ
	printabl bool
}

type c1var struct {
	name      string
	t         *c1typ
	ro        bool // never assigned by generated statements (loop variables, counters, closures)
	shared    bool // written by closures or by other functions
	minLen    int  // slices, strings: guaranteed minimum length
	noCapture bool // must not be referenced from a function literal
	noShadow  bool // named results: a bare return needs them unshadowed
	fn        *c1fn
	fdepth    int // function-literal nesting depth at the declaration
	used      bool
}

type c1fn struct {
	name    string
	params  []*c1typ
	results []*c1typ
	eff     bool
	cost    int
	rec     bool // first parameter is a recursion budget
}

type c1scope struct {
	parent *c1scope
	vars   []*c1var
}

type c1loop struct {
	label     string
	labelUsed bool
	noLabel   bool // directly inside a case clause: yaegi does not find the label (region label-in-case)
	isLoop    bool // false: switch
	canCont   bool
}

type c1fctx struct {
	results   []*c1typ
	named     []string // named results ("" = unnamed function)
	eff       bool
	self      *c1fn
	inLit     bool
	budgetVar string
}

type c1ectx struct {
	noShared bool
	eff      bool
	depth    int
}

type c1gen struct {
	r                  *rng
	basics             []*c1typ
	byName             map[string]*c1typ
	structs            []*c1typ
	funcs              []*c1fn
	globals            []*c1var
	sc                 *c1scope
	fdepth             int
	fc                 *c1fctx
	loops              []*c1loop
	nameCtr            int
	labelCtr           int
	cost               int
	mult               int
	maxCost            int
	feat               map[string]int
	usesSort           bool
	noVars             bool
	inCase, nextIsCase bool
	panicOK            bool // a deliberate fault may still be emitted
	size               int  // statements emitted
	decls              []string
}

func (g *c1gen) f(k string) { g.feat[k]++ }

func (g *c1gen) newName(p string) string {
	g.nameCtr++
	return fmt.Sprintf("%s%d", p, g.nameCtr)
}

// ---------------------------------------------------------------- types

func (g *c1gen) initTypes() {
	g.byName = map[string]*c1typ{}
	add := func(t *c1typ) *c1typ {
		if o, ok := g.byName[t.name]; ok {
			return o
		}
		g.byName[t.name] = t
		return t
	}
	for _, d := range []struct {
		n string
		b int
		s bool
	}{{"int", 64, true}, {"int8", 8, true}, {"int16", 16, true}, {"int32", 32, true}, {"int64", 64, true},
		{"uint", 64, false}, {"uint8", 8, false}, {"uint16", 16, false}, {"uint32", 32, false}, {"uint64", 64, false}} {
		g.basics = append(g.basics, add(&c1typ{k: c1Int, name: d.n, bits: d.b, signed: d.s, printabl: true}))
	}
	g.basics = append(g.basics, add(&c1typ{k: c1Float, name: "float64", printabl: true}))
	g.basics = append(g.basics, add(&c1typ{k: c1String, name: "string", printabl: true}))
	g.basics = append(g.basics, add(&c1typ{k: c1Bool, name: "bool", printabl: true}))
	// two struct types
	fieldNames := []string{"A", "B", "C", "D", "E"}
	nf := 2 + g.r.intn(3)
	s0 := &c1typ{k: c1Struct, name: "S0", printabl: true}
	for i := 0; i < nf; i++ {
		var ft *c1typ
		switch g.r.intn(6) {
		case 0, 1:
			ft = g.T("int")
		case 2:
			ft = g.T("string")
		case 3:
			ft = g.basics[g.r.intn(len(g.basics))]
		case 4:
			ft = g.arrayOf(g.T("int"), 3)
		default:
			ft = g.T("float64")
		}
		if i == 0 {
			ft = g.T("int")
		}
		s0.fields = append(s0.fields, c1field{fieldNames[i], ft})
	}
	add(s0)
	g.structs = append(g.structs, s0)
	s1 := &c1typ{k: c1Struct, name: "S1", printabl: true}
	s1.fields = []c1field{{"X", s0}, {"Y", g.T("int")}, {"Z", g.sliceOf(g.T("int"))}}
	if g.r.bool() {
		s1.fields = append(s1.fields, c1field{"W", g.basics[g.r.intn(len(g.basics))]})
	}
	add(s1)
	g.structs = append(g.structs, s1)
}

func (g *c1gen) T(name string) *c1typ { return g.byName[name] }

func (g *c1gen) intern(t *c1typ) *c1typ {
	if o, ok := g.byName[t.name]; ok {
		return o
	}
	g.byName[t.name] = t
	return t
}

func (g *c1gen) arrayOf(e *c1typ, n int) *c1typ {
	return g.intern(&c1typ{k: c1Array, name: fmt.Sprintf("[%d]%s", n, e.name), elem: e, n: n, printabl: e.printabl})
}
func (g *c1gen) sliceOf(e *c1typ) *c1typ {
	return g.intern(&c1typ{k: c1Slice, name: "[]" + e.name, elem: e, printabl: e.printabl})
}
func (g *c1gen) mapOf(k, e *c1typ) *c1typ {
	return g.intern(&c1typ{k: c1Map, name: "map[" + k.name + "]" + e.name, key: k, elem: e, printabl: e.printabl})
}
func (g *c1gen) ptrOf(e *c1typ) *c1typ {
	return g.intern(&c1typ{k: c1Ptr, name: "*" + e.name, elem: e})
}
func (g *c1gen) funcOf(ps, rs []*c1typ) *c1typ {
	var a, b []string
	for _, p := range ps {
		a = append(a, p.name)
	}
	for _, r := range rs {
		b = append(b, r.name)
	}
	n := "func(" + strings.Join(a, ", ") + ")"
	switch len(b) {
	case 0:
	case 1:
		n += " " + b[0]
	default:
		n += " (" + strings.Join(b, ", ") + ")"
	}
	return g.intern(&c1typ{k: c1Func, name: n, params: ps, results: rs})
}

// randBasic picks a basic type, int most often.
func (g *c1gen) randBasic() *c1typ {
	switch g.r.intn(10) {
	case 0, 1, 2, 3:
		return g.T("int")
	case 4:
		return g.T("string")
	case 5:
		return g.T("bool")
	case 6:
		return g.T("float64")
	default:
		return g.basics[g.r.intn(10)]
	}
}

// randType picks any data type (no funcs).
func (g *c1gen) randType() *c1typ {
	switch g.r.intn(16) {
	case 0:
		return g.structs[0]
	case 1:
		return g.structs[1]
	case 2:
		return g.arrayOf(g.T("int"), 4)
	case 3:
		return g.arrayOf(g.randBasic(), 2+g.r.intn(3))
	case 4:
		return g.sliceOf(g.T("int"))
	case 5:
		return g.sliceOf(g.randBasic())
	case 6:
		return g.mapOf(g.T("string"), g.T("int"))
	case 7:
		if g.r.bool() {
			return g.mapOf(g.T("int"), g.randBasic())
		}
		return g.mapOf(g.T("string"), g.structs[0])
	case 8:
		return g.ptrOf(g.T("int"))
	case 9:
		return g.ptrOf(g.structs[0])
	case 10:
		return g.sliceOf(g.structs[0])
	case 11:
		return g.arrayOf(g.structs[0], 2)
	default:
		return g.randBasic()
	}
}

// ---------------------------------------------------------------- scopes

func (g *c1gen) push() { g.sc = &c1scope{parent: g.sc} }
func (g *c1gen) pop()  { g.sc = g.sc.parent }

func (g *c1gen) declare(v *c1var) *c1var {
	v.fdepth = g.fdepth
	if v.t.k == c1Slice {
		v.minLen = 3
	}
	g.sc.vars = append(g.sc.vars, v)
	return v
}

// visible returns the variables visible now (innermost first, shadowed ones removed), then globals.
func (g *c1gen) visible() []*c1var {
	if g.noVars {
		return nil
	}
	seen := map[string]bool{}
	var out []*c1var
	for s := g.sc; s != nil; s = s.parent {
		for i := len(s.vars) - 1; i >= 0; i-- {
			v := s.vars[i]
			if seen[v.name] {
				continue
			}
			seen[v.name] = true
			out = append(out, v)
		}
	}
	for _, v := range g.globals {
		if !seen[v.name] {
			seen[v.name] = true
			out = append(out, v)
		}
	}
	return out
}

func (g *c1gen) readable(v *c1var, c c1ectx) bool {
	if c.noShared && v.shared {
		return false
	}
	if v.noCapture && v.fdepth != g.fdepth {
		return false
	}
	return true
}

func (g *c1gen) varsOf(t *c1typ, c c1ectx, pred func(*c1var) bool) []*c1var {
	var out []*c1var
	for _, v := range g.visible() {
		if v.t == t && g.readable(v, c) && (pred == nil || pred(v)) {
			out = append(out, v)
		}
	}
	return out
}

func (g *c1gen) pickVar(t *c1typ, c c1ectx, pred func(*c1var) bool) *c1var {
	vs := g.varsOf(t, c, pred)
	if len(vs) == 0 {
		return nil
	}
	// prefer recent variables
	i := g.r.intn(len(vs))
	if j := g.r.intn(len(vs)); j < i {
		i = j
	}
	vs[i].used = true
	return vs[i]
}

// writable: a variable generated statements may assign in the current function context.
func (g *c1gen) writable(v *c1var) bool {
	if v.ro || v.fn != nil {
		return false
	}
	if v.fdepth != g.fdepth || g.isGlobal(v) {
		// captured or global: only shared variables may be written from here, and only by effectful code
		return v.shared && g.fc != nil && g.fc.eff
	}
	return true
}

func (g *c1gen) isGlobal(v *c1var) bool {
	for _, x := range g.globals {
		if x == v {
			return true
		}
	}
	return false
}

// ---------------------------------------------------------------- literals

func (g *c1gen) intLit(t *c1typ) string {
	var lo, hi int64
	if t.signed {
		hi = int64(1)<<(uint(t.bits)-1) - 1
		lo = -hi - 1
	} else {
		lo = 0
		if t.bits == 64 {
			hi = 1<<63 - 1
		} else {
			hi = int64(1)<<uint(t.bits) - 1
		}
	}
	switch g.r.intn(12) {
	case 0:
		return fmt.Sprint(hi)
	case 1:
		if lo < 0 {
			return fmt.Sprint(lo + 1) // not the minimum itself: go1.23.5 miscompiles (MinInt64 + x) % 4 for x >= 0
		}
		return "0"
	case 2:
		return fmt.Sprint(hi - int64(g.r.intn(3)))
	case 3:
		v := int64(g.r.intn(1000))
		if v > hi {
			v = hi
		}
		return fmt.Sprint(v)
	default:
		v := int64(g.r.intn(20))
		if t.signed && g.r.chance(25) {
			v = -v
		}
		return fmt.Sprint(v)
	}
}

var c1FloatLits = []string{"0.5", "1.5", "2.25", "-3.75", "10.0", "0.1", "100.125", "-0.25", "3.0", "7.5"}
var c1StrLits = []string{`"a"`, `"bc"`, `"xyz"`, `"hello"`, `"Go"`, `"é"`, `"q-r"`, `"0123"`, `"zz"`, `"K"`}

func (g *c1gen) literal(t *c1typ, c c1ectx) string {
	switch t.k {
	case c1Int:
		return g.intLit(t)
	case c1Float:
		return g.r.pick(c1FloatLits)
	case c1String:
		return g.r.pick(c1StrLits)
	case c1Bool:
		if g.r.bool() {
			return "true"
		}
		return "false"
	case c1Struct:
		var parts []string
		keyed := g.r.bool()
		for _, f := range t.fields {
			e, _ := g.expr(f.t, c1ectx{c.noShared, c.eff, c.depth - 1})
			if keyed {
				parts = append(parts, f.name+": "+e)
			} else {
				parts = append(parts, e)
			}
		}
		return t.name + "{" + strings.Join(parts, ", ") + "}"
	case c1Array:
		var parts []string
		for i := 0; i < t.n; i++ {
			e, _ := g.expr(t.elem, c1ectx{c.noShared, c.eff, c.depth - 1})
			parts = append(parts, e)
		}
		return t.name + "{" + strings.Join(parts, ", ") + "}"
	case c1Slice:
		n := 3 + g.r.intn(3)
		var parts []string
		for i := 0; i < n; i++ {
			e, _ := g.expr(t.elem, c1ectx{c.noShared, c.eff, c.depth - 1})
			parts = append(parts, e)
		}
		return t.name + "{" + strings.Join(parts, ", ") + "}"
	case c1Map:
		n := 1 + g.r.intn(3)
		var parts []string
		for i := 0; i < n; i++ {
			var k string
			if t.key.k == c1String {
				k = fmt.Sprintf("%q", string(rune('a'+i))+string(rune('k'+g.r.intn(5))))
			} else {
				k = fmt.Sprint(i*3 + g.r.intn(3))
			}
			e, _ := g.expr(t.elem, c1ectx{c.noShared, c.eff, c.depth - 1})
			parts = append(parts, k+": "+e)
		}
		return t.name + "{" + strings.Join(parts, ", ") + "}"
	case c1Ptr:
		if t.elem.k == c1Struct {
			return "&" + g.literal(t.elem, c)
		}
		return "new(" + t.elem.name + ")"
	}
	return "nil"
}

// addressable: taking the address of v is harmless for determinism and for the known-defect regions.
func (g *c1gen) addressable(v *c1var) bool {
	return !v.ro && v.fn == nil && v.fdepth == g.fdepth && !g.isGlobal(v) && !v.noCapture
}

// ---------------------------------------------------------------- expressions

// expr returns an expression of type t and whether it is a constant expression.
func (g *c1gen) expr(t *c1typ, c c1ectx) (string, bool) {
	if c.depth <= 0 {
		return g.leaf(t, c)
	}
	d := c
	d.depth--
	switch t.k {
	case c1Int:
		return g.intExpr(t, d)
	case c1Float:
		switch g.r.intn(8) {
		case 0, 1, 2:
			return g.leaf(t, c)
		case 3:
			if it := g.pickVar(g.T("int"), c, nil); it != nil {
				return "float64(" + it.name + ")", false
			}
			return g.leaf(t, c)
		case 4:
			if s, ok := g.call(t, d); ok {
				return s, false
			}
			return g.leaf(t, c)
		case 5:
			a, _ := g.nonConst(t, d)
			return "-" + g.paren(a), false
		default:
			a, _ := g.nonConst(t, d)
			b, _ := g.expr(t, d)
			op := g.r.pick([]string{"+", "-", "*", "/"})
			if g.r.bool() {
				a, b = b, a
				if op == "/" { // keep a possibly-constant zero out of the divisor position
					op = "*"
				}
			}
			return g.paren(a) + " " + op + " " + g.paren(b), false
		}
	case c1String:
		switch g.r.intn(8) {
		case 0, 1, 2:
			return g.leaf(t, c)
		case 3:
			if s, ok := g.call(t, d); ok {
				return s, false
			}
			return g.leaf(t, c)
		case 4:
			if it := g.pickVar(g.T("int"), c, nil); it != nil {
				return "string(rune(65 + uint(" + it.name + ")%26))", false
			}
			return g.leaf(t, c)
		case 5:
			if v := g.pickVar(t, c, func(v *c1var) bool { return v.ro && v.minLen >= 2 }); v != nil {
				return v.name + g.r.pick([]string{"[0:1]", "[1:2]", "[0:2]", "[1:]", "[:2]"}), false
			}
			return g.leaf(t, c)
		default:
			// one operand of a concatenation is of bounded length, so strings grow linearly at most
			a, _ := g.nonConst(t, d)
			b := g.boundedStr(c)
			if g.r.bool() {
				a, b = b, a
			}
			return a + " + " + b, false
		}
	case c1Bool:
		return g.boolExpr(d)
	case c1Struct:
		switch g.r.intn(5) {
		case 0:
			if s, ok := g.call(t, d); ok {
				return s, false
			}
		case 1:
			// element / field / pointee of that struct type
			if s, ok := g.access(t, d); ok {
				return s, false
			}
		case 2:
			return g.literal(t, d), false
		}
		return g.leaf(t, c)
	case c1Slice:
		switch g.r.intn(6) {
		case 1:
			if s, ok := g.call(t, d); ok {
				return s, false
			}
		case 2:
			return g.literal(t, d), false
		}
		return g.leaf(t, c)
	case c1Array, c1Map, c1Ptr:
		if g.r.chance(30) {
			return g.literal(t, d), false
		}
		if g.r.chance(15) {
			if s, ok := g.call(t, d); ok {
				return s, false
			}
		}
		return g.leaf(t, c)
	}
	return g.leaf(t, c)
}

// boundedStr: a string expression whose length does not depend on assignable variables.
func (g *c1gen) boundedStr(c c1ectx) string {
	if g.r.chance(30) {
		if v := g.pickVar(g.T("string"), c, func(v *c1var) bool { return v.ro }); v != nil {
			return v.name
		}
	}
	if g.r.chance(30) {
		if it := g.pickVar(g.T("int"), c, nil); it != nil {
			return "string(rune(65 + uint(" + it.name + ")%26))"
		}
	}
	return g.r.pick(c1StrLits)
}

func (g *c1gen) paren(s string) string {
	if strings.HasPrefix(s, "\"") && strings.HasSuffix(s, "\"") && strings.Count(s, "\"") == 2 {
		return s // a parenthesised literal operand breaks yaegi's branch wiring (region paren-literal)
	}
	if strings.ContainsAny(s, " -+^!*&") {
		return "(" + s + ")"
	}
	return s
}

// leaf: a variable of type t if one is readable, else a literal.
func (g *c1gen) leaf(t *c1typ, c c1ectx) (string, bool) {
	if g.r.chance(70) || t.k == c1Func {
		if v := g.pickVar(t, c, nil); v != nil {
			return v.name, false
		}
	}
	if t.k == c1Struct || t.k == c1Array || t.k == c1Slice || t.k == c1Map || t.k == c1Ptr {
		if v := g.pickVar(t, c, nil); v != nil && g.r.chance(60) {
			return v.name, false
		}
		return g.literal(t, c1ectx{c.noShared, c.eff, 0}), false
	}
	return g.literal(t, c), true
}

// nonConst returns a non-constant expression of a basic type t.
func (g *c1gen) nonConst(t *c1typ, c c1ectx) (string, bool) {
	for try := 0; try < 3; try++ {
		s, k := g.expr(t, c)
		if !k {
			return s, false
		}
	}
	if v := g.pickVar(t, c, nil); v != nil {
		return v.name, false
	}
	// no variable of that type: derive one from another variable
	switch t.k {
	case c1Int:
		for _, o := range []string{"int", "uint8", "int64", "uint", "int8", "int16", "int32", "uint16", "uint32", "uint64"} {
			if v := g.pickVar(g.T(o), c, nil); v != nil {
				return t.name + "(" + v.name + ")", false
			}
		}
	case c1Float:
		if v := g.pickVar(g.T("int"), c, nil); v != nil {
			return "float64(" + v.name + ")", false
		}
	case c1String:
		if v := g.pickVar(g.T("int"), c, nil); v != nil {
			return "string(rune(97 + uint(" + v.name + ")%26))", false
		}
	case c1Bool:
		if v := g.pickVar(g.T("int"), c, nil); v != nil {
			return "(" + v.name + " > " + fmt.Sprint(g.r.intn(5)) + ")", false
		}
	}
	s, k := g.leaf(t, c)
	return s, k
}

func (g *c1gen) intExpr(t *c1typ, d c1ectx) (string, bool) {
	up := d
	up.depth++
	switch g.r.intn(20) {
	case 0, 1, 2, 3:
		return g.leaf(t, up)
	case 4:
		if s, ok := g.call(t, d); ok {
			return s, false
		}
		return g.leaf(t, up)
	case 5:
		if s, ok := g.access(t, d); ok {
			return s, false
		}
		return g.leaf(t, up)
	case 6:
		// conversion from another integer kind
		o := g.basics[g.r.intn(10)]
		if o != t {
			a, _ := g.nonConst(o, d)
			return t.name + "(" + a + ")", false
		}
		return g.leaf(t, up)
	case 7:
		if t.name == "int" {
			// len of something
			for _, v := range g.visible() {
				if (v.t.k == c1Slice || v.t.k == c1String || v.t.k == c1Map) && g.readable(v, d) && g.r.chance(50) {
					return "len(" + v.name + ")", false
				}
			}
		}
		return g.leaf(t, up)
	case 8:
		a, _ := g.nonConst(t, d)
		op := g.r.pick([]string{"-", "^", "+"})
		return op + g.paren(a), false
	case 9, 10:
		// division / remainder by a non-zero divisor
		a, _ := g.nonConst(t, d)
		op := g.r.pick([]string{"/", "%"})
		if g.r.bool() {
			lit := 1 + g.r.intn(7)
			return g.paren(a) + " " + op + " " + fmt.Sprint(lit), false
		}
		b, _ := g.nonConst(t, d)
		return g.paren(a) + " " + op + " (" + g.paren(b) + " | 1)", false
	case 11:
		// shifts with a masked, non-negative count
		a, _ := g.nonConst(t, d)
		op := g.r.pick([]string{"<<", ">>"})
		if g.r.bool() {
			return g.paren(a) + " " + op + " " + fmt.Sprint(g.r.intn(t.bits)), false
		}
		// the count is a variable (converted or not): nested constants in the count are mistyped by yaegi
		// when the shift is the source of an assignment (region shift-count-const)
		ct := g.basics[g.r.intn(10)]
		if cv := g.pickVar(ct, d, nil); cv != nil {
			return g.paren(a) + " " + op + " (" + cv.name + " & 7)", false
		}
		return g.paren(a) + " " + op + " " + fmt.Sprint(g.r.intn(8)), false
	default:
		a, _ := g.nonConst(t, d)
		b, _ := g.expr(t, d)
		op := g.r.pick([]string{"+", "-", "*", "&", "|", "^", "&^", "+", "-", "*"})
		if g.r.bool() {
			a, b = b, a
		}
		return g.paren(a) + " " + op + " " + g.paren(b), false
	}
}

func (g *c1gen) boolExpr(d c1ectx) (string, bool) {
	t := g.T("bool")
	up := d
	up.depth++
	switch g.r.intn(12) {
	case 0, 1:
		return g.leaf(t, up)
	case 2:
		a, _ := g.nonConst(t, d)
		return "!" + g.paren(a), false
	case 3, 4:
		// && / ||: operands are ordered by the language. The left operand is never a bare shared
		// variable while the right one calls (yaegi re-reads it: region land-reread, kept out).
		a, _ := g.nonConst(t, d)
		b, _ := g.nonConst(t, d)
		op := g.r.pick([]string{"&&", "||"})
		if strings.Contains(a, ": ") {
			// a keyed composite literal inside the left operand breaks yaegi's branch wiring (region land-keyed-literal)
			a, b = b, a
			if strings.Contains(a, ": ") {
				it := g.T("int")
				x, _ := g.nonConst(it, c1ectx{d.noShared, false, 0})
				a = x + " " + g.r.pick([]string{"<", ">=", "!="}) + " " + g.intLit(it)
			}
		}
		if ea, err := parser.ParseExpr(a); err == nil && c1VarLike(ea) {
			if eb, err := parser.ParseExpr(b); err != nil || c1HasCall(eb) {
				a = "(" + a + " == " + g.r.pick([]string{"true", "false"}) + ")"
			}
		}
		return g.paren(a) + " " + op + " " + g.paren(b), false
	case 5:
		if s, ok := g.call(t, d); ok {
			return s, false
		}
		return g.leaf(t, up)
	case 6:
		st := g.T("string")
		a, _ := g.nonConst(st, d)
		b, _ := g.expr(st, d)
		return g.paren(a) + " " + g.r.pick([]string{"==", "!=", "<", ">="}) + " " + g.paren(b), false
	case 7:
		ft := g.T("float64")
		a, _ := g.nonConst(ft, d)
		b, _ := g.expr(ft, d)
		return g.paren(a) + " " + g.r.pick([]string{"<", ">", "<=", "!="}) + " " + g.paren(b), false
	default:
		it := g.T("int")
		if g.r.chance(30) {
			it = g.basics[g.r.intn(10)]
		}
		a, _ := g.nonConst(it, d)
		b, _ := g.expr(it, d)
		if g.r.bool() {
			a, b = b, a
		}
		return g.paren(a) + " " + g.r.pick([]string{"==", "!=", "<", "<=", ">", ">="}) + " " + g.paren(b), false
	}
}

// index returns an in-range index expression for a length-n container.
func (g *c1gen) index(n int, c c1ectx) string {
	if n <= 0 {
		return "0"
	}
	if g.r.chance(40) {
		return fmt.Sprint(g.r.intn(n))
	}
	d := c
	if d.depth > 1 {
		d.depth = 1
	}
	e, k := g.nonConst(g.T("int"), d)
	if k {
		return fmt.Sprint(g.r.intn(n))
	}
	if n&(n-1) == 0 && g.r.bool() {
		return g.paren(e) + " & " + fmt.Sprint(n-1)
	}
	return "uint(" + e + ") % " + fmt.Sprint(n)
}

// access: an element / field / pointee / map entry of type t reachable from a visible variable.
func (g *c1gen) access(t *c1typ, c c1ectx) (string, bool) {
	vs := g.visible()
	start := g.r.intn(len(vs) + 1)
	for i := 0; i < len(vs); i++ {
		v := vs[(start+i)%len(vs)]
		if !g.readable(v, c) || v.fn != nil {
			continue
		}
		if p, ok := g.pathTo(v.name, v.t, v.minLen, t, c, 2, false); ok {
			v.used = true
			return p, true
		}
	}
	return "", false
}

// pathTo extends the expression base (of type bt) by selectors / indices to reach type t.
// lval: the result must be assignable (no map-of-struct field, no string index).
func (g *c1gen) pathTo(base string, bt *c1typ, minLen int, t *c1typ, c c1ectx, depth int, lval bool) (string, bool) {
	if depth == 0 {
		return "", false
	}
	if c.noShared && (bt.k == c1Slice || bt.k == c1Map || bt.k == c1Ptr) {
		return "", false
	}
	switch bt.k {
	case c1Struct:
		off := g.r.intn(len(bt.fields))
		for i := range bt.fields {
			f := bt.fields[(i+off)%len(bt.fields)]
			if f.t == t {
				return base + "." + f.name, true
			}
			if p, ok := g.pathTo(base+"."+f.name, f.t, g.fieldMinLen(f.t), t, c, depth-1, lval); ok {
				return p, true
			}
		}
	case c1Array:
		e := base + "[" + g.index(bt.n, c) + "]"
		if bt.elem == t {
			return e, true
		}
		return g.pathTo(e, bt.elem, 0, t, c, depth-1, lval)
	case c1Slice:
		if minLen <= 0 {
			return "", false
		}
		e := base + "[" + g.index(minLen, c) + "]"
		if bt.elem == t {
			return e, true
		}
		return g.pathTo(e, bt.elem, 0, t, c, depth-1, lval)
	case c1Map:
		var k string
		if bt.key.k == c1String {
			k = fmt.Sprintf("%q", string(rune('a'+g.r.intn(3)))+string(rune('k'+g.r.intn(5))))
		} else {
			k = fmt.Sprint(g.r.intn(9))
		}
		e := base + "[" + k + "]"
		if bt.elem == t {
			return e, true
		}
		if lval {
			return "", false
		}
		return g.pathTo(e, bt.elem, 0, t, c, depth-1, lval)
	case c1Ptr:
		if bt.elem == t {
			return "*" + base, true
		}
		if bt.elem.k == c1Struct {
			return g.pathTo(base, bt.elem, 0, t, c, depth, lval) // p.F
		}
	case c1String:
		if !lval && t.name == "uint8" && minLen > 0 {
			return base + "[" + g.index(minLen, c) + "]", true
		}
	}
	return "", false
}

// struct fields of slice type always hold at least 3 elements (all literals do).
func (g *c1gen) fieldMinLen(t *c1typ) int {
	if t.k == c1Slice {
		return 3
	}
	return 0
}

// call: a call of a known function or closure with one result of type t.
func (g *c1gen) call(t *c1typ, c c1ectx) (string, bool) {
	type cand struct {
		name string
		fn   *c1fn
	}
	var cs []cand
	for _, f := range g.funcs {
		if len(f.results) == 1 && f.results[0] == t && (c.eff || !f.eff) && (g.fc == nil || !g.fc.inLit || !f.eff || g.fc.eff) {
			cs = append(cs, cand{f.name, f})
		}
	}
	for _, v := range g.visible() {
		if v.fn != nil && len(v.fn.results) == 1 && v.fn.results[0] == t && (c.eff || !v.fn.eff) && g.readable(v, c) && v.fdepth == g.fdepth {
			cs = append(cs, cand{v.name, v.fn})
		}
	}
	if g.fc != nil && !g.fc.eff {
		// pure code only calls pure functions
		var p []cand
		for _, x := range cs {
			if !x.fn.eff {
				p = append(p, x)
			}
		}
		cs = p
	}
	if len(cs) == 0 {
		return "", false
	}
	x := cs[g.r.intn(len(cs))]
	if g.cost+g.mult*x.fn.cost > g.maxCost {
		return "", false
	}
	g.cost += g.mult * x.fn.cost
	g.f("call")
	return x.name + "(" + g.args(x.fn, c) + ")", true
}

func (g *c1gen) args(fn *c1fn, c c1ectx) string {
	var as []string
	d := c
	if d.depth > 1 {
		d.depth = 1
	}
	for i, p := range fn.params {
		if fn.rec && i == 0 {
			as = append(as, fmt.Sprint(1+g.r.intn(3)))
			continue
		}
		e, _ := g.expr(p, d)
		as = append(as, e)
	}
	return strings.Join(as, ", ")
}
