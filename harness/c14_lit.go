package main

import (
	"fmt"
	"go/constant"
	"go/token"
	"strings"
)

// C14, literal stream: the model decides "the literal has exactly the constant's value" with its own
// parser (coq/Bind/Literal.v).  Seeded literals in every form Go knows are read by
// constant.MakeFromLiteral (what the compiled tables call at init) and by the model; the cases file
// cases_lit.v lists the exact values, coqc reports the ids on which the model's parser disagrees.

type c14lit struct {
	ID   int
	Tok  string
	Text string
	Obs  string // coq term of type lit_obs
	Kind string
}

const c14LitBase = 3000000

func c14Digits(r *rng, alphabet string, n int, sep bool) string {
	var b strings.Builder
	for i := 0; i < n; i++ {
		if sep && i > 0 && r.chance(15) {
			b.WriteByte('_')
		}
		b.WriteByte(alphabet[r.intn(len(alphabet))])
	}
	return b.String()
}

func c14DecNoLeadingZero(r *rng, n int, sep bool) string {
	if n <= 1 {
		return string("0123456789"[r.intn(10)])
	}
	return string("123456789"[r.intn(9)]) + func() string {
		s := c14Digits(r, "0123456789", n-1, sep)
		if sep && r.chance(15) {
			return "_" + s
		}
		return s
	}()
}

func c14Sign(r *rng) string {
	switch r.intn(10) {
	case 0:
		return "-"
	case 1:
		return "+"
	}
	return ""
}

func c14Exp(r *rng, letter string, max int) string {
	if r.bool() {
		letter = strings.ToUpper(letter)
	}
	return letter + []string{"", "+", "-"}[r.intn(3)] + fmt.Sprint(r.intn(max))
}

var c14Runes = []string{"é", "世", "ß", "€", "😀", "ÿ", "ā"}

func c14Escape(r *rng, quote byte) string {
	switch r.intn(9) {
	case 0:
		return `\n`
	case 1:
		return `\t`
	case 2:
		return `\\`
	case 3:
		return `\` + string(quote)
	case 4:
		return fmt.Sprintf(`\x%02x`, r.intn(256))
	case 5:
		return fmt.Sprintf(`\%03o`, r.intn(256))
	case 6:
		return fmt.Sprintf(`\u%04x`, []int{0xe9, 0x4e16, 0x20ac, 0x7f, 0xd7ff, 0xe000}[r.intn(6)])
	case 7:
		return fmt.Sprintf(`\U%08x`, []int{0x1f600, 0x10ffff, 0x41, 0x10000}[r.intn(4)])
	}
	return []string{`\a`, `\b`, `\f`, `\r`, `\v`}[r.intn(5)]
}

func c14GenLiteral(r *rng) (tok, text, kind string) {
	const dec, hex, oct, bin = "0123456789", "0123456789abcdefABCDEF", "01234567", "01"
	switch r.intn(16) {
	case 0, 1:
		return "INT", c14Sign(r) + c14DecNoLeadingZero(r, 1+r.intn(40), r.chance(30)), "int-decimal"
	case 2:
		p := []string{"0x", "0X"}[r.intn(2)]
		if r.chance(10) {
			p += "_"
		}
		return "INT", c14Sign(r) + p + c14Digits(r, hex, 1+r.intn(30), r.chance(30)), "int-hex"
	case 3:
		if r.bool() {
			return "INT", c14Sign(r) + "0" + c14Digits(r, oct, 1+r.intn(20), r.chance(30)), "int-octal-legacy"
		}
		return "INT", c14Sign(r) + []string{"0o", "0O"}[r.intn(2)] + c14Digits(r, oct, 1+r.intn(20), r.chance(30)), "int-octal"
	case 4:
		return "INT", c14Sign(r) + []string{"0b", "0B"}[r.intn(2)] + c14Digits(r, bin, 1+r.intn(60), r.chance(30)), "int-binary"
	case 5, 6:
		a, b := c14Digits(r, dec, r.intn(20), r.chance(20)), c14Digits(r, dec, r.intn(40), r.chance(20))
		if a == "" && b == "" {
			a = "7"
		}
		t := a + "." + b
		if r.chance(50) {
			t += c14Exp(r, "e", 400)
		}
		return "FLOAT", c14Sign(r) + t, "float-decimal"
	case 7:
		return "FLOAT", c14Sign(r) + c14DecNoLeadingZero(r, 1+r.intn(25), false) + c14Exp(r, "e", 400), "float-exponent"
	case 8:
		t := "0x" + c14Digits(r, hex, 1+r.intn(16), r.chance(20))
		if r.bool() {
			t += "." + c14Digits(r, hex, r.intn(16), false)
		}
		return "FLOAT", c14Sign(r) + t + c14Exp(r, "p", 1000), "float-hex"
	case 9:
		switch r.intn(5) {
		case 0:
			return "FLOAT", c14DecNoLeadingZero(r, 1+r.intn(30), false), "float-integer"
		case 1:
			return "FLOAT", "0" + c14Digits(r, dec, 1+r.intn(10), false), "float-leading-zero"
		case 2:
			return "FLOAT", "0x" + c14Digits(r, hex, 1+r.intn(10), false), "float-hex-integer"
		case 3:
			return "FLOAT", "0b" + c14Digits(r, bin, 1+r.intn(20), false), "float-binary-integer"
		}
		return "FLOAT", "0o" + c14Digits(r, oct, 1+r.intn(10), false), "float-octal-integer"
	case 10:
		switch r.intn(3) {
		case 0:
			c := byte(32 + r.intn(95))
			for c == '\'' || c == '\\' {
				c = byte(32 + r.intn(95))
			}
			return "CHAR", "'" + string(c) + "'", "char-ascii"
		case 1:
			return "CHAR", "'" + c14Runes[r.intn(len(c14Runes))] + "'", "char-utf8"
		}
		return "CHAR", "'" + c14Escape(r, '\'') + "'", "char-escape"
	case 11, 12:
		var b strings.Builder
		b.WriteByte('"')
		for i, n := 0, r.intn(12); i < n; i++ {
			switch r.intn(4) {
			case 0:
				b.WriteString(c14Escape(r, '"'))
			case 1:
				b.WriteString(c14Runes[r.intn(len(c14Runes))])
			default:
				c := byte(32 + r.intn(95))
				for c == '"' || c == '\\' {
					c = byte(32 + r.intn(95))
				}
				b.WriteByte(c)
			}
		}
		b.WriteByte('"')
		return "STRING", b.String(), "string-interpreted"
	case 13:
		var b strings.Builder
		b.WriteByte('`')
		for i, n := 0, r.intn(12); i < n; i++ {
			switch r.intn(6) {
			case 0:
				b.WriteString(`\n`)
			case 1:
				b.WriteString("\n")
			case 2:
				b.WriteString(c14Runes[r.intn(len(c14Runes))])
			case 3:
				b.WriteString("\r")
			default:
				c := byte(32 + r.intn(95))
				for c == '`' {
					c = byte(32 + r.intn(95))
				}
				b.WriteByte(c)
			}
		}
		b.WriteByte('`')
		return "STRING", b.String(), "string-raw"
	}
	// not literals
	bad := [][2]string{
		{"INT", ""}, {"INT", "0x"}, {"INT", "abc"}, {"INT", "08"}, {"INT", "1.5"}, {"INT", "1e3"}, {"INT", "0b102"}, {"INT", "0o8"},
		{"INT", "12a"}, {"INT", "-"}, {"INT", "0x1p4"}, {"INT", "1 2"},
		{"FLOAT", ""}, {"FLOAT", "1e"}, {"FLOAT", "1e+"}, {"FLOAT", "1.2.3"}, {"FLOAT", "."}, {"FLOAT", "0x1.8"}, {"FLOAT", "e5"},
		{"FLOAT", "1.5f"}, {"FLOAT", "0x.p1"}, {"FLOAT", "1p3"},
		{"CHAR", "''"}, {"CHAR", "'"}, {"CHAR", `'\q'`}, {"CHAR", `'\x4'`}, {"CHAR", `'\ud800'`}, {"CHAR", `'\U00110000'`}, {"CHAR", `'\400'`},
		{"STRING", `"abc`}, {"STRING", `abc"`}, {"STRING", `"\q"`}, {"STRING", `"a"b"`}, {"STRING", "\"a\nb\""}, {"STRING", "`a"}, {"STRING", `"\xZ1"`},
		{"STRING", `"\'"`}, {"STRING", ""},
	}
	p := bad[r.intn(len(bad))]
	return p[0], p[1], "not-a-literal"
}

func c14LitStream(seed uint64, n int, sm *summary) []c14lit {
	r := newRng(seed ^ 0xC14)
	toks := map[string]token.Token{"INT": token.INT, "FLOAT": token.FLOAT, "CHAR": token.CHAR, "STRING": token.STRING}
	var out []c14lit
	seen := map[string]bool{}
	for i := 0; i < n; i++ {
		tok, text, kind := c14GenLiteral(r)
		if seen[tok+"\x00"+text] {
			continue
		}
		seen[tok+"\x00"+text] = true
		c := constant.MakeFromLiteral(text, toks[tok], 0)
		obs := "LUnknown"
		switch c.Kind() {
		case constant.Int, constant.Float:
			if nn, d, ok := ratOf(c); ok {
				obs = fmt.Sprintf("(LNum %s %s)", bindZ(nn), bindZ(d))
			} else {
				continue
			}
		case constant.String:
			obs = "(LStr " + bindStrLit(constant.StringVal(c)) + ")"
		}
		l := c14lit{ID: c14LitBase + len(out) + 1, Tok: tok, Text: text, Obs: obs, Kind: kind}
		out = append(out, l)
		sm.Evaluations++
		sm.ImplComparisons++
		sm.count("literal:" + kind)
		sm.CaseIndex[fmt.Sprint(l.ID)] = map[string]any{"literal": text, "token": tok, "go/constant": c.ExactString()}
	}
	return out
}

func c14LitCasesFile(ls []c14lit) string {
	var b strings.Builder
	b.WriteString("From Verif Require Import Lib.Str Bind.Literal Bind.Model Bind.LitCases.\nOpen Scope Z_scope.\n")
	b.WriteString("Definition cases : list lit_case := [\n")
	for i, l := range ls {
		if i > 0 {
			b.WriteString(";\n")
		}
		fmt.Fprintf(&b, "  (%d%%N, %s, %s, %s)", l.ID, bindTok(l.Tok), bindStrLit(l.Text), l.Obs)
	}
	b.WriteString("].\nDefinition MY := Eval vm_compute in lit_mis_y cases.\nPrint MY.\nDefinition MG : list N := [].\nPrint MG.\n")
	return b.String()
}
