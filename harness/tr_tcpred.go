package main

import (
	"flag"
	"fmt"
	"go/ast"
	"go/parser"
	"go/token"
	"path/filepath"
	"sort"
	"strings"
)

// tr-tcpred: regenerates coq/gen/OpPred_gen.v from
//   interp/typecheck.go  unaryOpPredicates, binaryOpPredicates (action -> predicate expression)
//   interp/type.go       isInt isUint isFloat isComplex isNumber isBoolean isString isConstantValue
// Data only. Anything the translator cannot render in the vocabulary of coq/Tc/Pred.v is an error
// (the table changed shape): the check then reports the translator failure.

func init() {
	register("tr-tcpred", "translator: operator predicate tables of interp/typecheck.go and kind helpers of interp/type.go -> OpPred_gen.v", trTcpred)
}

var tcpredNames = map[string]string{"isNumber": "PIsNumber", "isInt": "PIsInt", "isUint": "PIsUint", "isFloat": "PIsFloat", "isComplex": "PIsComplex",
	"isBoolean": "PIsBoolean", "isString": "PIsString", "isConstantValue": "PIsConstantValue"}

var tcpredActions = map[string]string{"aInc": "AInc", "aDec": "ADec", "aPos": "APos", "aNeg": "ANeg", "aBitNot": "ABitNot", "aNot": "ANot",
	"aAdd": "AAdd", "aSub": "ASub", "aMul": "AMul", "aQuo": "AQuo", "aRem": "ARem", "aAnd": "AAnd", "aOr": "AOr", "aXor": "AXor", "aAndNot": "AAndNot",
	"aLand": "ALand", "aLor": "ALor"}

func tcpredKind(e ast.Expr) (string, error) {
	s, ok := e.(*ast.SelectorExpr)
	if !ok {
		return "", fmt.Errorf("kind expression %T", e)
	}
	if x, ok := s.X.(*ast.Ident); !ok || x.Name != "reflect" {
		return "", fmt.Errorf("kind expression not reflect.X")
	}
	switch s.Sel.Name {
	case "Bool", "Int", "Int8", "Int16", "Int32", "Int64", "Uint", "Uint8", "Uint16", "Uint32", "Uint64", "Uintptr", "Float32", "Float64",
		"Complex64", "Complex128", "Array", "Chan", "Func", "Interface", "Map", "Ptr", "Slice", "String", "Struct", "UnsafePointer":
		return "R" + s.Sel.Name, nil
	case "Pointer":
		return "RPtr", nil
	}
	return "", fmt.Errorf("unknown reflect kind %s", s.Sel.Name)
}

// predicate expression used as a table value: an identifier or func(typ) bool { return a(typ) || b(typ) }
func tcpredExpr(e ast.Expr) (string, error) {
	switch x := e.(type) {
	case *ast.Ident:
		if n, ok := tcpredNames[x.Name]; ok {
			return "(PName " + n + ")", nil
		}
		return "", fmt.Errorf("unknown predicate %s", x.Name)
	case *ast.FuncLit:
		if len(x.Body.List) != 1 {
			return "", fmt.Errorf("predicate literal with %d statements", len(x.Body.List))
		}
		ret, ok := x.Body.List[0].(*ast.ReturnStmt)
		if !ok || len(ret.Results) != 1 {
			return "", fmt.Errorf("predicate literal is not a single return")
		}
		return tcpredBool(ret.Results[0])
	}
	return "", fmt.Errorf("predicate expression %T", e)
}

func tcpredBool(e ast.Expr) (string, error) {
	switch x := e.(type) {
	case *ast.ParenExpr:
		return tcpredBool(x.X)
	case *ast.BinaryExpr:
		if x.Op != token.LOR {
			return "", fmt.Errorf("operator %s in predicate", x.Op)
		}
		a, err := tcpredBool(x.X)
		if err != nil {
			return "", err
		}
		b, err := tcpredBool(x.Y)
		if err != nil {
			return "", err
		}
		return "(POr " + a + " " + b + ")", nil
	case *ast.CallExpr:
		if id, ok := x.Fun.(*ast.Ident); ok && len(x.Args) == 1 {
			if n, ok := tcpredNames[id.Name]; ok {
				return "(PName " + n + ")", nil
			}
		}
	}
	return "", fmt.Errorf("cannot render predicate body %T", e)
}

func tcpredTable(f *ast.File, name string) ([]string, error) {
	var rows []string
	found := false
	var ferr error
	ast.Inspect(f, func(n ast.Node) bool {
		vs, ok := n.(*ast.ValueSpec)
		if !ok || len(vs.Names) != 1 || vs.Names[0].Name != name || len(vs.Values) != 1 {
			return true
		}
		cl, ok := vs.Values[0].(*ast.CompositeLit)
		if !ok {
			return true
		}
		found = true
		for _, el := range cl.Elts {
			kv, ok := el.(*ast.KeyValueExpr)
			if !ok {
				ferr = fmt.Errorf("%s: element is not key: value", name)
				return false
			}
			k, ok := kv.Key.(*ast.Ident)
			if !ok || tcpredActions[k.Name] == "" {
				ferr = fmt.Errorf("%s: unknown action key", name)
				return false
			}
			p, err := tcpredExpr(kv.Value)
			if err != nil {
				ferr = fmt.Errorf("%s[%s]: %v", name, k.Name, err)
				return false
			}
			rows = append(rows, "("+tcpredActions[k.Name]+", "+p+")")
		}
		return false
	})
	if ferr != nil {
		return nil, ferr
	}
	if !found {
		return nil, fmt.Errorf("table %s not found", name)
	}
	sort.Strings(rows)
	return rows, nil
}

// a helper func isX(t reflect.Type) bool in one of the three shapes of type.go
func tcpredHelper(fd *ast.FuncDecl) (string, error) {
	var kinds []string
	var names []string
	iface := false
	var ferr error
	ast.Inspect(fd.Body, func(n ast.Node) bool {
		switch x := n.(type) {
		case *ast.CaseClause:
			// only clauses that return true contribute
			retTrue := false
			for _, st := range x.Body {
				if r, ok := st.(*ast.ReturnStmt); ok && len(r.Results) == 1 {
					if id, ok := r.Results[0].(*ast.Ident); ok && id.Name == "true" {
						retTrue = true
					}
				}
			}
			if retTrue {
				for _, e := range x.List {
					k, err := tcpredKind(e)
					if err != nil {
						ferr = err
						return false
					}
					kinds = append(kinds, k)
				}
			}
			return false
		case *ast.BinaryExpr:
			if x.Op == token.EQL {
				// t.Kind() == reflect.X
				if _, isCall := x.X.(*ast.CallExpr); isCall {
					if k, err := tcpredKind(x.Y); err == nil {
						kinds = append(kinds, k)
						return false
					}
				}
			}
		case *ast.CallExpr:
			if id, ok := x.Fun.(*ast.Ident); ok {
				if n, ok := tcpredNames[id.Name]; ok {
					names = append(names, n)
					return false
				}
			}
			if s, ok := x.Fun.(*ast.SelectorExpr); ok && s.Sel.Name == "Implements" {
				iface = true
				return false
			}
		}
		return true
	})
	if ferr != nil {
		return "", ferr
	}
	switch {
	case iface && len(kinds) == 0 && len(names) == 0:
		return "DIface", nil
	case len(names) > 0 && len(kinds) == 0 && !iface:
		return "(DAny [" + strings.Join(names, "; ") + "])", nil
	case len(kinds) > 0 && len(names) == 0 && !iface:
		return "(DKinds [" + strings.Join(kinds, "; ") + "])", nil
	}
	return "", fmt.Errorf("helper %s has a shape the translator does not know", fd.Name.Name)
}

func trTcpred(args []string) error {
	fs := flag.NewFlagSet("tr-tcpred", flag.ExitOnError)
	repo := fs.String("repo", "/repo", "repository root")
	out := fs.String("out", "/verif/coq/gen", "output directory")
	fs.Parse(args)
	fset := token.NewFileSet()
	tc, err := parser.ParseFile(fset, filepath.Join(*repo, "interp", "typecheck.go"), nil, 0)
	if err != nil {
		return err
	}
	ty, err := parser.ParseFile(fset, filepath.Join(*repo, "interp", "type.go"), nil, 0)
	if err != nil {
		return err
	}
	un, err := tcpredTable(tc, "unaryOpPredicates")
	if err != nil {
		return err
	}
	bin, err := tcpredTable(tc, "binaryOpPredicates")
	if err != nil {
		return err
	}
	var defs []string
	for _, name := range []string{"isNumber", "isInt", "isUint", "isFloat", "isComplex", "isBoolean", "isString", "isConstantValue"} {
		var fd *ast.FuncDecl
		for _, d := range ty.Decls {
			if f, ok := d.(*ast.FuncDecl); ok && f.Recv == nil && f.Name.Name == name {
				fd = f
			}
		}
		if fd == nil {
			return fmt.Errorf("helper %s not found in type.go", name)
		}
		d, err := tcpredHelper(fd)
		if err != nil {
			return err
		}
		defs = append(defs, "("+tcpredNames[name]+", "+d+")")
	}
	var b strings.Builder
	b.WriteString("(* generated by vh tr-tcpred from interp/typecheck.go and interp/type.go; do not edit *)\n")
	b.WriteString("From Verif Require Import Tc.Syntax Tc.Pred.\n")
	fmt.Fprintf(&b, "Definition y_unary_preds : list (action * pexpr) :=\n  [%s].\n", strings.Join(un, ";\n   "))
	fmt.Fprintf(&b, "Definition y_binary_preds : list (action * pexpr) :=\n  [%s].\n", strings.Join(bin, ";\n   "))
	fmt.Fprintf(&b, "Definition y_pred_defs : list (pname * pdef) :=\n  [%s].\n", strings.Join(defs, ";\n   "))
	return writeIfChanged(filepath.Join(*out, "OpPred_gen.v"), []byte(b.String()))
}
