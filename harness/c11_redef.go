package main

import (
	"fmt"
	"strings"
	"time"
)

// C11, redefinition observed through function literals (outside the Coq model: the model language has
// no function literals). A session is a list of rounds; round 0 defines some "core" functions, every
// later round REDEFINES a non-empty set of them (and may introduce new ones) in one chunk, in a seeded
// textual order which is independent of the call order. References to a core function are made
// directly, through a local literal, an immediately invoked literal, a deferred literal that updates a
// named result, a literal returned by a literal, and a function value; they occur in the new body of a
// redefined function (another one of the chunk declared before or after it, or the function itself:
// recursion through a literal), in satellites of the round (a literal stored in a package variable, a
// method, a plain function, a function value stored in a package variable) declared in the redefining
// chunk or in a later one, and in the statements that follow.
//
// Expected outcome: the contract "redefining a function replaces that function". No function that
// survives a round refers to a function redefined by it (that is the stale-callee region of the
// history stream), so the session is equivalent to a Go program in which every definition has a name
// of its own (f_1, f_2, ...) and every reference denotes the last definition entered up to the END of
// the chunk that holds the reference. That program is compiled with Go (first reference) and evaluated
// in one piece by yaegi (second reference).

var c11rdCore = []string{"fa", "fb", "fc", "fd"}

type c11rdGen struct {
	r     *rng
	ver   map[string]int      // current version of each defined core function
	refs  map[string][]string // core functions referred to by the current body of each core function
	fresh int
	kinds map[string]int
}

func (g *c11rdGen) k() int { return g.r.intn(7) - 2 }

// ref renders a call of core function y (placeholder @y@) on arg, through one of the reference forms;
// pre: statements to put before the returning statement; named: the function needs the named result r.
func (g *c11rdGen) ref(y, arg string) (pre []string, expr string, deferred string) {
	form := g.r.intn(7)
	g.kinds[[]string{"direct", "local-literal", "invoked-literal", "deferred-literal", "nested-literal", "func-value", "literal-in-slice"}[form]]++
	g.fresh++
	l := fmt.Sprintf("l%d", g.fresh)
	switch form {
	case 0:
		return nil, fmt.Sprintf("@%s@(%s)", y, arg), ""
	case 1:
		return []string{fmt.Sprintf("%s := func(k int) int { return @%s@(k) + %d }", l, y, g.k())}, fmt.Sprintf("%s(%s)", l, arg), ""
	case 2:
		return nil, fmt.Sprintf("func(k int) int { return @%s@(k) * 2 }(%s)", y, arg), ""
	case 3:
		return nil, "0", fmt.Sprintf("defer func() { r += @%s@(%s) }()", y, arg)
	case 4:
		return []string{fmt.Sprintf("%s := func() func(int) int { return func(k int) int { return @%s@(k) } }", l, y)}, fmt.Sprintf("%s()(%s)", l, arg), ""
	case 5:
		return []string{fmt.Sprintf("%s := @%s@", l, y)}, fmt.Sprintf("%s(%s)", l, arg), ""
	default:
		return []string{fmt.Sprintf("%s := []func(int) int{func(k int) int { return @%s@(k) - 1 }}", l, y)}, fmt.Sprintf("%s[0](%s)", l, arg), ""
	}
}

// body of a function of one int parameter n and named result r that refers to the functions ys
// (self = recursion on n-1 under a guard).
func (g *c11rdGen) body(self string, ys []string, recursive bool) []string {
	var lines []string
	terms := []string{fmt.Sprintf("%d*n", 1+g.r.intn(4)), fmt.Sprint(g.k())}
	if recursive {
		lines = append(lines, fmt.Sprintf("if n <= 0 { return %d }", g.k()))
	}
	var defers []string
	for _, y := range ys {
		arg := []string{"n", "n+1", "2"}[g.r.intn(3)]
		if y == self {
			arg = "n-1"
		}
		pre, e, d := g.ref(y, arg)
		lines = append(lines, pre...)
		if d != "" {
			defers = append(defers, d)
		}
		terms = append(terms, e)
	}
	lines = append(lines, defers...)
	lines = append(lines, "return "+strings.Join(terms, " + "))
	return lines
}

type c11rdProg struct {
	Chunks []string // piecewise
	Whole  string   // renamed program
	Redefs int
}

func c11rdRender(s string, ver map[string]int, renamed bool) string {
	for _, x := range c11rdCore {
		if renamed {
			s = strings.ReplaceAll(s, "@"+x+"@", fmt.Sprintf("%s_%d", x, ver[x]))
		} else {
			s = strings.ReplaceAll(s, "@"+x+"@", x)
		}
	}
	return s
}

func (g *c11rdGen) program() c11rdProg {
	var p c11rdProg
	var decls, mainBody []string
	rank := map[string]int{}
	for i, x := range c11rdCore {
		rank[x] = i
	}
	nRounds := 2 + g.r.intn(3)
	for round := 0; round < nRounds; round++ {
		// the set of core functions (re)defined by this round
		set := map[string]bool{}
		if round == 0 {
			for _, x := range c11rdCore {
				if g.r.chance(70) {
					set[x] = true
				}
			}
			set[c11rdCore[len(c11rdCore)-1-g.r.intn(2)]] = true
		} else {
			for _, x := range c11rdCore {
				if g.r.chance(45) {
					set[x] = true
				}
			}
			var defined []string
			for _, x := range c11rdCore {
				if g.ver[x] > 0 {
					defined = append(defined, x)
				}
			}
			set[g.r.pick(defined)] = true
			// no survivor refers to a redefined function
			for changed := true; changed; {
				changed = false
				for x, ys := range g.refs {
					if set[x] {
						continue
					}
					for _, y := range ys {
						if set[y] {
							set[x], changed = true, true
						}
					}
				}
			}
		}
		avail := func(x string) (l []string) { // functions x may refer to: higher rank, defined or being defined
			for _, y := range c11rdCore {
				if rank[y] > rank[x] && (g.ver[y] > 0 || set[y]) {
					l = append(l, y)
				}
			}
			return l
		}
		var names []string
		for _, x := range c11rdCore {
			if set[x] {
				names = append(names, x)
				if g.ver[x] > 0 {
					p.Redefs++
				}
			}
		}
		// seeded textual order
		for i := len(names) - 1; i > 0; i-- {
			j := g.r.intn(i + 1)
			names[i], names[j] = names[j], names[i]
		}
		verAfter := map[string]int{}
		for x, v := range g.ver {
			verAfter[x] = v
		}
		for _, x := range names {
			verAfter[x]++
		}
		type decl struct{ piece, whole string }
		var ds []decl
		addDecl := func(name, params string, lines []string, x string) {
			src := fmt.Sprintf("func %s%s (r int) {\n\t%s\n}", name, params, strings.Join(lines, "\n\t"))
			w := src
			if x != "" {
				w = fmt.Sprintf("func %s_%d%s (r int) {\n\t%s\n}", x, verAfter[x], params, strings.Join(lines, "\n\t"))
			}
			ds = append(ds, decl{c11rdRender(src, verAfter, false), c11rdRender(w, verAfter, true)})
		}
		for _, x := range names {
			var ys []string
			for _, y := range avail(x) {
				if g.r.chance(60) {
					ys = append(ys, y)
				}
			}
			rec := g.r.chance(45)
			if rec {
				ys = append(ys, x)
			}
			g.refs[x] = ys
			addDecl(x, "(n int)", g.body(x, ys, rec), x)
		}
		// satellites of the round
		var all []string
		for _, x := range c11rdCore {
			if g.ver[x] > 0 || set[x] {
				all = append(all, x)
			}
		}
		target := func() string { // prefer a function of the round
			if g.r.chance(75) {
				return g.r.pick(names)
			}
			return g.r.pick(all)
		}
		var sat []decl
		var uses []string
		for _, x := range all {
			uses = append(uses, fmt.Sprintf("@%s@(%d)", x, 1+g.r.intn(4)))
		}
		addSat := func(src string) {
			sat = append(sat, decl{c11rdRender(src, verAfter, false), c11rdRender(src, verAfter, true)})
		}
		if g.r.chance(70) { // literal stored in a package variable
			y := target()
			g.kinds["package-var-literal"]++
			addSat(fmt.Sprintf("var pv%d = func(n int) int { return @%s@(n) + %d }", round, y, g.k()))
			uses = append(uses, fmt.Sprintf("pv%d(%d)", round, 1+g.r.intn(3)))
		}
		if g.r.chance(40) { // function value stored in a package variable
			y := target()
			g.kinds["package-var-func-value"]++
			addSat(fmt.Sprintf("var pw%d = @%s@", round, y))
			uses = append(uses, fmt.Sprintf("pw%d(%d)", round, 1+g.r.intn(3)))
		}
		if g.r.chance(60) { // method
			y := target()
			g.kinds["method"]++
			pre, e, d := g.ref(y, "n")
			lines := append([]string{}, pre...)
			if d != "" {
				lines = append(lines, d)
			}
			lines = append(lines, "return t.w + "+e)
			addSat(fmt.Sprintf("type T%d struct{ w int }", round))
			addSat(fmt.Sprintf("func (t T%d) m(n int) (r int) {\n\t%s\n}", round, strings.Join(lines, "\n\t")))
			uses = append(uses, fmt.Sprintf("T%d{%d}.m(%d)", round, g.k(), 1+g.r.intn(3)))
		}
		if g.r.chance(60) { // plain function of the round
			y := target()
			g.kinds["helper-function"]++
			lines := g.body("", []string{y}, false)
			addSat(fmt.Sprintf("func h%d(n int) (r int) {\n\t%s\n}", round, strings.Join(lines, "\n\t")))
			uses = append(uses, fmt.Sprintf("h%d(%d)", round, 1+g.r.intn(3)))
		}
		// satellites go before / after / between the core declarations of the chunk, or to a later chunk
		var later []decl
		for _, s := range sat {
			switch g.r.intn(3) {
			case 0:
				later = append(later, s)
			case 1:
				ds = append(ds, s)
			default:
				ds = append([]decl{s}, ds...)
			}
		}
		// a method must not precede its type inside the session: types first
		fix := func(l []decl) []decl {
			var ty, rest []decl
			for _, d := range l {
				if strings.HasPrefix(d.piece, "type ") {
					ty = append(ty, d)
				} else {
					rest = append(rest, d)
				}
			}
			return append(ty, rest...)
		}
		var tyLater []decl
		for _, d := range later {
			if strings.HasPrefix(d.piece, "type ") {
				tyLater = append(tyLater, d)
			}
		}
		if len(tyLater) > 0 { // type in the first chunk of the round, whatever the method's chunk
			var l2 []decl
			for _, d := range later {
				if !strings.HasPrefix(d.piece, "type ") {
					l2 = append(l2, d)
				}
			}
			later = l2
			ds = append(tyLater, ds...)
		}
		ds = fix(ds)
		emit := func(l []decl) {
			if len(l) == 0 {
				return
			}
			var ps []string
			for _, d := range l {
				ps = append(ps, d.piece)
				decls = append(decls, d.whole)
			}
			p.Chunks = append(p.Chunks, strings.Join(ps, "\n"))
		}
		emit(ds)
		emit(later)
		g.ver = verAfter
		// statements that use the current definitions, in one or two chunks
		cut := 1 + g.r.intn(len(uses))
		for _, part := range [][]string{uses[:cut], uses[cut:]} {
			if len(part) == 0 {
				continue
			}
			st := fmt.Sprintf("fmt.Println(%q, %s)", fmt.Sprintf("round%d", round), strings.Join(part, ", "))
			p.Chunks = append(p.Chunks, c11rdRender(st, g.ver, false))
			mainBody = append(mainBody, c11rdRender(st, g.ver, true))
		}
	}
	p.Whole = "package main\n\nimport \"fmt\"\n\n" + strings.Join(decls, "\n\n") + "\n\nfunc main() {\n\t" + strings.Join(mainBody, "\n\t") + "\n}\n"
	return p
}

// c11redef runs the stream.
func c11redef(r *rng, n int, sm *summary, distinct distinctSet, id *int) error {
	type job struct {
		prog   c11rdProg
		kind   string
		mode   int
		chunks []string
		res    c11richRun
		ref    string
		whole  *job
	}
	var jobs []*job
	var refs []goProg
	kinds := map[string]int{}
	for k := 0; k < n; k++ {
		g := &c11rdGen{r: r.fork(), ver: map[string]int{}, refs: map[string][]string{}, kinds: kinds}
		p := g.program()
		name := fmt.Sprintf("rd%05d", k)
		refs = append(refs, goProg{Name: name, Files: map[string]string{"main.go": p.Whole}})
		w := &job{prog: p, kind: "whole", mode: c11Eval, chunks: []string{p.Whole}, ref: name}
		jobs = append(jobs, w)
		for _, mode := range []int{c11Eval, c11CompileExecute} {
			jobs = append(jobs, &job{prog: p, kind: "pieces", mode: mode, chunks: p.Chunks, ref: name, whole: w})
		}
	}
	var refRes map[string]outcome
	var refErr error
	done := make(chan struct{})
	go func() {
		refRes, refErr = goRefBatch(refs, 20*time.Second, false)
		close(done)
	}()
	parallelMap(len(jobs), 0, func(k int) {
		j := jobs[k]
		j.res = c11richSession(j.mode, j.chunks, false, j.kind == "pieces", nil)
	})
	<-done
	if refErr != nil {
		return fmt.Errorf("reference build (redefinition through literals): %w", refErr)
	}
	for k, v := range kinds {
		sm.Distribution["redef-reference:"+k] += v
	}
	for _, j := range jobs {
		*id++
		in := map[string]any{"kind": "redef-literals:" + j.kind, "entry": c11modeNames[j.mode], "chunks": j.chunks}
		if j.kind == "pieces" {
			in["renamed_program"] = j.prog.Whole
		}
		sm.CaseIndex[fmt.Sprint(*id)] = in
		sm.Evaluations++
		sm.RefComparisons++
		sm.count("session:redef-literals-" + j.kind + ":" + c11modeNames[j.mode])
		sm.count(fmt.Sprintf("redef-literals:redefinitions:%02d", min(j.prog.Redefs, 8)))
		distinct.add(fmt.Sprint(in))
		ref := refRes[j.ref]
		if ref.End != "ok" {
			return fmt.Errorf("redefinition reference program %s did not run: %+v\n%s", j.ref, ref, j.prog.Whole)
		}
		if j.res.Err != "" || j.res.Stdout != ref.Stdout {
			sm.RefMismatches = append(sm.RefMismatches, refMismatch{ID: *id, Region: "", Input: in, Impl: j.res, Ref: ref.Stdout,
				Note: "reference: compiled Go, every definition under a name of its own (a reference denotes the last definition entered up to the end of its chunk)"})
			continue
		}
		if j.whole != nil {
			sm.RefComparisons++
			if j.res.Stdout != j.whole.res.Stdout {
				sm.RefMismatches = append(sm.RefMismatches, refMismatch{ID: *id, Region: "", Input: in, Impl: j.res, Ref: j.whole.res, Note: "reference: yaegi, renamed program in one Eval"})
			}
		}
	}
	return nil
}
