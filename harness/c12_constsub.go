package main

import "strings"

// The constant-subset dimension of the C12 sweep: compile-time constraints on CONSTANT operands that
// must hold whatever the sibling operands are (constants, variables or calls).
//
//	slice expressions  s[lo:hi], s[lo:hi:max] on {slice, array, pointer to array, string variable,
//	                   string constant}: every index position ranges over {absent (lo only), constants
//	                   -1 1 2 3 7 1.5 2.0, a variable, a call}: every subset of the positions is constant,
//	                   with every pairwise order (lo > hi, hi > max, lo > max with hi not constant),
//	                   negative, out of the constant length, non-integer and float-representable values
//	index expressions  a[i] and m[i][j] on arrays, pointers to arrays, strings, string constants, slices
//	make               make([]T, len), make([]T, len, cap), make(map, n), make(chan, n) over the same values
//	shifts             x << k, x >> k, x <<= k with constant / non-constant x and k
//
// Every line replaces one placeholder statement of func sweep() (c12SweepProgram). go/types decides
// which lines are ill-typed (keys NN-sweep-constsub, judged like every other mutant: rejected before
// the marker of main is printed); the lines it accepts are the well-typed controls: yaegi's static
// passes must accept them (no false rejection).

const c12ConstSubDecl = "\t{\n\t\tcSl, cArr, cStr := []int{0, 1, 2, 3}, [4]int{}, \"abcd\"\n\t\tcPArr, cMat := &cArr, [2][4]int{}\n\t\tsink(cSl, cArr, cStr, cPArr, cMat)\n"
const c12ConstSubHole = "\t\tsink(cSl[1:2:3])\n"
const c12ConstSubEnd = "\t}\n"

var c12ConstVals = []string{"-1", "1", "2", "3", "7", "1.5", "2.0"}

func c12ConstSubLines() (out []c12sweepMutant) {
	add := func(num, stmt string) {
		out = append(out, c12sweepMutant{Key: num + "-sweep-constsub | sweep | " + stmt, Line: stmt})
	}
	vals := func(nonconst ...string) []string {
		return append(append([]string{}, c12ConstVals...), nonconst...)
	}
	// slices, 2 indices: both kinds of non-constant at both positions
	for _, s := range []string{"cSl", "cArr", "cPArr", "cStr", "Greeting"} {
		for _, lo := range append([]string{""}, vals("zInt", "len(zSl)")...) {
			for _, hi := range append([]string{""}, vals("zInt", "len(zSl)")...) {
				if lo == "" && hi == "" {
					continue
				}
				add("28", "sink("+s+"["+lo+":"+hi+"])")
			}
		}
	}
	// slices, 3 indices: a variable at lo, a call at hi, a call at max
	for _, s := range []string{"cSl", "cArr", "cPArr"} {
		for _, lo := range append([]string{""}, vals("zInt")...) {
			for _, hi := range vals("len(zSl)") {
				for _, mx := range vals("cap(zSl)") {
					add("28", "sink("+s+"["+lo+":"+hi+":"+mx+"])")
				}
			}
		}
	}
	// 3-index slices of strings are never valid, whatever the indices: a few of them
	for _, ix := range []string{"1:2:3", "zInt:2:3", "1:zInt:3", "1:2:zInt", "3:zInt:1"} {
		add("28", "sink(cStr["+ix+"])")
		add("28", "sink(Greeting["+ix+"])")
	}
	// index expressions
	for _, a := range []string{"cSl", "cArr", "cPArr", "cStr", "Greeting", "cMat[zInt]", "cMat[1]", "cMat[3]", "cMat[-1]"} {
		for _, i := range vals("zInt", "len(zSl)") {
			add("29", "sink("+a+"["+i+"])")
		}
	}
	for _, i := range vals("zInt") {
		add("29", "sink(cMat["+i+"][zInt])")
		add("29", "cArr["+i+"] = zInt")
		add("29", "cPArr["+i+"] = zInt")
		add("29", "cMat[zInt]["+i+"]++")
	}
	// make
	for _, l := range vals("zInt", "len(zSl)") {
		add("25", "sink(make([]int, "+l+"))")
		add("25", "sink(make(map[string]int, "+l+"))")
		add("25", "sink(make(chan int, "+l+"))")
		for _, c := range vals("zInt", "cap(zSl)") {
			add("25", "sink(make([]int, "+l+", "+c+"))")
		}
	}
	// shifts
	for _, x := range []string{"zInt", "zUint8", "1", "len(zSl)"} {
		for _, k := range vals("zInt", "zUint", "len(zSl)") {
			add("06", "sink("+x+" << "+k+")")
			add("06", "sink("+x+" >> "+k+")")
		}
	}
	for _, k := range vals("zInt", "zUint") {
		add("06", "zInt <<= "+k)
		add("06", "zInt >>= "+k)
	}
	return out
}

// c12ConstSubMutants: the sweep program with the placeholder statement replaced by every line.
func c12ConstSubMutants(src string) []c12sweepMutant {
	lines := c12ConstSubLines()
	for i := range lines {
		l := "\t\t" + lines[i].Line + "\n"
		if l == c12ConstSubHole {
			lines[i].Src = ""
			continue
		}
		lines[i].Src = strings.Replace(src, c12ConstSubHole, l, 1)
	}
	out := lines[:0]
	for _, m := range lines {
		if m.Src != "" && m.Src != src {
			out = append(out, m)
		}
	}
	return out
}
