package main

import (
	"fmt"
	"go/ast"
	"go/constant"
	"go/parser"
	"go/token"
	"go/types"
	"math/big"
	"sort"
	"strconv"
	"strings"
)

// C18, part 2: the generated file read back into rows (observation of the implementation), and the
// comparison of those rows with the reference (contract) rows.

type c18Expr struct {
	Form string // ident | addr | lit | bad
	Q    string // ident/addr: printed operand
	Tok  string // lit: INT | FLOAT | STRING
	Text string // lit: the literal handed to MakeFromLiteral (unquoted once)
	arg  ast.Expr
	sel  *ast.Ident // identifier that names the bound object (Sel of pkg.Name, or the bare identifier)
}

type c18ObsMeth struct {
	Name    string
	Params  [][2]string
	Results [][2]string
	Args    []string
	Ret     bool
	Guard   bool
	decl    *ast.FuncDecl
}

type c18ObsWrap struct {
	Key     string // without "_"
	Type    string
	Methods []c18ObsMeth
}

type c18Obs struct {
	Tags    string
	SymKey  string
	Imports []string
	Vals    []struct {
		Key string
		E   c18Expr
	}
	Typs []struct {
		Key, Q string
		sel    *ast.Ident
	}
	Wraps    []c18ObsWrap
	Problems []string // shapes the reader does not know (make the observation differ from any model output)
	file     *ast.File
}

func c18Fields(fl *ast.FieldList) [][2]string {
	var out [][2]string
	if fl == nil {
		return out
	}
	for _, f := range fl.List {
		t := types.ExprString(f.Type)
		if len(f.Names) == 0 {
			out = append(out, [2]string{"", t})
		}
		for _, n := range f.Names {
			out = append(out, [2]string{n.Name, t})
		}
	}
	return out
}

func c18IsSel(e ast.Expr, x, sel string) bool {
	se, ok := e.(*ast.SelectorExpr)
	if !ok || se.Sel.Name != sel {
		return false
	}
	id, ok := se.X.(*ast.Ident)
	return ok && id.Name == x
}

func c18BoundIdent(e ast.Expr) *ast.Ident {
	switch x := e.(type) {
	case *ast.Ident:
		return x
	case *ast.SelectorExpr:
		return x.Sel
	}
	return nil
}

// c18ReadOutput parses a generated file into rows.
func c18ReadOutput(fset *token.FileSet, name string, src []byte) (*c18Obs, *ast.File, error) {
	f, err := parser.ParseFile(fset, name, src, parser.ParseComments)
	if err != nil {
		return nil, nil, err
	}
	o := &c18Obs{file: f}
	bad := func(format string, a ...any) { o.Problems = append(o.Problems, fmt.Sprintf(format, a...)) }
	for _, cg := range f.Comments {
		if cg.Pos() > f.Package {
			break
		}
		for _, c := range cg.List {
			if strings.HasPrefix(c.Text, "// +build ") {
				o.Tags = strings.TrimPrefix(c.Text, "// +build ")
			}
		}
	}
	for _, im := range f.Imports {
		p, _ := strconv.Unquote(im.Path.Value)
		if im.Name != nil {
			bad("named import %s", p)
		}
		o.Imports = append(o.Imports, p)
	}
	sort.Strings(o.Imports)
	wrapTypes := map[string]*ast.StructType{}
	methods := map[string][]*ast.FuncDecl{}
	var initFn *ast.FuncDecl
	for _, d := range f.Decls {
		switch x := d.(type) {
		case *ast.FuncDecl:
			if x.Recv == nil {
				if x.Name.Name == "init" && initFn == nil {
					initFn = x
				} else {
					bad("unexpected function %s", x.Name.Name)
				}
				continue
			}
			if len(x.Recv.List) != 1 || len(x.Recv.List[0].Names) != 1 || x.Recv.List[0].Names[0].Name != "W" {
				bad("receiver shape of %s", x.Name.Name)
				continue
			}
			rt := types.ExprString(x.Recv.List[0].Type)
			methods[rt] = append(methods[rt], x)
		case *ast.GenDecl:
			if x.Tok == token.IMPORT {
				continue
			}
			if x.Tok != token.TYPE {
				bad("unexpected declaration")
				continue
			}
			for _, sp := range x.Specs {
				ts := sp.(*ast.TypeSpec)
				st, ok := ts.Type.(*ast.StructType)
				if !ok {
					bad("type %s is not a struct", ts.Name.Name)
					continue
				}
				wrapTypes[ts.Name.Name] = st
			}
		}
	}
	if initFn == nil || len(initFn.Body.List) != 1 {
		bad("init function shape")
		return o, f, nil
	}
	as, ok := initFn.Body.List[0].(*ast.AssignStmt)
	if !ok || len(as.Lhs) != 1 || len(as.Rhs) != 1 {
		bad("init body shape")
		return o, f, nil
	}
	if ix, ok := as.Lhs[0].(*ast.IndexExpr); ok {
		if id, ok := ix.X.(*ast.Ident); !ok || id.Name != "Symbols" {
			bad("not an assignment to Symbols")
		}
		if bl, ok := ix.Index.(*ast.BasicLit); ok {
			o.SymKey, _ = strconv.Unquote(bl.Value)
		}
	} else {
		bad("init lhs shape")
	}
	cl, ok := as.Rhs[0].(*ast.CompositeLit)
	if !ok || types.ExprString(cl.Type) != "map[string]reflect.Value" {
		bad("init rhs shape")
		return o, f, nil
	}
	usedWrap := map[string]bool{}
	for _, el := range cl.Elts {
		kv, ok := el.(*ast.KeyValueExpr)
		if !ok {
			bad("map element shape")
			continue
		}
		kl, ok := kv.Key.(*ast.BasicLit)
		if !ok {
			bad("map key shape")
			continue
		}
		key, _ := strconv.Unquote(kl.Value)
		call, ok := kv.Value.(*ast.CallExpr)
		if !ok {
			bad("value of %s is not a call", key)
			continue
		}
		// reflect.ValueOf(&q).Elem()
		if se, ok := call.Fun.(*ast.SelectorExpr); ok && se.Sel.Name == "Elem" && len(call.Args) == 0 {
			in, ok := se.X.(*ast.CallExpr)
			if ok && c18IsSel(in.Fun, "reflect", "ValueOf") && len(in.Args) == 1 {
				if ue, ok := in.Args[0].(*ast.UnaryExpr); ok && ue.Op == token.AND {
					o.Vals = append(o.Vals, struct {
						Key string
						E   c18Expr
					}{key, c18Expr{Form: "addr", Q: types.ExprString(ue.X), arg: ue.X, sel: c18BoundIdent(ue.X)}})
					continue
				}
			}
			bad("value of %s: Elem shape", key)
			continue
		}
		if !c18IsSel(call.Fun, "reflect", "ValueOf") || len(call.Args) != 1 {
			bad("value of %s is not reflect.ValueOf(x)", key)
			continue
		}
		arg := call.Args[0]
		if c, ok := arg.(*ast.CallExpr); ok {
			// (*T)(nil)
			if pe, ok := c.Fun.(*ast.ParenExpr); ok {
				st, ok := pe.X.(*ast.StarExpr)
				if ok && len(c.Args) == 1 && types.ExprString(c.Args[0]) == "nil" {
					tname := types.ExprString(st.X)
					if strings.HasPrefix(key, "_") {
						usedWrap[tname] = true
						w := c18ObsWrap{Key: key[1:], Type: tname}
						stt := wrapTypes[tname]
						if stt == nil {
							bad("wrapper type %s is not declared", tname)
						}
						fields := map[string]string{}
						if stt != nil {
							for i, fd := range stt.Fields.List {
								if len(fd.Names) != 1 {
									bad("field shape in %s", tname)
									continue
								}
								if i == 0 {
									if fd.Names[0].Name != "IValue" || types.ExprString(fd.Type) != "interface{}" {
										bad("first field of %s", tname)
									}
									continue
								}
								fields[fd.Names[0].Name] = types.ExprString(fd.Type)
							}
						}
						for _, md := range methods[tname] {
							m := c18ObsMeth{Name: md.Name.Name, Params: c18Fields(md.Type.Params), Results: c18Fields(md.Type.Results), decl: md}
							ft, ok := fields["W"+m.Name]
							if !ok || ft != types.ExprString(md.Type) {
								bad("field W%s of %s has type %q, method has %q", m.Name, tname, ft, types.ExprString(md.Type))
							}
							delete(fields, "W"+m.Name)
							body := md.Body.List
							if len(body) == 2 {
								if is, ok := body[0].(*ast.IfStmt); ok && types.ExprString(is.Cond) == "W.W"+m.Name+" == nil" && len(is.Body.List) == 1 {
									if rs, ok := is.Body.List[0].(*ast.ReturnStmt); ok && len(rs.Results) == 1 && types.ExprString(rs.Results[0]) == `""` {
										m.Guard = true
										body = body[1:]
									}
								}
							}
							if len(body) != 1 {
								bad("body of %s.%s", tname, m.Name)
								w.Methods = append(w.Methods, m)
								continue
							}
							var fc *ast.CallExpr
							switch st := body[0].(type) {
							case *ast.ReturnStmt:
								m.Ret = true
								if len(st.Results) == 1 {
									fc, _ = st.Results[0].(*ast.CallExpr)
								}
							case *ast.ExprStmt:
								fc, _ = st.X.(*ast.CallExpr)
							}
							if fc == nil || types.ExprString(fc.Fun) != "W.W"+m.Name {
								bad("forwarding call of %s.%s", tname, m.Name)
							} else {
								for _, a := range fc.Args {
									m.Args = append(m.Args, types.ExprString(a))
								}
								if fc.Ellipsis.IsValid() && len(m.Args) > 0 {
									m.Args[len(m.Args)-1] += "..."
								}
							}
							w.Methods = append(w.Methods, m)
						}
						for fn := range fields {
							bad("field %s of %s without method", fn, tname)
						}
						o.Wraps = append(o.Wraps, w)
					} else {
						o.Typs = append(o.Typs, struct {
							Key, Q string
							sel    *ast.Ident
						}{key, tname, c18BoundIdent(st.X)})
					}
					continue
				}
			}
			// constant.MakeFromLiteral("...", token.T, 0)
			if c18IsSel(c.Fun, "constant", "MakeFromLiteral") && len(c.Args) == 3 {
				bl, ok1 := c.Args[0].(*ast.BasicLit)
				ts, ok2 := c.Args[1].(*ast.SelectorExpr)
				if ok1 && ok2 && bl.Kind == token.STRING && types.ExprString(c.Args[2]) == "0" {
					text, _ := strconv.Unquote(bl.Value)
					o.Vals = append(o.Vals, struct {
						Key string
						E   c18Expr
					}{key, c18Expr{Form: "lit", Tok: ts.Sel.Name, Text: text}})
					continue
				}
			}
			bad("value of %s: call shape", key)
			continue
		}
		o.Vals = append(o.Vals, struct {
			Key string
			E   c18Expr
		}{key, c18Expr{Form: "ident", Q: types.ExprString(arg), arg: arg, sel: c18BoundIdent(arg)}})
	}
	for tn := range wrapTypes {
		if !usedWrap[tn] {
			bad("wrapper type %s is not bound", tn)
		}
	}
	for tn := range methods {
		if !usedWrap[tn] {
			bad("methods of unbound type %s", tn)
		}
	}
	return o, f, nil
}

var c18Tokens = map[string]token.Token{"INT": token.INT, "FLOAT": token.FLOAT, "STRING": token.STRING, "CHAR": token.CHAR, "IMAG": token.IMAG}

// value bound by constant.MakeFromLiteral(text, token.Tok, 0)
func (e c18Expr) litValue() constant.Value {
	return constant.MakeFromLiteral(e.Text, c18Tokens[e.Tok], 0)
}

func (e c18Expr) coq() string {
	switch e.Form {
	case "ident":
		return "YIdent " + coqStr(e.Q)
	case "addr":
		return "YAddr " + coqStr(e.Q)
	case "lit":
		v := e.litValue()
		switch {
		case e.Tok == "INT" && v.Kind() == constant.Int:
			return "YLit (LInt " + coqStr(e.Text) + ")"
		case e.Tok == "FLOAT" && (v.Kind() == constant.Float || v.Kind() == constant.Int):
			var r *big.Rat
			if v.Kind() == constant.Int {
				z, _ := new(big.Int).SetString(v.ExactString(), 10)
				r = new(big.Rat).SetInt(z)
			} else {
				r, _ = c18Rat(v)
			}
			return "YLit (LFloat " + c18Z(r.Num()) + " " + c18Z(r.Denom()) + ")"
		case e.Tok == "STRING" && v.Kind() == constant.String:
			return "YLit (LString " + coqStr(c18StrRepr(constant.StringVal(v))) + ")"
		}
	}
	return "YLit LFail"
}

func c18Pairs(ps [][2]string) string {
	it := make([]string, len(ps))
	for i, p := range ps {
		it[i] = fmt.Sprintf("(%s, %s)", coqStr(p[0]), coqStr(p[1]))
	}
	return coqList(it)
}

func (o *c18Obs) coq(compiles bool) string {
	vals := make([]string, len(o.Vals))
	for i, v := range o.Vals {
		vals[i] = fmt.Sprintf("(%s, %s)", coqStr(v.Key), v.E.coq())
	}
	typs := make([]string, len(o.Typs))
	for i, t := range o.Typs {
		typs[i] = fmt.Sprintf("(%s, %s)", coqStr(t.Key), coqStr(t.Q))
	}
	wraps := make([]string, len(o.Wraps))
	for i, w := range o.Wraps {
		ms := make([]string, len(w.Methods))
		for k, m := range w.Methods {
			ms[k] = fmt.Sprintf("mkYM %s %s %s %s %s %s", coqStr(m.Name), c18Pairs(m.Params), c18Pairs(m.Results), coqStrList(m.Args), coqBool(m.Ret), coqBool(m.Guard))
		}
		wraps[i] = fmt.Sprintf("(%s, mkYW %s %s)", coqStr(w.Key), coqStr(w.Type), coqList(ms))
	}
	tags := o.Tags
	if len(o.Problems) > 0 {
		tags = "unreadable output: " + strings.Join(o.Problems, "; ")
	}
	return fmt.Sprintf("(mkYO %s %s %s\n  [%s]\n  [%s]\n  [%s]\n  %s)", coqStr(tags), coqStr(o.SymKey), coqStrList(o.Imports),
		strings.Join(vals, ";\n   "), strings.Join(typs, ";\n   "), strings.Join(wraps, ";\n   "), coqBool(compiles))
}

// ---------------------------------------------------------------- implementation vs reference

type c18Diff struct {
	Symbol string
	Region string
	What   string
	Impl   string
	Ref    string
}

func c18IsPow2(x *big.Int) bool {
	return x.Sign() > 0 && new(big.Int).And(x, new(big.Int).Sub(x, big.NewInt(1))).Sign() == 0
}

// c18ConstRegion: the known-finding region an untyped constant lies in (decided from the input only).
func c18ConstRegion(v constant.Value) string {
	switch v.Kind() {
	case constant.Float:
		r, rat := c18Rat(v)
		if !rat {
			return "float-const-big"
		}
		if !c18IsPow2(r.Denom()) {
			return "float-const-inexact"
		}
	case constant.Complex:
		if !c18Exact128(v) {
			return "complex-const-inexact"
		}
	}
	return ""
}

// c18Compare checks the observed rows against the contract. info is the type information of the
// generated file checked together with the package (nil if it could not be used).
func c18Compare(view *c18Pkg, ref *c18Ref, obs *c18Obs, info *types.Info, outPkg *types.Package, restricted map[string]bool) []c18Diff {
	var diffs []c18Diff
	add := func(sym, region, what, impl, refs string) {
		diffs = append(diffs, c18Diff{sym, region, what, impl, refs})
	}
	declOf := map[string]*c18Decl{}
	for i := range view.Decls {
		declOf[view.Decls[i].Name] = &view.Decls[i]
	}
	restrRegion := func(name string) string {
		if restricted[view.Name+name] && !c18Sandboxed[view.IPath][name] {
			return "restricted-by-name"
		}
		return ""
	}
	uses := func(id *ast.Ident) types.Object {
		if info == nil || id == nil {
			return nil
		}
		return info.Uses[id]
	}
	// ---- values
	ov := map[string]c18Expr{}
	for _, v := range obs.Vals {
		ov[v.Key] = v.E
	}
	seen := map[string]bool{}
	for _, b := range ref.Vals {
		seen[b.Name] = true
		e, ok := ov[b.Name]
		if !ok {
			add(b.Name, "", "exported object is not bound", "absent", b.Kind)
			continue
		}
		want := view.Name + "." + b.Name
		switch b.Kind {
		case "value":
			if e.Form != "ident" || e.Q != want || (info != nil && uses(e.sel) != b.Obj) {
				add(b.Name, restrRegion(b.Name), "not bound to the object of that name", e.Form+" "+e.Q, "value of "+want)
			}
		case "addr":
			if e.Form != "addr" || e.Q != want || (info != nil && uses(e.sel) != b.Obj) {
				add(b.Name, restrRegion(b.Name), "variable is not bound by address", e.Form+" "+e.Q, "address of "+want)
			}
		case "sandbox":
			if e.Form != "ident" || e.Q != view.Name+b.Name {
				add(b.Name, "", "sandboxed symbol is not replaced", e.Form+" "+e.Q, view.Name+b.Name)
			}
		case "const":
			exact := b.Obj.(*types.Const).Val()
			var got constant.Value
			switch e.Form {
			case "lit":
				got = e.litValue()
			case "ident":
				if e.Q == want && info != nil {
					if tv, ok := info.Types[e.arg]; ok && tv.Value != nil {
						got = tv.Value // the value after conversion to the default type
					}
				} else if e.Q == want {
					got = nil
				}
			}
			switch {
			case got == nil && e.Form == "ident" && e.Q == want && info == nil:
				// cannot evaluate without type information; the compile mismatch is reported separately
			case got == nil || got.Kind() == constant.Unknown:
				add(b.Name, restrRegion(b.Name), "untyped constant is not bound to a constant", e.Form+" "+e.Q+e.Text, exact.ExactString())
			default:
				same := false
				func() {
					defer func() { recover() }()
					same = constant.Compare(got, token.EQL, exact)
				}()
				if !same {
					add(b.Name, c18ConstRegion(exact), "untyped constant is not bound to exactly its value", got.ExactString(), exact.ExactString())
				}
			}
		}
	}
	for _, v := range obs.Vals {
		if !seen[v.Key] {
			add(v.Key, "", "binding without exported non-generic object", v.E.Form+" "+v.E.Q, "absent")
		}
	}
	// ---- types
	ot := map[string]int{}
	for i, t := range obs.Typs {
		ot[t.Key] = i + 1
	}
	seenT := map[string]bool{}
	for _, b := range ref.Typs {
		seenT[b.Name] = true
		i := ot[b.Name]
		if i == 0 {
			region := ""
			if d := declOf[b.Name]; d != nil && d.Iface != nil && len(d.Iface.Methods) == 0 && d.Iface.NEmbedded != 0 {
				region = "embedded-empty-dropped"
			}
			add(b.Name, region, "exported type is not bound", "absent", b.Kind)
			continue
		}
		t := obs.Typs[i-1]
		switch b.Kind {
		case "type":
			if t.Q != view.Name+"."+b.Name || (info != nil && uses(t.sel) != b.Obj) {
				add(b.Name, restrRegion(b.Name), "not bound to the type of that name", t.Q, view.Name+"."+b.Name)
			}
		case "sandbox":
			if t.Q != view.Name+b.Name {
				add(b.Name, "", "sandboxed type is not replaced", t.Q, view.Name+b.Name)
			}
		}
	}
	for _, t := range obs.Typs {
		if !seenT[t.Key] {
			region := ""
			if d := declOf[t.Key]; d != nil && d.Iface != nil && !d.Iface.MethodSet {
				region = "constraint-with-methods"
			}
			add(t.Key, region, "type binding without exported ordinary non-generic type", t.Q, "absent")
		}
	}
	// ---- wrappers
	ow := map[string]*c18ObsWrap{}
	for i := range obs.Wraps {
		ow[obs.Wraps[i].Key] = &obs.Wraps[i]
	}
	seenW := map[string]bool{}
	for _, rw := range ref.Wraps {
		seenW[rw.Name] = true
		w := ow[rw.Name]
		if w == nil {
			region := ""
			if d := declOf[rw.Name]; d != nil && d.Iface != nil && len(d.Iface.Methods) == 0 && d.Iface.NEmbedded != 0 {
				region = "embedded-empty-dropped"
			}
			add("_"+rw.Name, region, "exported interface has no wrapper", "absent", fmt.Sprint(len(rw.Methods), " methods"))
			continue
		}
		om := map[string]*c18ObsMeth{}
		for i := range w.Methods {
			om[w.Methods[i].Name] = &w.Methods[i]
		}
		if len(w.Methods) != len(rw.Methods) {
			add("_"+rw.Name, "", "wrapper method count", fmt.Sprint(len(w.Methods)), fmt.Sprint(len(rw.Methods)))
		}
		var wt types.Type
		var wst *types.Struct
		if outPkg != nil {
			if tn, ok := outPkg.Scope().Lookup(w.Type).(*types.TypeName); ok {
				wt = tn.Type()
				wst, _ = wt.Underlying().(*types.Struct)
			}
		}
		for _, rm := range rw.Methods {
			m := om[rm.Name]
			sym := "_" + rw.Name + "." + rm.Name
			if m == nil {
				add(sym, "", "exported method is not forwarded", "absent", rm.Sig.String())
				continue
			}
			// body: W.W<name>(p0, p1, ..., pn[...]) with return iff results
			np := rm.Sig.Params().Len()
			okArgs := len(m.Args) == np && len(m.Params) == np
			if okArgs {
				for j := 0; j < np; j++ {
					wantArg := m.Params[j][0]
					if rm.Sig.Variadic() && j == np-1 {
						wantArg += "..."
					}
					if m.Args[j] != wantArg || m.Params[j][0] == "" {
						okArgs = false
					}
				}
			}
			if !okArgs {
				add(sym, "", "forwarding call does not pass the parameters in order", strings.Join(m.Args, ","), fmt.Sprint(np, " parameters, variadic=", rm.Sig.Variadic()))
			}
			if m.Ret != (rm.Sig.Results().Len() > 0) {
				add(sym, "", "return statement", fmt.Sprint(m.Ret), fmt.Sprint(rm.Sig.Results().Len() > 0))
			}
			if wt != nil && info != nil {
				// the field W<name> and the method <name> have exactly the interface method's signature
				var ft types.Type
				if wst != nil {
					for i := 0; i < wst.NumFields(); i++ {
						if wst.Field(i).Name() == "W"+rm.Name {
							ft = wst.Field(i).Type()
						}
					}
				}
				if ft == nil || !types.Identical(ft, rm.Sig) {
					add(sym, "", "field signature differs from the interface method", fmt.Sprint(ft), rm.Sig.String())
				}
				mo, _, _ := types.LookupFieldOrMethod(wt, false, outPkg, rm.Name)
				if fn, ok := mo.(*types.Func); !ok || !types.Identical(fn.Type(), rm.Sig) {
					add(sym, "", "method signature differs from the interface method", fmt.Sprint(mo), rm.Sig.String())
				}
			}
		}
		if wt != nil && info != nil && !rw.Hidden && !types.Implements(wt, rw.Iface) {
			add("_"+rw.Name, "", "wrapper type does not implement the interface", w.Type, rw.Name)
		}
	}
	for _, w := range obs.Wraps {
		if !seenW[w.Key] {
			region := ""
			if d := declOf[w.Key]; d != nil && d.Iface != nil && !d.Iface.MethodSet {
				region = "constraint-with-methods"
			}
			add("_"+w.Key, region, "wrapper without exported ordinary interface", w.Type, "absent")
		}
	}
	return diffs
}

// c18CompileCauses lists, from the input alone, the known reasons why the generated file cannot
// compile (the regions of the open findings about uncompilable output).
func c18CompileCauses(view *c18Pkg, restricted map[string]bool) []string {
	var causes []string
	addc := func(c string) {
		for _, x := range causes {
			if x == c {
				return
			}
		}
		causes = append(causes, c)
	}
	anyIdent, anyLit, anyRow := false, false, false
	for _, d := range view.Decls {
		if !d.Exported {
			continue
		}
		restr := restricted[view.Name+d.Name]
		switch d.Kind {
		case "const":
			anyRow = true
			lit := d.Untyped && (d.Val.Kind() == constant.Int || d.Val.Kind() == constant.Float || d.Val.Kind() == constant.String)
			if lit {
				anyLit = true
			} else if !restr {
				anyIdent = true
			}
			if restr && !lit && !c18Sandboxed[view.IPath][d.Name] {
				addc("restricted-by-name")
			}
		case "func", "var":
			if d.Generic {
				continue
			}
			anyRow = true
			if restr {
				if !(view.IPath == "os" || view.IPath == "log") {
					addc("restricted-by-name")
				}
			} else {
				anyIdent = true
			}
		case "type":
			if d.Generic {
				continue
			}
			if d.Iface != nil && len(d.Iface.Methods) == 0 && d.Iface.NEmbedded != 0 {
				continue
			}
			anyRow = true
			if restr {
				if !(view.IPath == "os" || view.IPath == "log") {
					addc("restricted-by-name")
				}
			} else {
				anyIdent = true
			}
			if d.Iface == nil {
				continue
			}
			if !d.Iface.MethodSet {
				addc("constraint-with-methods")
			}
			var names []string
			for _, m := range d.Iface.Methods {
				if m.Exported {
					names = append(names, m.Name)
				}
			}
			for _, m := range d.Iface.Methods {
				if !m.Exported {
					continue
				}
				for _, pk := range m.Pkgs {
					if pk[0] == view.IPath {
						anyIdent = true
					} else if pk[1] == view.Name || pk[1] == "reflect" {
						if pk[0] == view.Path && view.Path != view.IPath {
							addc("relative-self-import")
						} else if pk[0] != "reflect" {
							addc("import-name-clash")
						}
					}
				}
				for _, p := range m.Params {
					if p.Name == "_" {
						addc("blank-param")
					}
					if p.Name == "W" {
						addc("recv-clash")
					}
				}
				for _, p := range m.Results {
					if p.Name == "W" {
						addc("recv-clash")
					}
				}
				if m.Name == "String" && !m.StrOK {
					addc("string-shape")
				}
				if m.Name == "IValue" {
					addc("member-clash")
				}
				for _, n := range names {
					if m.Name == "W"+n {
						addc("member-clash")
					}
				}
				if !m.Nameable {
					addc("unexported-type")
				}
			}
		}
	}
	if anyRow && view.Name == "reflect" && view.IPath != "reflect" {
		addc("import-name-clash")
	}
	if anyLit && anyRow && ((view.Name == "constant" && view.IPath != "go/constant") || (view.Name == "token" && view.IPath != "go/token")) {
		addc("import-name-clash")
	}
	if anyRow && !anyIdent {
		addc("unused-import")
	}
	return causes
}

// c18MissingImports: package qualifiers mentioned by the generated declarations (bindings, wrapper
// fields and methods) for which the file has no import. Decided on the syntax alone, independently
// of the type checker: an identifier X in X.Sel that is not declared in the file must be the name of
// an imported package.
func c18MissingImports(f *ast.File, imp types.Importer) []string {
	names := map[string]bool{}
	for _, im := range f.Imports {
		p, _ := strconv.Unquote(im.Path.Value)
		if im.Name != nil {
			names[im.Name.Name] = true
			continue
		}
		if pk, err := imp.Import(p); err == nil {
			names[pk.Name()] = true
		} else {
			names[p[strings.LastIndex(p, "/")+1:]] = true
		}
	}
	missing := map[string]bool{}
	ast.Inspect(f, func(n ast.Node) bool {
		se, ok := n.(*ast.SelectorExpr)
		if !ok {
			return true
		}
		if id, ok := se.X.(*ast.Ident); ok && id.Obj == nil && id.Name != "W" && !names[id.Name] {
			missing[id.Name] = true
		}
		return true
	})
	return sortedKeys(missing)
}
