package main

import "fmt"

// The return stream of C04: "returning an array or struct yields an independent copy", taken when
// the return statement executes — before the deferred calls of the callee run.  Cross product,
// every cell in every run, each call site executed twice in a loop of one activation:
//
//	returned operand {local variable, parameter, pointee *p, element (*q)[i], field p.A, whole array parameter}
//	x result {unnamed, named result updated by a deferred closure created before}
//	x a deferred function that updates the returned operand after the return statement.
//
// defer and closures are outside the Coq grammar: compared yaegi-vs-compiled only (the reference
// interpreter runs the equivalent core operations).

var c04ReturnCells = []string{"local variable", "parameter", "pointee", "element through pointer to array", "array field through pointer", "array parameter", "named result doubled by a deferred closure", "named array result"}

// (declared in the prelude of every generated program)
const c04ReturnDecls = `// callees whose deferred function updates the returned operand after the return statement (return stream)
func retLocalS(x S) S {
	t := x
	defer func() { t.N += 1000 }()
	return t
}
func retParamS(x S) S {
	defer func() { x.N += 1000; x.A[1] = 1000 }()
	return x
}
func retDerefS(y *S) S {
	defer func() { y.N += 1000 }()
	return *y
}
func retElemS(y *[3]S, n int) S {
	defer func() { (*y)[n].N += 1000 }()
	return (*y)[n]
}
func retFieldA(y *S) [2]int {
	defer func() { y.A[0] += 1000 }()
	return y.A
}
func retArrS(x [3]S) [3]S {
	defer func() { x[1].N += 1000 }()
	return x
}
func retNamedS(x S) (r S) {
	dbl := func() { r.N *= 2 }
	defer dbl()
	t := x
	t.N++
	return t
}
func retNamedA(x [2]int) (r [2]int) {
	defer func() { r[0] += 5 }()
	x[1] = 9
	return x
}

`

func (g *c04gen) returnOp(cell int) *c04op {
	asgI := func(l *c04ex, r *c04ex) *c04op { return &c04op{K: "assign", Lv: l, Rhs: c04Pure(r)} }
	s := c04Var(1, c04TS)
	a := func(k int64) *c04ex { return c04Idx(c04Var(0, c04TA3S), c04IntLit(k)) }
	fN := func(x *c04ex) *c04ex { return c04Fld(x, 0) }
	addN := func(x *c04ex, k int64) *c04op { return asgI(fN(x), c04Add(c04Load(fN(x)), c04IntLit(k))) }
	n := g.freshVar()
	o := &c04op{K: "sugar", Unmodelled: true, Sugar: fmt.Sprintf("return:%d", cell)}
	var body string
	var once []*c04op
	switch cell {
	case 0:
		body, once = "s = retLocalS(a[1])", []*c04op{asgI(s, c04Load(a(1)))}
	case 1:
		body, once = "a[2] = retParamS(s)", []*c04op{asgI(a(2), c04Load(s))}
	case 2: // the copy is taken before the deferred update of *y
		body, once = "s = retDerefS(&a[1])", []*c04op{asgI(s, c04Load(a(1))), addN(a(1), 1000)}
	case 3:
		body, once = "s = retElemS(&a, 2)", []*c04op{asgI(s, c04Load(a(2))), addN(a(2), 1000)}
	case 4:
		sA := c04Fld(s, 1)
		a0A := c04Idx(c04Fld(a(0), 1), c04IntLit(0))
		body, once = "s.A = retFieldA(&a[0])", []*c04op{asgI(sA, c04Load(c04Fld(a(0), 1))), asgI(a0A, c04Add(c04Load(a0A), c04IntLit(1000)))}
	case 5:
		body, once = "a = retArrS(a)", nil
	case 6:
		body, once = "s = retNamedS(a[1])", []*c04op{asgI(s, c04Load(a(1))), addN(s, 1), asgI(fN(s), c04Add(c04Load(fN(s)), c04Load(fN(s))))}
	default:
		sA := c04Fld(s, 1)
		body = "s.A = retNamedA(a[0].A)"
		once = []*c04op{asgI(sA, c04Load(c04Fld(a(0), 1))), asgI(c04Idx(sA, c04IntLit(1)), c04IntLit(9)),
			asgI(c04Idx(sA, c04IntLit(0)), c04Add(c04Load(c04Idx(sA, c04IntLit(0))), c04IntLit(5)))}
	}
	// the call site is executed twice in one activation; the source changes in between
	o.Text = []string{fmt.Sprintf("for n%d := 0; n%d < 2; n%d++ {", n, n, n), "\t" + body, "\ta[1].N++", "}"}
	for k := 0; k < 2; k++ {
		o.Equiv = append(o.Equiv, once...)
		o.Equiv = append(o.Equiv, addN(a(1), 1))
	}
	return o
}

func c04Return(id int, seed uint64) *c04hist {
	g := c04NewGen(newRng(seed), "")
	h := &c04hist{ID: id, Seed: seed, Region: "", Modelled: false, Boundary: "return"}
	var out [][]int64
	try := func(o *c04op) bool {
		cl := g.st.clone()
		var scratch [][]int64
		if cl.tryExec(o, &scratch) != "" {
			return false
		}
		g.commit(o, &out)
		h.Ops = append(h.Ops, o)
		return true
	}
	try(&c04op{K: "dump"})
	h.Ops = append(h.Ops, g.setup(&out)...)
	try(&c04op{K: "dump"})
	for cell := range c04ReturnCells {
		if try(g.returnOp(cell)) {
			g.stats[fmt.Sprintf("cell:return:%d", cell)]++
		}
		try(&c04op{K: "dump"})
		h.Ops = append(h.Ops, g.next(1, &out))
		try(&c04op{K: "dump"})
	}
	h.Expect = out
	h.Grow = g.st.Grow
	h.Stats = g.stats
	h.Src = c04Program(g.fns, nil, h.Ops)
	return h
}
