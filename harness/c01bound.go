package main

import (
	"fmt"
	"strings"
)

// C01 boundary stream: every shortcut of interp/cfg.go (result written straight into the destination
// slot of an assignment or into the return slot; assignment turned into a nop for call / arithmetic /
// composite sources; call-in-return; constant-condition bypass; op-assign and inc/dec on every kind
// of location) crossed systematically with every enclosing statement form. One cell = one function
// with a fresh environment; a program holds a dozen cells.

const c1Env = `	a, b, c := 3, 5, 7
	var u uint8 = 200
	f := 1.5
	st := "ab"
	bb := false
	s := S{A: 1, B: 2, N: "n"}
	arr := [3]int{1, 2, 3}
	sl := []int{4, 5, 6}
	m := map[string]int{"k": 1}
	pv := 9
	p := &pv
	ps := &S{A: 10, B: 20, N: "p"}
	var fs []func() int
`

const c1EnvPrint = `	fmt.Println(a, b, c, u, f, st, bb, s, arr, sl, m, pv, *p, *ps)
	for _, fn := range fs {
		fmt.Println(fn(), fn())
	}
`

const c1Helpers = `type S struct {
	A, B int
	N    string
}

func f1(x int) int { return x*2 + 1 }

func f2(x, y int) (int, int) { return y, x + y }

func fs1(x int) S { return S{A: x, B: x + 1, N: "f"} }

`

// statement snippets over the environment
var c1Snippets = []string{
	"a = b + c", "a = a + b", "a = b - a", "a = (a + b) * (a - c)", "a = -b", "a = ^a", "a = a*a - a",
	"bb = a < b", "bb = !bb", "bb = a < b && b < c", "bb = a > b || c > b", "bb = st < \"b\"", "bb = st == \"ab\" && f > 1",
	"a = f1(b)", "a = f1(a)", "a = f1(a) + f1(b)", "a = f1(f1(a))", "a = f1(a + b)",
	"a, b = f2(b, a)", "x, y := f2(a, b); a = x + y",
	"s = S{A: s.B, B: s.A, N: s.N + \"x\"}", "arr = [3]int{arr[2], arr[1], arr[0]}", "sl = []int{sl[2], sl[0], sl[1]}", "m = map[string]int{\"k\": m[\"k\"] + 1}",
	"s = fs1(a)", "a = fs1(b).A", "s.A = f1(s.B)", "s.A = s.A + s.B", "arr[0] = arr[1] + arr[2]", "sl[1] = sl[0] * 2", "m[\"k\"] = m[\"k\"] * 3",
	"a += b", "a += a", "a -= f1(b)", "arr[1] += a", "s.A *= 2", "*p -= 3", "m[\"k\"] += 2", "sl[uint(a)%3] <<= 1", "st += \"x\"", "f /= 2", "u += 100", "ps.A |= 5", "a %= 4", "a &^= 2",
	"a++", "arr[2]--", "s.B++", "(*p)++", "m[\"k\"]++", "ps.A++", "u++", "sl[0]--",
	"a = b", "a, b = b, a", "a, b, c = c, a, b", "arr[0], arr[1] = arr[1], arr[0]", "a, arr[0] = arr[0], a", "s.A, s.B = s.B, s.A",
	"x := a + b; fs = append(fs, func() int { x++; return x })", "x := a; x = x + 1; a = x",
	"st = st + \"a\"", "f = f*2.5 + 1", "f = -f",
	"a = int(u)", "u = uint8(a)", "f = float64(a)", "st = string(rune(65 + uint(a)%26))", "a = len(sl)", "sl = append(sl, a)", "a = copy(sl, []int{9})", "a = len(st) + len(m)",
	"*p = *p + 1", "ps.A = ps.A + ps.B", "a = *p + a", "p = &c; *p = 1", "*ps = S{A: ps.B, B: ps.A, N: \"q\"}",
	"a = arr[1] + sl[0]", "a = s.A * s.B", "a = m[\"k\"] + m[\"zz\"]", "a = arr[uint(a)%3]",
	"var e interface{} = a + b; a = e.(int) + 1",
	"a = a << 2", "a <<= uint(b) & 3", "a = b >> 1",
	"var z int; z = a + b; a = z", "z := [2]int{a, b}; a = z[0] + z[1]", "z := S{a, b, st}; s = z",
}

// return snippets: signature, return statement, fallback return
type c1Ret struct{ sig, ret, dflt, pre string }

var c1RetSnippets = []c1Ret{
	{"int", "return a + b", "return -1", ""},
	{"int", "return f1(a)", "return -1", ""},
	{"(int, int)", "return a + b, a - b", "return -1, -1", ""},
	{"(int, int)", "return f2(a, b)", "return -1, -1", ""},
	{"int", "return f1(a) + f1(b)", "return -1", ""},
	{"int", "return a", "return -1", ""},
	{"(res int)", "res = a * b; return", "res = -1; return", "res = 0"},
	{"int", "return -a", "return -1", ""},
	{"bool", "return a < b", "return false", ""},
	{"S", "return S{A: a, B: b}", "return S{}", ""},
	{"int", "return arr[1]", "return -1", ""},
	{"string", "return st + \"z\"", "return \"\"", ""},
	{"(int, string)", "return len(st), st", "return -1, \"\"", ""},
	{"int", "return f1(f1(a) + 1)", "return -1", ""},
	{"float64", "return f * 2", "return -1", ""},
	{"(int, bool)", "return a - b, a < b && b < c", "return -1, false", ""},
}

// enclosing shapes; H marks the hole
var c1Shapes = []string{
	"H",
	"if a < b+100 {\nH\n}",
	"if a > b+100 {\na = 0\n} else {\nH\n}",
	"if t := a + 1; t > -100 {\nH\n}",
	"if t := a; t < -100 {\nt++\n} else {\nH\n}",
	"if a > b+100 {\na = 1\n} else if b < a+100 {\nH\n} else {\na = 2\n}",
	"for i := 0; i < 2; i++ {\nH\n}",
	"n := 0\nfor n < 2 {\nn++\nH\n}",
	"n := 0\nfor {\nn++\nif n > 2 {\nbreak\n}\nH\n}",
	"n := 0\nfor ; n < 2; n++ {\nH\n}",
	"for n := 0; n < 2; {\nn++\nH\n}",
	"n := 0\nfor ; ; n++ {\nif n >= 2 {\nbreak\n}\nH\n}",
	"for n := 0; ; n++ {\nif n >= 2 {\nbreak\n}\nH\n}",
	"for i := range 2 {\n_ = i\nH\n}",
	"for i, v := range []int{1, 2} {\n_, _ = i, v\nH\n}",
	"for i, r := range \"xy\" {\n_, _ = i, r\nH\n}",
	"for i, v := range [2]int{1, 2} {\n_, _ = i, v\nH\n}",
	"for k, v := range map[string]int{\"x\": 1} {\n_, _ = k, v\nH\n}",
	"switch t := 1; t {\ncase 1:\nH\ncase 2:\na = -2\n}",
	"switch {\ncase a > b+100:\na = -3\ncase a < b+100:\nH\n}",
	"switch a - a {\ncase 1:\na = -4\ndefault:\nH\n}",
	"switch a - a {\ncase 0:\nfallthrough\ncase 1:\nH\n}",
	"L:\nfor i := 0; i < 2; i++ {\nfor j := 0; j < 2; j++ {\nH\ncontinue L\n}\n}",
	"L:\nfor i := 0; i < 3; i++ {\nH\nif i == 1 {\nbreak L\n}\n}",
	"func() {\nH\n}()",
	"cl := func() {\nH\n}\ncl()\ncl()",
	"{\nq := 1\n_ = q\nH\n}",
	"n := 0\nL:\n{\nH\n}\nif n < 1 {\nn++\ngoto L\n}",
	"func() {\ndefer func() {\nH\n}()\n}()",
	"if true {\nH\n}",
	"if false {\na = -9\n} else {\nH\n}",
	"for true {\nH\nbreak\n}",
	"const on = true\nif on {\nH\n}",
	"for i := 0; i < 3; i++ {\nif i == 1 {\ncontinue\n}\nH\n}",
	"if q := 5; true {\n_ = q\nH\n}",
	"for i := 0; true; i++ {\nif i > 1 {\nbreak\n}\nH\n}",
	"if 1 < 2 {\nH\n}",
	"for i := 0; i < 2; i++ {\nswitch i {\ncase 0:\nH\ndefault:\ncontinue\n}\n}",
	"for i := 0; i < 2; i++ {\nswitch {\ncase i >= 0:\nH\nbreak\n}\n}",
	"if !(a > b+100) {\nif b > a-100 {\nH\n}\n}",
	// statements after an unconditional jump are dead code: they must not run
	"for i := 0; i < 2; i++ {\nH\ncontinue\na = -77\nfmt.Println(\"dead\")\n}",
	"for i := 0; i < 2; i++ {\nH\nbreak\na = -78\nfmt.Println(\"dead\")\n}",
	"for i := 0; i < 2; i++ {\nif i >= 0 {\nH\ncontinue\na = -79\n}\nfmt.Println(\"dead\")\n}",
	"n := 0\nL:\nn++\nif n < 3 {\nH\ngoto L\na = -80\n}",
}

type c1Cell struct {
	id   string
	body string // complete function declaration
	call string // statement in main
}

func c1Indent(code string, n int) string {
	var b strings.Builder
	for _, l := range strings.Split(code, "\n") {
		if l == "" {
			continue
		}
		b.WriteString(strings.Repeat("\t", n) + l + "\n")
	}
	return b.String()
}

func c1MakeCell(kind string, si, hi int) c1Cell {
	shape := c1Shapes[hi]
	id := fmt.Sprintf("%s%d_%d", kind, si, hi)
	if kind == "s" {
		hole := strings.ReplaceAll(c1Snippets[si], "; ", "\n")
		code := strings.Replace(shape, "H", hole, 1)
		body := "func cell_" + id + "() {\n" + c1Env + c1Indent(code, 1) + c1EnvPrint + "}\n"
		return c1Cell{id: id, body: body, call: "cell_" + id + "()"}
	}
	r := c1RetSnippets[si]
	hole := strings.ReplaceAll(r.ret, "; ", "\n")
	code := strings.Replace(shape, "H", hole, 1)
	pre := ""
	if r.pre != "" {
		pre = "\t" + r.pre + "\n"
	}
	// closures change what `return` means: the shape then wraps a helper function literal of the same signature
	if strings.Contains(shape, "func()") {
		return c1Cell{}
	}
	body := "func cell_" + id + "() " + r.sig + " {\n" + pre + c1Env + "\t_, _, _, _, _, _, _, _, _, _, _, _, _, _ = u, f, st, bb, s, arr, sl, m, p, ps, fs, c, b, a\n" +
		c1Indent(code, 1) + c1Indent(strings.ReplaceAll(r.dflt, "; ", "\n"), 1) + "}\n"
	return c1Cell{id: id, body: body, call: "fmt.Println(cell_" + id + "())"}
}

func c1CellProgram(cells []c1Cell) string {
	var b strings.Builder
	b.WriteString("package main\n\nimport \"fmt\"\n\n" + c1Helpers)
	for _, c := range cells {
		b.WriteString(c.body + "\n")
	}
	b.WriteString("func main() {\n")
	for _, c := range cells {
		b.WriteString("\tfmt.Println(\"# " + c.id + "\")\n\t" + c.call + "\n")
	}
	b.WriteString("}\n")
	return b.String()
}

// c1BoundaryCases: quick (passes == 1) samples the cross product (every snippet with a few shapes,
// every shape with a few snippets); thorough enumerates it completely.
func c1BoundaryCases(r *rng, passes int) []*c1case {
	var cells []c1Cell
	have := map[string]bool{}
	addCell := func(kind string, si, hi int) {
		c := c1MakeCell(kind, si, hi)
		if c.id == "" || have[c.id] {
			return
		}
		have[c.id] = true
		// a cell inside a known-defect region is left to the region stream
		if c1ClassifyRegion(c1CellProgram([]c1Cell{c})) != "" {
			return
		}
		cells = append(cells, c)
	}
	if passes > 1 {
		for si := range c1Snippets {
			for hi := range c1Shapes {
				addCell("s", si, hi)
			}
		}
		for si := range c1RetSnippets {
			for hi := range c1Shapes {
				addCell("r", si, hi)
			}
		}
	} else {
		for si := range c1Snippets {
			for k := 0; k < 4; k++ {
				addCell("s", si, r.intn(len(c1Shapes)))
			}
		}
		for si := range c1RetSnippets {
			for k := 0; k < 4; k++ {
				addCell("r", si, r.intn(len(c1Shapes)))
			}
		}
	}
	var out []*c1case
	const per = 12
	for i := 0; i < len(cells); i += per {
		j := i + per
		if j > len(cells) {
			j = len(cells)
		}
		src := c1CellProgram(cells[i:j])
		out = append(out, &c1case{Stream: "boundary", Src: src, Feat: map[string]int{"boundary-cell": j - i}, Size: (j - i) * 20})
	}
	return out
}
