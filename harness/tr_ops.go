package main

import (
	"bytes"
	"flag"
	"fmt"
	"go/ast"
	"go/parser"
	"go/printer"
	"go/token"
	"os"
	"path/filepath"
	"sort"
	"strconv"
	"strings"
)

// tr-ops: regenerates coq/gen/OpTable_gen.v from
//   interp/op.go    every `n.exec = func(f *frame) bltn {...}` closure and every `n.rval.SetX(...)` fold,
//                   with the guards (kind cases, operand form, fnext) under which it is installed,
//   interp/run.go   neg, pos, bitNot, not, and the final closure of convert,
//   interp/value.go genValueInt/Uint/Float, vInt/vUint/vFloat (kind case -> conversion).
// The output is plain data (rows of OpDsl.row). A closure shape the translator does not understand
// is an error (non-zero exit), never skipped.  `-selftest` mutates scratch copies of op.go and
// checks that the emitted table changes (or that the translator refuses the input).

func init() {
	register("tr-ops", "translator: operator closures of interp/op.go, run.go, value.go -> OpTable_gen.v", trOps)
}

// ---------------------------------------------------------------- environment of a generator function

type trOpsBind struct {
	kind  string // "gen" (closure producing (Value, x) or x), "val" (machine value bound at generation time), "rv" (reflect.Value of an rval), "child", "next", "typ", "dest", "flag", "opd" (reflect.Value of operand inside closure), "leaf"
	extr  string // gen: genValueInt...; val: the leaf text
	child int
	text  string
}

type trOpsEnv map[string]trOpsBind

func (e trOpsEnv) clone() trOpsEnv {
	c := trOpsEnv{}
	for k, v := range e {
		c[k] = v
	}
	return c
}

type trGuards struct {
	kinds []string // reflect kinds of the enclosing `switch typ.Kind()` case
	ktag  string   // what the kind switch inspects: "typ" or "ntyp" (n.typ.TypeOf().Kind())
	guard string   // GNone | GStr | GFloat | GUint | GInt | GCplx | GLinked | GIfaceOpd | GDefault | GConst
	form  string   // FIface | FC0 | FC1 | FVar | FNone
	br    bool     // inside `if n.fnext != nil`
}

type trRow struct {
	fn   string
	g    trGuards
	dest string
	set  string
	mapT bool
	next string
	body string
}

type trFunc struct {
	name string
	fset *token.FileSet
	rows []trRow
}

func (t *trFunc) errf(n ast.Node, format string, a ...any) error {
	return fmt.Errorf("%s: %s: %s", t.name, t.fset.Position(n.Pos()), fmt.Sprintf(format, a...))
}

func nodeText(fset *token.FileSet, n ast.Node) string {
	var b bytes.Buffer
	printer.Fprint(&b, fset, n)
	return strings.Join(strings.Fields(b.String()), " ")
}

func (t *trFunc) text(n ast.Node) string { return nodeText(t.fset, n) }

// childOf recognises n.child[i] and identifiers bound to it.
func (t *trFunc) childOf(e ast.Expr, env trOpsEnv) (int, bool) {
	switch x := e.(type) {
	case *ast.Ident:
		if b, ok := env[x.Name]; ok && b.kind == "child" {
			return b.child, true
		}
	case *ast.IndexExpr:
		if t.text(x.X) == "n.child" {
			if bl, ok := x.Index.(*ast.BasicLit); ok {
				i, err := strconv.Atoi(bl.Value)
				return i, err == nil
			}
		}
	}
	return 0, false
}

// rvalOf recognises cK.rval, n.child[K].rval and identifiers bound to them.
func (t *trFunc) rvalOf(e ast.Expr, env trOpsEnv) (int, bool) {
	switch x := e.(type) {
	case *ast.Ident:
		if b, ok := env[x.Name]; ok && b.kind == "rv" {
			return b.child, true
		}
	case *ast.SelectorExpr:
		if x.Sel.Name == "rval" {
			return t.childOf(x.X, env)
		}
	}
	return 0, false
}

var trGenExtr = map[string]string{"genValueInt": "XGenInt", "genValueUint": "XGenUint", "genValueFloat": "XGenFloat", "genComplex": "XGenCplx",
	"genValueString": "XGenStr", "genValue": "XVal"}
var trValExtr = map[string]string{"vInt": "XVInt", "vUint": "XVUint", "vFloat": "XVFloat", "vComplex": "XVCplx", "vString": "XVStr"}
var trMethExtr = map[string]string{"Int": "Int", "Uint": "Uint", "Float": "Float", "Complex": "Cplx", "String": "Str", "Bool": "Bool", "Interface": "Iface"}

// bindRHS interprets the right-hand side of a generation-time definition.
func (t *trFunc) bindRHS(rhs ast.Expr, env trOpsEnv) (trOpsBind, bool) {
	txt := t.text(rhs)
	switch txt {
	case "getExec(n.tnext)":
		return trOpsBind{kind: "next", text: "NT"}, true
	case "getExec(n.fnext)":
		return trOpsBind{kind: "next", text: "NF"}, true
	case "n.typ.concrete().TypeOf()":
		return trOpsBind{kind: "typ", text: "concrete"}, true
	case "n.typ.TypeOf()":
		return trOpsBind{kind: "typ", text: "plain"}, true
	case "n.typ.TypeOf().Kind() == reflect.Interface":
		return trOpsBind{kind: "flag", text: "isInterface"}, true
	case "genValueOutput(n, typ)":
		if b, ok := env["typ"]; !ok || b.text != "concrete" {
			return trOpsBind{}, false
		}
		return trOpsBind{kind: "dest", text: "DOut"}, true
	case "genValueOutput(n, reflect.TypeOf(true))":
		return trOpsBind{kind: "dest", text: "DOutBool"}, true
	case "genValue(n)":
		return trOpsBind{kind: "dest", text: "DNode"}, true
	case "isMapEntry(c0)":
		return trOpsBind{kind: "flag", text: "setMap"}, true
	case "c0.typ.TypeOf()":
		return trOpsBind{kind: "optyp", child: 0}, true
	case "c1.typ.TypeOf()":
		return trOpsBind{kind: "optyp", child: 1}, true
	case "n.typ.rtype":
		return trOpsBind{kind: "typ", text: "rtype"}, true
	}
	if c, ok := t.childOf(rhs, env); ok {
		return trOpsBind{kind: "child", child: c}, true
	}
	if c, ok := t.rvalOf(rhs, env); ok {
		return trOpsBind{kind: "rv", child: c}, true
	}
	if call, ok := rhs.(*ast.CallExpr); ok && len(call.Args) == 1 {
		if id, ok := call.Fun.(*ast.Ident); ok {
			if x, ok := trGenExtr[id.Name]; ok {
				if c, ok := t.childOf(call.Args[0], env); ok {
					return trOpsBind{kind: "gen", extr: x, child: c}, true
				}
			}
			if x, ok := trValExtr[id.Name]; ok {
				if c, ok := t.rvalOf(call.Args[0], env); ok {
					return trOpsBind{kind: "leaf", text: fmt.Sprintf("(L %s %d)", x, c)}, true
				}
			}
		}
	}
	if call, ok := rhs.(*ast.CallExpr); ok && len(call.Args) == 0 {
		if sel, ok := call.Fun.(*ast.SelectorExpr); ok {
			if c, ok := t.rvalOf(sel.X, env); ok {
				if m, ok := trMethExtr[sel.Sel.Name]; ok {
					return trOpsBind{kind: "leaf", text: fmt.Sprintf("(L XRv%s %d)", m, c)}, true
				}
			}
		}
	}
	return trOpsBind{}, false
}

var trKindNames = map[string]string{"Int": "KInt", "Int8": "KInt8", "Int16": "KInt16", "Int32": "KInt32", "Int64": "KInt64",
	"Uint": "KUint", "Uint8": "KUint8", "Uint16": "KUint16", "Uint32": "KUint32", "Uint64": "KUint64", "Uintptr": "KUintptr",
	"Float32": "KFloat32", "Float64": "KFloat64", "Complex64": "KComplex64", "Complex128": "KComplex128", "String": "KString", "Bool": "KBool"}

func (t *trFunc) kindList(l []ast.Expr) ([]string, error) {
	var ks []string
	for _, e := range l {
		sel, ok := e.(*ast.SelectorExpr)
		if !ok || t.text(sel.X) != "reflect" {
			return nil, t.errf(e, "case label %q is not a reflect kind", t.text(e))
		}
		k, ok := trKindNames[sel.Sel.Name]
		if !ok {
			return nil, t.errf(e, "unknown reflect kind %s", sel.Sel.Name)
		}
		ks = append(ks, k)
	}
	return ks, nil
}

var trCmpGuards = map[string]string{
	"isString(t0) || isString(t1)":   "GStr",
	"isFloat(t0) || isFloat(t1)":     "GFloat",
	"isUint(t0) || isUint(t1)":       "GUint",
	"isInt(t0) || isInt(t1)":         "GInt",
	"isComplex(t0) || isComplex(t1)": "GCplx",
	"isString(t)":                    "GStr",
	"isFloat(t)":                     "GFloat",
	"isUint(t)":                      "GUint",
	"isInt(t)":                       "GInt",
	"isComplex(t)":                   "GCplx",
	"isConst":                        "GConst",
}

// preamble statements that carry no row information (checked textually, so an edit is noticed)
var trPreamble = map[string]bool{
	"var mapValue, indexValue func(*frame) reflect.Value":                                                     true,
	"if setMap { mapValue = genValue(c0.child[0]) indexValue = genValue(c0.child[1]) }":                       true,
	"isConst := (v0.IsValid() && isConstantValue(v0.Type())) && (v1.IsValid() && isConstantValue(v1.Type()))": true,
	"isConst := (v0.IsValid() && isConstantValue(v0.Type()))":                                                 true,
	"isConst := v0.IsValid() && isConstantValue(v0.Type())":                                                   true,
	"if isConst { t = constVal }":                                                                             true,
	"n.rval = reflect.New(t).Elem()":                                                                          true,
	"return":                                                                                                  true,
}

func (t *trFunc) walk(stmts []ast.Stmt, env trOpsEnv, g trGuards) error {
	for _, st := range stmts {
		if trPreamble[t.text(st)] {
			continue
		}
		switch s := st.(type) {
		case *ast.AssignStmt:
			// n.exec = func...
			if len(s.Lhs) == 1 && t.text(s.Lhs[0]) == "n.exec" && s.Tok == token.ASSIGN {
				fl, ok := s.Rhs[0].(*ast.FuncLit)
				if !ok {
					return t.errf(s, "n.exec assigned a non-literal")
				}
				if err := t.closure(fl, env, g); err != nil {
					return err
				}
				continue
			}
			if s.Tok != token.DEFINE || len(s.Lhs) != len(s.Rhs) {
				return t.errf(s, "unsupported statement %q", t.text(s))
			}
			for i := range s.Lhs {
				id, ok := s.Lhs[i].(*ast.Ident)
				if !ok {
					return t.errf(s, "unsupported definition %q", t.text(s))
				}
				b, ok := t.bindRHS(s.Rhs[i], env)
				if !ok {
					return t.errf(s, "unsupported definition %q", t.text(s))
				}
				env[id.Name] = b
			}
		case *ast.ExprStmt:
			// fold: n.rval.SetX(expr)  /  n.rval.Set(reflect.ValueOf(v))
			row, err := t.foldStmt(s, env, g)
			if err != nil {
				return err
			}
			t.rows = append(t.rows, row)
		case *ast.SwitchStmt:
			if s.Init != nil {
				return t.errf(s, "switch with init")
			}
			if s.Tag != nil {
				tag := t.text(s.Tag)
				ktag := ""
				switch tag {
				case "typ.Kind()":
					ktag = "typ:" + env["typ"].text
				case "n.typ.TypeOf().Kind()":
					ktag = "ntyp"
				default:
					return t.errf(s, "unsupported switch tag %q", tag)
				}
				for _, cc := range s.Body.List {
					c := cc.(*ast.CaseClause)
					ks, err := t.kindList(c.List)
					if err != nil {
						return err
					}
					if len(ks) == 0 {
						return t.errf(c, "default clause in a kind switch")
					}
					g2 := g
					g2.kinds, g2.ktag = ks, ktag
					if err := t.walk(c.Body, env.clone(), g2); err != nil {
						return err
					}
				}
				continue
			}
			for _, cc := range s.Body.List {
				c := cc.(*ast.CaseClause)
				g2 := g
				cond := ""
				if len(c.List) == 1 {
					cond = t.text(c.List[0])
				} else if len(c.List) > 1 {
					return t.errf(c, "multi-expression case")
				}
				switch {
				case cond == "isInterface":
					g2.form = "FIface"
				case cond == "c0.rval.IsValid()":
					g2.form = "FC0"
				case cond == "c1.rval.IsValid()":
					g2.form = "FC1"
				case cond == "" && g.form == "FNone" && (g.guard != "GNone" || g.kinds != nil):
					g2.form = "FVar"
				case cond == "" && g.guard == "GNone" && g.kinds == nil:
					g2.guard = "GDefault"
				case trCmpGuards[cond] != "":
					g2.guard = trCmpGuards[cond]
				default:
					return t.errf(c, "unsupported case condition %q", cond)
				}
				if g2.guard == "GConst" {
					// constant.Value arithmetic (go/constant): recorded as text, any edit changes the row
					var parts []string
					for _, b := range c.Body {
						parts = append(parts, t.text(b))
					}
					t.rows = append(t.rows, trRow{fn: t.name, g: g2, dest: "DRval", set: "SSrc", next: "NT", body: "(Src " + coqRawStr(strings.Join(parts, "; ")) + ")"})
					continue
				}
				if err := t.walk(c.Body, env.clone(), g2); err != nil {
					return err
				}
			}
		case *ast.IfStmt:
			if s.Init != nil {
				return t.errf(s, "if with init")
			}
			cond := t.text(s.Cond)
			switch cond {
			case "c1.rval.IsValid()":
				g2 := g
				g2.form = "FC1"
				if err := t.walk(s.Body.List, env.clone(), g2); err != nil {
					return err
				}
				g3 := g
				g3.form = "FVar"
				eb, ok := s.Else.(*ast.BlockStmt)
				if !ok {
					return t.errf(s, "if c1.rval.IsValid() without else block")
				}
				if err := t.walk(eb.List, env.clone(), g3); err != nil {
					return err
				}
			case "n.fnext != nil":
				g2 := g
				g2.br = true
				if err := t.walk(s.Body.List, env.clone(), g2); err != nil {
					return err
				}
				if s.Else == nil && endsWithReturn(s.Body.List) {
					break // the statements after the block run when n.fnext == nil
				}
				eb, ok := s.Else.(*ast.BlockStmt)
				if !ok {
					return t.errf(s, "if n.fnext != nil without else block")
				}
				if err := t.walk(eb.List, env.clone(), g); err != nil {
					return err
				}
			case "c0.typ.cat == linkedT || c1.typ.cat == linkedT":
				g2 := g
				g2.guard = "GLinked"
				if s.Else != nil || !endsWithReturn(s.Body.List) {
					return t.errf(s, "linkedT block must end with return and have no else")
				}
				if err := t.walk(s.Body.List, env.clone(), g2); err != nil {
					return err
				}
			case "t0.Kind() == reflect.Interface || t1.Kind() == reflect.Interface":
				g2 := g
				g2.guard = "GIfaceOpd"
				if s.Else != nil || !endsWithReturn(s.Body.List) {
					return t.errf(s, "interface-operand block must end with return and have no else")
				}
				if err := t.walk(s.Body.List, env.clone(), g2); err != nil {
					return err
				}
			case "isInterface":
				g2 := g
				g2.form = "FIface"
				if s.Else != nil || !endsWithReturn(s.Body.List) {
					return t.errf(s, "if isInterface block must end with return and have no else")
				}
				if err := t.walk(s.Body.List, env.clone(), g2); err != nil {
					return err
				}
				g.form = "FVar" // the statements after the block run when !isInterface
			case "isConst":
				g2 := g
				g2.guard = "GConst"
				var parts []string
				for _, b := range s.Body.List {
					parts = append(parts, t.text(b))
				}
				t.rows = append(t.rows, trRow{fn: t.name, g: g2, dest: "DRval", set: "SSrc", next: "NT", body: "(Src " + coqRawStr(strings.Join(parts, "; ")) + ")"})
				eb, ok := s.Else.(*ast.BlockStmt)
				if !ok {
					return t.errf(s, "if isConst without else block")
				}
				g3 := g
				g3.guard = "GDefault"
				if err := t.walk(eb.List, env.clone(), g3); err != nil {
					return err
				}
			default:
				return t.errf(s, "unsupported if condition %q", cond)
			}
		case *ast.DeclStmt:
			return t.errf(s, "unsupported declaration %q", t.text(s))
		default:
			return t.errf(st, "unsupported statement %q", t.text(st))
		}
	}
	return nil
}

func endsWithReturn(l []ast.Stmt) bool {
	if len(l) == 0 {
		return false
	}
	r, ok := l[len(l)-1].(*ast.ReturnStmt)
	return ok && len(r.Results) == 0
}

var trBinOps = map[token.Token]string{token.ADD: "Add", token.SUB: "Sub", token.MUL: "Mul", token.QUO: "Quo", token.REM: "Rem",
	token.AND: "And", token.OR: "Or", token.XOR: "Xor", token.AND_NOT: "AndNot", token.SHL: "Shl", token.SHR: "Shr",
	token.EQL: "Eq", token.NEQ: "Ne", token.LSS: "Lt", token.LEQ: "Le", token.GTR: "Gt", token.GEQ: "Ge", token.LAND: "LAnd", token.LOR: "LOr"}
var trUnOps = map[token.Token]string{token.SUB: "Neg", token.XOR: "BitNot", token.NOT: "Not", token.ADD: "Pos"}

// expr renders an expression of a closure body as an OpDsl.ex term.
func (t *trFunc) expr(e ast.Expr, env trOpsEnv) (string, error) {
	switch x := e.(type) {
	case *ast.ParenExpr:
		return t.expr(x.X, env)
	case *ast.BasicLit:
		if x.Kind == token.INT {
			return "(K " + x.Value + ")", nil
		}
	case *ast.Ident:
		if b, ok := env[x.Name]; ok && b.kind == "leaf" {
			return b.text, nil
		}
	case *ast.BinaryExpr:
		o, ok := trBinOps[x.Op]
		if !ok {
			return "", t.errf(e, "unsupported operator %s", x.Op)
		}
		a, err := t.expr(x.X, env)
		if err != nil {
			return "", err
		}
		b, err := t.expr(x.Y, env)
		if err != nil {
			return "", err
		}
		return fmt.Sprintf("(B %s %s %s)", o, a, b), nil
	case *ast.UnaryExpr:
		o, ok := trUnOps[x.Op]
		if !ok {
			return "", t.errf(e, "unsupported unary operator %s", x.Op)
		}
		a, err := t.expr(x.X, env)
		if err != nil {
			return "", err
		}
		return fmt.Sprintf("(U %s %s)", o, a), nil
	case *ast.CallExpr:
		// vX(rv): generation-time extraction used inline (fold functions)
		if id, ok := x.Fun.(*ast.Ident); ok && len(x.Args) == 1 {
			if xn, ok := trValExtr[id.Name]; ok {
				if c, ok := t.rvalOf(x.Args[0], env); ok {
					return fmt.Sprintf("(L %s %d)", xn, c), nil
				}
			}
		}
		// g(f) where g is a gen closure returning the machine value directly (genComplex)
		if id, ok := x.Fun.(*ast.Ident); ok && len(x.Args) == 1 && t.text(x.Args[0]) == "f" {
			if b, ok := env[id.Name]; ok && b.kind == "gen" && b.extr == "XGenCplx" {
				return fmt.Sprintf("(L %s %d)", b.extr, b.child), nil
			}
		}
		// X.M() with X = g(f) (g := genValue(c)), a bound operand Value, or an rval
		if sel, ok := x.Fun.(*ast.SelectorExpr); ok && len(x.Args) == 0 {
			m, okm := trMethExtr[sel.Sel.Name]
			if okm {
				if c, ok := t.rvalOf(sel.X, env); ok {
					return fmt.Sprintf("(L XRv%s %d)", m, c), nil
				}
				if c, ok := t.opdValue(sel.X, env); ok {
					return fmt.Sprintf("(L XVal%s %d)", m, c), nil
				}
			}
		}
	}
	return "", t.errf(e, "unsupported expression %q", t.text(e))
}

// opdValue recognises an expression denoting the reflect.Value of operand c inside a closure:
// g(f) with g := genValue(c), or an identifier bound to it.
func (t *trFunc) opdValue(e ast.Expr, env trOpsEnv) (int, bool) {
	switch x := e.(type) {
	case *ast.Ident:
		if b, ok := env[x.Name]; ok && b.kind == "opd" {
			return b.child, true
		}
	case *ast.CallExpr:
		if id, ok := x.Fun.(*ast.Ident); ok && len(x.Args) == 1 && t.text(x.Args[0]) == "f" {
			if b, ok := env[id.Name]; ok && b.kind == "gen" && b.extr == "XVal" {
				return b.child, true
			}
		}
	}
	return 0, false
}

var trSetters = map[string]string{"SetInt": "SInt", "SetUint": "SUint", "SetFloat": "SFloat", "SetString": "SString", "SetBool": "SBool", "SetComplex": "SComplex"}

// setCall parses `D.SetX(expr)` / `D.Set(reflect.ValueOf(expr).Convert(typ))` / `D.Set(value(f))`.
// D is dest(f) or a bound operand Value. Returns dest, setter, body.
func (t *trFunc) setCall(e ast.Expr, env trOpsEnv) (dest, set, body string, err error) {
	call, ok := e.(*ast.CallExpr)
	if !ok || len(call.Args) != 1 {
		return "", "", "", t.errf(e, "unsupported statement %q", t.text(e))
	}
	sel, ok := call.Fun.(*ast.SelectorExpr)
	if !ok {
		return "", "", "", t.errf(e, "unsupported statement %q", t.text(e))
	}
	// destination
	switch d := sel.X.(type) {
	case *ast.CallExpr:
		id, ok := d.Fun.(*ast.Ident)
		if !ok || len(d.Args) != 1 || t.text(d.Args[0]) != "f" {
			return "", "", "", t.errf(e, "unsupported destination %q", t.text(sel.X))
		}
		b, ok := env[id.Name]
		if !ok || b.kind != "dest" {
			return "", "", "", t.errf(e, "destination %q is not a dest generator", t.text(sel.X))
		}
		dest = b.text
	case *ast.Ident:
		b, ok := env[d.Name]
		if !ok || b.kind != "opd" {
			return "", "", "", t.errf(e, "destination %q is not an operand value", d.Name)
		}
		dest = fmt.Sprintf("(DOpd %d)", b.child)
	case *ast.SelectorExpr:
		if t.text(d) != "n.rval" {
			return "", "", "", t.errf(e, "unsupported destination %q", t.text(d))
		}
		dest = "DRval"
	default:
		return "", "", "", t.errf(e, "unsupported destination %q", t.text(sel.X))
	}
	arg := call.Args[0]
	if s, ok := trSetters[sel.Sel.Name]; ok {
		body, err = t.expr(arg, env)
		return dest, s, body, err
	}
	if sel.Sel.Name != "Set" {
		return "", "", "", t.errf(e, "unsupported setter %s", sel.Sel.Name)
	}
	// Set(reflect.ValueOf(expr).Convert(typ))
	if c2, ok := arg.(*ast.CallExpr); ok {
		if s2, ok := c2.Fun.(*ast.SelectorExpr); ok && s2.Sel.Name == "Convert" && len(c2.Args) == 1 && t.text(c2.Args[0]) == "typ" {
			if b, ok := env["typ"]; !ok || b.text != "concrete" {
				return "", "", "", t.errf(e, "Convert(typ) where typ is not n.typ.concrete().TypeOf()")
			}
			if c3, ok := s2.X.(*ast.CallExpr); ok && t.text(c3.Fun) == "reflect.ValueOf" && len(c3.Args) == 1 {
				body, err = t.expr(c3.Args[0], env)
				return dest, "SConv", body, err
			}
		}
		// Set(value(f))
		if c, ok := t.opdValue(arg, env); ok {
			return dest, "SSet", fmt.Sprintf("(L XVal %d)", c), nil
		}
	}
	return "", "", "", t.errf(e, "unsupported Set argument %q", t.text(arg))
}

func (t *trFunc) nextOf(r *ast.ReturnStmt, env trOpsEnv) (string, error) {
	if len(r.Results) != 1 {
		return "", t.errf(r, "closure return without a value")
	}
	id, ok := r.Results[0].(*ast.Ident)
	if !ok {
		return "", t.errf(r, "unsupported return %q", t.text(r))
	}
	b, ok := env[id.Name]
	if !ok || b.kind != "next" {
		return "", t.errf(r, "return of %q which is not an exec successor", id.Name)
	}
	return b.text, nil
}

// closure parses one `func(f *frame) bltn {...}` and appends its row.
func (t *trFunc) closure(fl *ast.FuncLit, outer trOpsEnv, g trGuards) error {
	if t.text(fl.Type) != "func(f *frame) bltn" {
		return t.errf(fl, "unexpected closure type %q", t.text(fl.Type))
	}
	env := outer.clone()
	row := trRow{fn: t.name, g: g}
	stmts := fl.Body.List
	i := 0
	// leading extractions
	for ; i < len(stmts); i++ {
		as, ok := stmts[i].(*ast.AssignStmt)
		if !ok || as.Tok != token.DEFINE || len(as.Rhs) != 1 {
			break
		}
		rhs := as.Rhs[0]
		switch len(as.Lhs) {
		case 2:
			// _, i := v0(f)   /   v, i := v0(f)
			call, ok := rhs.(*ast.CallExpr)
			if !ok || len(call.Args) != 1 || t.text(call.Args[0]) != "f" {
				return t.errf(as, "unsupported extraction %q", t.text(as))
			}
			id, ok := call.Fun.(*ast.Ident)
			if !ok {
				return t.errf(as, "unsupported extraction %q", t.text(as))
			}
			b, ok := env[id.Name]
			if !ok || b.kind != "gen" || b.extr == "XVal" || b.extr == "XGenCplx" {
				return t.errf(as, "%q is not a two-result extractor", id.Name)
			}
			v0, v1 := as.Lhs[0].(*ast.Ident), as.Lhs[1].(*ast.Ident)
			if v0.Name != "_" {
				env[v0.Name] = trOpsBind{kind: "opd", child: b.child}
			}
			env[v1.Name] = trOpsBind{kind: "leaf", text: fmt.Sprintf("(L %s %d)", b.extr, b.child)}
		case 1:
			v := as.Lhs[0].(*ast.Ident)
			if c, ok := t.opdValue(rhs, env); ok { // v := v0(f)
				env[v.Name] = trOpsBind{kind: "opd", child: c}
				continue
			}
			ex, err := t.expr(rhs, env) // i0 := v0(f).Interface() ; s1 := v1(f)
			if err != nil {
				return err
			}
			env[v.Name] = trOpsBind{kind: "leaf", text: ex}
		default:
			return t.errf(as, "unsupported extraction %q", t.text(as))
		}
	}
	rest := stmts[i:]
	// branch form: if E { D.SetBool(true); return tnext }; D.SetBool(false); return fnext
	if len(rest) == 3 {
		if ifs, ok := rest[0].(*ast.IfStmt); ok && ifs.Init == nil && ifs.Else == nil && len(ifs.Body.List) == 2 {
			cond, err := t.expr(ifs.Cond, env)
			if err != nil {
				return err
			}
			e1, ok1 := ifs.Body.List[0].(*ast.ExprStmt)
			r1, ok2 := ifs.Body.List[1].(*ast.ReturnStmt)
			e2, ok3 := rest[1].(*ast.ExprStmt)
			r2, ok4 := rest[2].(*ast.ReturnStmt)
			if !(ok1 && ok2 && ok3 && ok4) {
				return t.errf(ifs, "unsupported branch closure")
			}
			d1, s1, b1, err := t.setCall(e1.X, env)
			if err != nil {
				return err
			}
			d2, s2, b2, err := t.setCall(e2.X, env)
			if err != nil {
				return err
			}
			n1, err := t.nextOf(r1, env)
			if err != nil {
				return err
			}
			n2, err := t.nextOf(r2, env)
			if err != nil {
				return err
			}
			if d1 != d2 || s1 != "SBool" || s2 != "SBool" {
				return t.errf(ifs, "unsupported branch closure (destinations/setters)")
			}
			lit := func(b string) (string, bool) {
				switch b {
				case "(KB true)":
					return "true", true
				case "(KB false)":
					return "false", true
				}
				return "", false
			}
			v1, okv1 := lit(b1)
			v2, okv2 := lit(b2)
			if !okv1 || !okv2 {
				return t.errf(ifs, "branch closure stores a non-literal")
			}
			row.dest, row.set, row.next, row.body = d1, fmt.Sprintf("(SBranch %s %s %s %s)", v1, n1, v2, n2), "NT", cond
			t.rows = append(t.rows, row)
			return nil
		}
	}
	// plain form: D.SetX(expr) [if setMap {...}] return next
	if len(rest) < 2 || len(rest) > 3 {
		return t.errf(fl, "unsupported closure shape (%d trailing statements)", len(rest))
	}
	es, ok := rest[0].(*ast.ExprStmt)
	if !ok {
		return t.errf(rest[0], "unsupported closure statement %q", t.text(rest[0]))
	}
	var err error
	row.dest, row.set, row.body, err = t.setCall(es.X, env)
	if err != nil {
		return err
	}
	if len(rest) == 3 {
		if t.text(rest[1]) != "if setMap { mapValue(f).SetMapIndex(indexValue(f), v) }" {
			return t.errf(rest[1], "unsupported closure statement %q", t.text(rest[1]))
		}
		if b, ok := env["v"]; !ok || b.kind != "opd" || b.child != 0 {
			return t.errf(rest[1], "SetMapIndex of a value that is not operand 0")
		}
		row.mapT = true
	}
	r, ok := rest[len(rest)-1].(*ast.ReturnStmt)
	if !ok {
		return t.errf(rest[len(rest)-1], "closure does not end with return")
	}
	row.next, err = t.nextOf(r, env)
	if err != nil {
		return err
	}
	t.rows = append(t.rows, row)
	return nil
}

// foldStmt parses `n.rval.SetX(expr)` in the *Const functions.
func (t *trFunc) foldStmt(s *ast.ExprStmt, env trOpsEnv, g trGuards) (trRow, error) {
	d, set, body, err := t.setCall(s.X, env)
	if err != nil {
		return trRow{}, err
	}
	if d != "DRval" {
		return trRow{}, t.errf(s, "fold statement with destination %s", d)
	}
	g.form = "FFold"
	return trRow{fn: t.name, g: g, dest: d, set: set, next: "NT", body: body}, nil
}

func trParseFuncs(path string, want map[string]bool) (*token.FileSet, map[string]*ast.FuncDecl, []string, error) {
	fset := token.NewFileSet()
	f, err := parser.ParseFile(fset, path, nil, 0)
	if err != nil {
		return nil, nil, nil, err
	}
	res := map[string]*ast.FuncDecl{}
	var order []string
	for _, d := range f.Decls {
		fd, ok := d.(*ast.FuncDecl)
		if !ok || fd.Recv != nil {
			continue
		}
		if want == nil || want[fd.Name.Name] {
			res[fd.Name.Name] = fd
			order = append(order, fd.Name.Name)
		}
	}
	return fset, res, order, nil
}

func trRowsOf(fset *token.FileSet, fd *ast.FuncDecl) ([]trRow, error) {
	t := &trFunc{name: fd.Name.Name, fset: fset}
	if nodeText(fset, fd.Type) != "func(n *node)" {
		return nil, t.errf(fd, "unexpected signature %q", nodeText(fset, fd.Type))
	}
	env := trOpsEnv{"true": {kind: "leaf", text: "(KB true)"}, "false": {kind: "leaf", text: "(KB false)"}}
	g := trGuards{guard: "GNone", form: "FNone"}
	if err := t.walk(fd.Body.List, env, g); err != nil {
		return nil, err
	}
	if len(t.rows) == 0 {
		return nil, t.errf(fd, "no closure found")
	}
	return t.rows, nil
}

func (r trRow) coq() string {
	ks := "[" + strings.Join(r.g.kinds, "; ") + "]"
	ktag := r.g.ktag
	if ktag == "" {
		ktag = "none"
	}
	return fmt.Sprintf("mk_row %s %s %s %s %s %s %s %s %s %s %s", coqRawStr(r.fn), ks, coqRawStr(ktag), r.g.guard, r.g.form, coqBool(r.g.br), r.dest, r.set, coqBool(r.mapT), r.next, r.body)
}

// ---------------------------------------------------------------- convert (run.go): only the final closure

func trConvertRow(fset *token.FileSet, fd *ast.FuncDecl) (string, error) {
	// the function is recorded as the list of its n.exec closures (text), the last of which must be the reflect conversion
	var closures []string
	ast.Inspect(fd.Body, func(n ast.Node) bool {
		if as, ok := n.(*ast.AssignStmt); ok && len(as.Lhs) == 1 && nodeText(fset, as.Lhs[0]) == "n.exec" {
			closures = append(closures, nodeText(fset, as.Rhs[0]))
		}
		return true
	})
	if len(closures) == 0 {
		return "", fmt.Errorf("convert: no closure found")
	}
	doc := "false"
	ast.Inspect(fd.Body, func(n ast.Node) bool {
		if as, ok := n.(*ast.AssignStmt); ok && nodeText(fset, as) == "doConvert := true" {
			doc = "true"
		}
		if as, ok := n.(*ast.AssignStmt); ok && as.Tok == token.ASSIGN && len(as.Lhs) == 1 && nodeText(fset, as.Lhs[0]) == "doConvert" {
			doc = "false" // reassigned somewhere
		}
		return true
	})
	typ := "?"
	ast.Inspect(fd.Body, func(n ast.Node) bool {
		if as, ok := n.(*ast.AssignStmt); ok && as.Tok == token.DEFINE && len(as.Lhs) == 1 && nodeText(fset, as.Lhs[0]) == "typ" {
			typ = nodeText(fset, as.Rhs[0])
		}
		return true
	})
	last := closures[len(closures)-1]
	return fmt.Sprintf("Definition convert_closure : string := %s.\nDefinition convert_do : bool := %s.\nDefinition convert_typ : string := %s.\n", coqRawStr(last), doc, coqRawStr(typ)), nil
}

// ---------------------------------------------------------------- typecheck.go convertConst

// trConvertConst renders the kind cases of typecheck.convertConst (how an untyped constant is
// materialised at a basic kind: which go/constant accessor, hence how many roundings).
func trConvertConst(path string) (string, error) {
	fset, fds, _, err := trParseMethods(path, "convertConst")
	if err != nil {
		return "", err
	}
	fd := fds["convertConst"]
	if fd == nil {
		return "", fmt.Errorf("typecheck.go: method convertConst not found")
	}
	var rows []string
	var ferr error
	found := false
	ast.Inspect(fd.Body, func(n ast.Node) bool {
		sw, ok := n.(*ast.SwitchStmt)
		if !ok || sw.Tag == nil || nodeText(fset, sw.Tag) != "kind" {
			return true
		}
		found = true
		for _, cc := range sw.Body.List {
			c := cc.(*ast.CaseClause)
			if len(c.List) == 0 {
				continue
			}
			t := &trFunc{name: "convertConst", fset: fset}
			ks, err := t.kindList(c.List)
			if err != nil {
				ferr = err
				return false
			}
			var parts []string
			for _, st := range c.Body {
				parts = append(parts, nodeText(fset, st))
			}
			rows = append(rows, fmt.Sprintf("([%s], %s)", strings.Join(ks, "; "), coqRawStr(strings.Join(parts, "; "))))
		}
		return false
	})
	if ferr != nil {
		return "", ferr
	}
	if !found {
		return "", fmt.Errorf("typecheck.go: convertConst: no `switch kind` found")
	}
	return "Definition convertconst_cases : list (list rkind * string) := [\n  " + strings.Join(rows, ";\n  ") + "\n].\n", nil
}

func trParseMethods(path, name string) (*token.FileSet, map[string]*ast.FuncDecl, []string, error) {
	fset := token.NewFileSet()
	f, err := parser.ParseFile(fset, path, nil, 0)
	if err != nil {
		return nil, nil, nil, err
	}
	res := map[string]*ast.FuncDecl{}
	for _, d := range f.Decls {
		if fd, ok := d.(*ast.FuncDecl); ok && fd.Recv != nil && fd.Name.Name == name {
			res[name] = fd
		}
	}
	return fset, res, nil, nil
}

// ---------------------------------------------------------------- value.go extractors

// trExtractors renders, for genValueInt/Uint/Float and vInt/vUint/vFloat, the conversion applied per kind case.
func trExtractors(path string) (string, error) {
	names := []string{"genValueInt", "genValueUint", "genValueFloat", "vInt", "vUint", "vFloat"}
	want := map[string]bool{}
	for _, n := range names {
		want[n] = true
	}
	fset, fds, _, err := trParseFuncs(path, want)
	if err != nil {
		return "", err
	}
	var rows []string
	for _, name := range names {
		fd := fds[name]
		if fd == nil {
			return "", fmt.Errorf("value.go: function %s not found", name)
		}
		found := 0
		var ferr error
		ast.Inspect(fd.Body, func(n ast.Node) bool {
			sw, ok := n.(*ast.SwitchStmt)
			if !ok || sw.Tag == nil {
				return true
			}
			tag := nodeText(fset, sw.Tag)
			if tag != "n.typ.TypeOf().Kind()" && tag != "v.Kind()" {
				ferr = fmt.Errorf("value.go: %s: unexpected switch tag %q", name, tag)
				return false
			}
			for _, cc := range sw.Body.List {
				c := cc.(*ast.CaseClause)
				t := &trFunc{name: name, fset: fset}
				ks, err := t.kindList(c.List)
				if err != nil {
					ferr = err
					return false
				}
				// the conversion expression: `return v, EXPR` inside the returned closure, or `i = EXPR`
				var conv string
				ast.Inspect(&ast.BlockStmt{List: c.Body}, func(m ast.Node) bool {
					switch y := m.(type) {
					case *ast.ReturnStmt:
						if len(y.Results) == 2 {
							conv = nodeText(fset, y.Results[1])
						}
					case *ast.AssignStmt:
						if y.Tok == token.ASSIGN && len(y.Lhs) == 1 && nodeText(fset, y.Lhs[0]) == "i" {
							conv = nodeText(fset, y.Rhs[0])
						}
					}
					return true
				})
				guard := ""
				if len(c.Body) == 1 {
					if ifs, ok := c.Body[0].(*ast.IfStmt); ok {
						guard = nodeText(fset, ifs.Cond)
					}
				}
				rows = append(rows, fmt.Sprintf("(%s, [%s], %s, %s)", coqRawStr(name), strings.Join(ks, "; "), coqRawStr(conv), coqRawStr(guard)))
				found++
			}
			return false
		})
		if ferr != nil {
			return "", ferr
		}
		if found == 0 {
			return "", fmt.Errorf("value.go: %s: no kind switch found", name)
		}
		// constant.Value branch of the v* functions
		if strings.HasPrefix(name, "v") {
			ctext := ""
			for _, st := range fd.Body.List {
				if ifs, ok := st.(*ast.IfStmt); ok && ifs.Init != nil {
					ctext = nodeText(fset, ifs)
				}
			}
			rows = append(rows, fmt.Sprintf("(%s, [], %s, %s)", coqRawStr(name), coqRawStr(ctext), coqRawStr("const")))
		}
	}
	return "Definition extr_table : list (string * list rkind * string * string) := [\n  " + strings.Join(rows, ";\n  ") + "\n].\n", nil
}

// ---------------------------------------------------------------- driver

var trRunFuncs = []string{"neg", "pos", "bitNot", "not", "land", "lor"}

func trOpsRender(repo string) (string, int, error) {
	var b strings.Builder
	b.WriteString("(* generated by vh tr-ops from interp/op.go, interp/run.go, interp/value.go; do not edit *)\n")
	b.WriteString("From Coq Require Import ZArith List String.\nFrom Verif Require Import Num.OpDsl.\nImport ListNotations.\nOpen Scope string_scope.\nOpen Scope Z_scope.\n")
	var rows []string
	fset, fds, order, err := trParseFuncs(filepath.Join(repo, "interp", "op.go"), nil)
	if err != nil {
		return "", 0, err
	}
	for _, name := range order {
		rs, err := trRowsOf(fset, fds[name])
		if err != nil {
			return "", 0, err
		}
		for _, r := range rs {
			rows = append(rows, r.coq())
		}
	}
	want := map[string]bool{"convert": true}
	for _, n := range trRunFuncs {
		want[n] = true
	}
	fset2, fds2, _, err := trParseFuncs(filepath.Join(repo, "interp", "run.go"), want)
	if err != nil {
		return "", 0, err
	}
	for _, name := range trRunFuncs {
		fd := fds2[name]
		if fd == nil {
			return "", 0, fmt.Errorf("run.go: function %s not found", name)
		}
		rs, err := trRowsOf(fset2, fd)
		if err != nil {
			return "", 0, err
		}
		for _, r := range rs {
			rows = append(rows, r.coq())
		}
	}
	fmt.Fprintf(&b, "Definition op_table : list row := [\n  %s\n].\n", strings.Join(rows, ";\n  "))
	if fds2["convert"] == nil {
		return "", 0, fmt.Errorf("run.go: function convert not found")
	}
	cv, err := trConvertRow(fset2, fds2["convert"])
	if err != nil {
		return "", 0, err
	}
	b.WriteString(cv)
	cc, err := trConvertConst(filepath.Join(repo, "interp", "typecheck.go"))
	if err != nil {
		return "", 0, err
	}
	b.WriteString(cc)
	ex, err := trExtractors(filepath.Join(repo, "interp", "value.go"))
	if err != nil {
		return "", 0, err
	}
	b.WriteString(ex)
	// the functions of op.go, in order (a new or removed operator function changes this list)
	sort.Strings(order)
	var fl []string
	for _, o := range order {
		fl = append(fl, coqRawStr(o))
	}
	fmt.Fprintf(&b, "Definition op_functions : list string := [%s].\n", strings.Join(fl, "; "))
	return b.String(), len(rows), nil
}

func trOps(args []string) error {
	fs := flag.NewFlagSet("tr-ops", flag.ExitOnError)
	repo := fs.String("repo", "/repo", "repository root")
	out := fs.String("out", "/verif/coq/gen", "output directory")
	selftest := fs.Bool("selftest", false, "mutate scratch copies of op.go and check that the table changes")
	fs.Parse(args)
	if *selftest {
		return trOpsSelfTest(*repo)
	}
	txt, _, err := trOpsRender(*repo)
	if err != nil {
		return err
	}
	return writeIfChanged(filepath.Join(*out, "OpTable_gen.v"), []byte(txt))
}

// trOpsSelfTest applies textual mutations to a scratch copy of the three files and checks that
// every mutation either changes the rendered table or is refused by the translator.
func trOpsSelfTest(repo string) error {
	base, n, err := trOpsRender(repo)
	if err != nil {
		return err
	}
	type mut struct{ file, old, new string }
	muts := []mut{
		{"op.go", "dest(f).SetInt(i + j)", "dest(f).SetInt(i - j)"},
		{"op.go", "dest(f).SetUint(i + j)", "dest(f).SetInt(int64(i + j))"},
		{"op.go", "dest(f).SetUint(i << j)", "dest(f).SetUint(i >> j)"},
		{"op.go", "i := vInt(c0.rval)\n\t\t\tv1 := genValueInt(c1)", "i := vInt(c1.rval)\n\t\t\tv1 := genValueInt(c1)"},
		{"op.go", "v0 := genValueUint(c0)\n\t\t\tv1 := genValueUint(c1)", "v0 := genValueInt(c0)\n\t\t\tv1 := genValueUint(c1)"},
		{"op.go", "if s0 > s1 {\n\t\t\t\t\t\tdest(f).SetBool(true)\n\t\t\t\t\t\treturn tnext", "if s0 >= s1 {\n\t\t\t\t\t\tdest(f).SetBool(true)\n\t\t\t\t\t\treturn tnext"},
		{"op.go", "dest(f).SetBool(false)\n\t\t\t\t\treturn fnext", "dest(f).SetBool(false)\n\t\t\t\t\treturn tnext"},
		{"op.go", "v.SetInt(i + 1)", "v.SetInt(i + 2)"},
		{"op.go", "case reflect.Uint, reflect.Uint8, reflect.Uint16, reflect.Uint32, reflect.Uint64:\n\t\tv0 := genValueUint(c0)\n\t\tn.exec = func(f *frame) bltn {\n\t\t\tv, i := v0(f)\n\t\t\tv.SetUint(i - 1)", "case reflect.Uint, reflect.Uint8, reflect.Uint16, reflect.Uint32:\n\t\tv0 := genValueUint(c0)\n\t\tn.exec = func(f *frame) bltn {\n\t\t\tv, i := v0(f)\n\t\t\tv.SetUint(i - 1)"},
		{"op.go", "n.rval.SetInt(vInt(v0) % vInt(v1))", "n.rval.SetInt(vInt(v0) / vInt(v1))"},
		{"op.go", "case c0.rval.IsValid():\n\t\t\ti := vUint(c0.rval)", "case c1.rval.IsValid():\n\t\t\ti := vUint(c0.rval)"},
		{"run.go", "dest(f).SetInt(-value(f).Int())", "dest(f).SetInt(value(f).Int())"},
		{"run.go", "dest(f).SetUint(^value(f).Uint())", "dest(f).SetUint(-value(f).Uint())"},
		{"run.go", "dest(f).Set(value(f).Convert(typ))", "dest(f).Set(value(f))"},
		{"run.go", "if value0(f).Bool() && value1(f).Bool() {\n\t\t\t\tdest(f).SetBool(true)\n\t\t\t\treturn tnext\n\t\t\t}\n\t\t\tdest(f).SetBool(false)\n\t\t\treturn fnext", "if value0(f).Bool() && value1(f).Bool() {\n\t\t\t\tdest(f).SetBool(true)\n\t\t\t\treturn tnext\n\t\t\t}\n\t\t\treturn fnext"},
		{"value.go", "return v, int64(v.Uint())", "return v, int64(uint32(v.Uint()))"},
		{"value.go", "i = uint64(v.Int())", "i = uint64(int32(v.Int()))"},
		{"typecheck.go", "f, _ := constant.Float32Val(constant.ToFloat(c))\n\t\tv = reflect.ValueOf(f)", "f, _ := constant.Float64Val(constant.ToFloat(c))\n\t\tv = reflect.ValueOf(f).Convert(t)"},
	}
	dir, err := os.MkdirTemp("", "vh-trops-*")
	if err != nil {
		return err
	}
	defer os.RemoveAll(dir)
	os.MkdirAll(filepath.Join(dir, "interp"), 0o755)
	orig := map[string]string{}
	for _, f := range []string{"op.go", "run.go", "value.go", "typecheck.go"} {
		b, err := os.ReadFile(filepath.Join(repo, "interp", f))
		if err != nil {
			return err
		}
		orig[f] = string(b)
	}
	changed, refused := 0, 0
	for i, m := range muts {
		if !strings.Contains(orig[m.file], m.old) {
			return fmt.Errorf("selftest: mutation %d: pattern not found in %s (the source changed; update the self-test)", i, m.file)
		}
		for f, src := range orig {
			if f == m.file {
				src = strings.Replace(src, m.old, m.new, 1)
			}
			if err := os.WriteFile(filepath.Join(dir, "interp", f), []byte(src), 0o644); err != nil {
				return err
			}
		}
		got, _, err := trOpsRender(dir)
		switch {
		case err != nil:
			refused++
		case got != base:
			changed++
		default:
			return fmt.Errorf("selftest: mutation %d (%s: %q -> %q) left the table unchanged", i, m.file, m.old, m.new)
		}
	}
	fmt.Printf("tr-ops selftest: %d rows; %d mutations: %d changed the table, %d refused by the translator, 0 unnoticed\n", n, len(muts), changed, refused)
	return nil
}
