package main

import (
	"fmt"
	"os"
	"path/filepath"
	"strconv"
	"strings"
)

// C01 fragment stream: programs of MiniGo (coq/Core/Syntax.v), rendered from one AST both as Go source
// (run by yaegi and by the compiled binary) and as a Gallina term (run by the models Y = Cfg.run and
// G = GoSem.run inside Coq). The main part stays inside the proved fragment (wf_program); small
// region parts leave it through exactly one clause (loopvar-assign, for-init-only, loop-empty-body,
// switch-default-order, switch-init-tag, switch-case-list).

type mgA struct { // integer expression
	k    string // lit var neg bin
	z    int64
	x    int
	op   string
	a, b *mgA
}

type mgB struct { // boolean expression
	k    string // lit cmp not and or
	v    bool
	op   string
	a, b *mgA
	l, r *mgB
}

type mgS struct {
	k     string // assign define opassign incdec print block if for break continue
	x     int
	op    string
	inc   bool
	e     *mgA
	c     *mgB
	init  *mgS
	post  *mgS
	body  []*mgS
	els   []*mgS
	hasEl bool
	tag   *mgA   // switch: nil = no tag
	cls   []*mgC // switch: the clauses
}

type mgC struct { // case clause
	def   bool
	ints  []*mgA
	bools []*mgB
	body  []*mgS
	ft    bool
}

var mgGoOp = map[string]string{"Add": "+", "Sub": "-", "Mul": "*", "Quo": "/", "Rem": "%", "And": "&", "Or": "|", "Xor": "^",
	"Eq": "==", "Ne": "!=", "Lt": "<", "Le": "<=", "Gt": ">", "Ge": ">="}

func (a *mgA) goSrc() string {
	switch a.k {
	case "lit":
		if a.z < 0 {
			return "(" + strconv.FormatInt(a.z, 10) + ")"
		}
		return strconv.FormatInt(a.z, 10)
	case "var":
		return fmt.Sprintf("x%d", a.x)
	case "neg":
		return "(-" + a.a.goSrc() + ")"
	}
	return "(" + a.a.goSrc() + " " + mgGoOp[a.op] + " " + a.b.goSrc() + ")"
}

func (a *mgA) coq() string {
	switch a.k {
	case "lit":
		if a.z < 0 {
			return fmt.Sprintf("(ALit (%d))", a.z)
		}
		return fmt.Sprintf("(ALit %d)", a.z)
	case "var":
		return fmt.Sprintf("(AVar (v %d%%N))", a.x)
	case "neg":
		return "(ANeg " + a.a.coq() + ")"
	}
	return "(ABin " + a.op + " " + a.a.coq() + " " + a.b.coq() + ")"
}

func (b *mgB) goSrc() string {
	switch b.k {
	case "lit":
		return fmt.Sprint(b.v)
	case "cmp":
		return "(" + b.a.goSrc() + " " + mgGoOp[b.op] + " " + b.b.goSrc() + ")"
	case "not":
		return "(!" + b.l.goSrc() + ")"
	case "and":
		return "(" + b.l.goSrc() + " && " + b.r.goSrc() + ")"
	}
	return "(" + b.l.goSrc() + " || " + b.r.goSrc() + ")"
}

func (b *mgB) coq() string {
	switch b.k {
	case "lit":
		return "(BLit " + coqBool(b.v) + ")"
	case "cmp":
		return "(BCmp " + b.op + " " + b.a.coq() + " " + b.b.coq() + ")"
	case "not":
		return "(BNot " + b.l.coq() + ")"
	case "and":
		return "(BAnd " + b.l.coq() + " " + b.r.coq() + ")"
	}
	return "(BOr " + b.l.coq() + " " + b.r.coq() + ")"
}

func mgSimpleGo(s *mgS) string {
	switch s.k {
	case "assign":
		return fmt.Sprintf("x%d = %s", s.x, s.e.goSrc())
	case "define":
		return fmt.Sprintf("x%d := %s", s.x, s.e.goSrc())
	case "opassign":
		return fmt.Sprintf("x%d %s= %s", s.x, mgGoOp[s.op], s.e.goSrc())
	case "incdec":
		if s.inc {
			return fmt.Sprintf("x%d++", s.x)
		}
		return fmt.Sprintf("x%d--", s.x)
	case "print":
		return "fmt.Println(" + s.e.goSrc() + ")"
	}
	return ""
}

func mgBlockGo(l []*mgS, ind string, b *strings.Builder) {
	for _, s := range l {
		s.goSrc(ind, b)
	}
}

func (s *mgS) goSrc(ind string, b *strings.Builder) {
	switch s.k {
	case "assign", "define", "opassign", "incdec", "print":
		b.WriteString(ind + mgSimpleGo(s) + "\n")
	case "break", "continue":
		b.WriteString(ind + s.k + "\n")
	case "block":
		b.WriteString(ind + "{\n")
		mgBlockGo(s.body, ind+"\t", b)
		b.WriteString(ind + "}\n")
	case "if":
		b.WriteString(ind + "if ")
		if s.init != nil {
			b.WriteString(mgSimpleGo(s.init) + "; ")
		}
		b.WriteString(s.c.goSrc() + " {\n")
		mgBlockGo(s.body, ind+"\t", b)
		if s.hasEl {
			b.WriteString(ind + "} else {\n")
			mgBlockGo(s.els, ind+"\t", b)
		}
		b.WriteString(ind + "}\n")
	case "for":
		b.WriteString(ind + "for ")
		if s.init != nil || s.post != nil {
			if s.init != nil {
				b.WriteString(mgSimpleGo(s.init))
			}
			b.WriteString("; ")
			if s.c != nil {
				b.WriteString(s.c.goSrc())
			}
			b.WriteString("; ")
			if s.post != nil {
				b.WriteString(mgSimpleGo(s.post) + " ")
			}
		} else if s.c != nil {
			b.WriteString(s.c.goSrc() + " ")
		}
		b.WriteString("{\n")
		mgBlockGo(s.body, ind+"\t", b)
		b.WriteString(ind + "}\n")
	case "switch":
		b.WriteString(ind + "switch ")
		if s.init != nil {
			b.WriteString(mgSimpleGo(s.init) + "; ")
		}
		if s.tag != nil {
			b.WriteString(s.tag.goSrc() + " ")
		}
		b.WriteString("{\n")
		for _, c := range s.cls {
			var es []string
			for _, e := range c.ints {
				es = append(es, e.goSrc())
			}
			for _, e := range c.bools {
				es = append(es, e.goSrc())
			}
			if c.def {
				b.WriteString(ind + "default:\n")
			} else {
				b.WriteString(ind + "case " + strings.Join(es, ", ") + ":\n")
			}
			mgBlockGo(c.body, ind+"\t", b)
			if c.ft {
				b.WriteString(ind + "\tfallthrough\n")
			}
		}
		b.WriteString(ind + "}\n")
	}
}

func mgListCoq(l []*mgS) string {
	var it []string
	for _, s := range l {
		it = append(it, s.coq())
	}
	return "[" + strings.Join(it, "; ") + "]"
}

func mgOptCoq(s *mgS) string {
	if s == nil {
		return "None"
	}
	return "(Some " + s.coq() + ")"
}

func (s *mgS) coq() string {
	switch s.k {
	case "assign":
		return fmt.Sprintf("(SAssign (v %d%%N) %s)", s.x, s.e.coq())
	case "define":
		return fmt.Sprintf("(SDefine (v %d%%N) %s)", s.x, s.e.coq())
	case "opassign":
		return fmt.Sprintf("(SOpAssign %s (v %d%%N) %s)", s.op, s.x, s.e.coq())
	case "incdec":
		return fmt.Sprintf("(SIncDec %s (v %d%%N))", coqBool(s.inc), s.x)
	case "print":
		return "(SPrint " + s.e.coq() + ")"
	case "break":
		return "SBreak"
	case "continue":
		return "SContinue"
	case "block":
		return "(SBlock " + mgListCoq(s.body) + ")"
	case "if":
		el := "None"
		if s.hasEl {
			el = "(Some " + mgListCoq(s.els) + ")"
		}
		return "(SIf " + mgOptCoq(s.init) + " " + s.c.coq() + " " + mgListCoq(s.body) + " " + el + ")"
	case "for":
		c := "None"
		if s.c != nil {
			c = "(Some " + s.c.coq() + ")"
		}
		return "(SFor " + mgOptCoq(s.init) + " " + c + " " + mgOptCoq(s.post) + " " + mgListCoq(s.body) + ")"
	case "switch":
		tag := "None"
		if s.tag != nil {
			tag = "(Some " + s.tag.coq() + ")"
		}
		var cl []string
		for _, c := range s.cls {
			ce := "CDefault"
			if !c.def {
				var es []string
				for _, e := range c.ints {
					es = append(es, e.coq())
				}
				for _, e := range c.bools {
					es = append(es, e.coq())
				}
				if s.tag != nil {
					ce = "(CInts [" + strings.Join(es, "; ") + "])"
				} else {
					ce = "(CBools [" + strings.Join(es, "; ") + "])"
				}
			}
			cl = append(cl, "(SCase "+ce+" "+mgListCoq(c.body)+" "+coqBool(c.ft)+")")
		}
		return "(SSwitch " + mgOptCoq(s.init) + " " + tag + " [" + strings.Join(cl, "; ") + "])"
	}
	return "SBreak"
}

// ---------------------------------------------------------------- generator

type mgGen struct {
	r       *rng
	next    int          // next fresh variable number
	scopes  [][]int      // visible variables per block
	prot    map[int]bool // variables generated statements must not assign (loop variables, counters)
	inLoop  int
	inSw    int
	mult    int
	feat    map[string]int
	region  string // region to leave the fragment through ("" = stay inside)
	regDone bool
}

func (g *mgGen) visible() []int {
	seen := map[int]bool{}
	var out []int
	for i := len(g.scopes) - 1; i >= 0; i-- {
		for j := len(g.scopes[i]) - 1; j >= 0; j-- {
			x := g.scopes[i][j]
			if !seen[x] {
				seen[x] = true
				out = append(out, x)
			}
		}
	}
	return out
}

func (g *mgGen) declare(x int) { g.scopes[len(g.scopes)-1] = append(g.scopes[len(g.scopes)-1], x) }

func (g *mgGen) fresh() int {
	g.next++
	return g.next - 1
}

func (g *mgGen) lit() *mgA {
	switch g.r.intn(14) {
	case 0:
		return &mgA{k: "lit", z: 9223372036854775807 - int64(g.r.intn(3))}
	case 1:
		// not MinInt64 itself: go1.23.5 miscompiles (MinInt64 + x) % 4 for a non-negative loop variable x
		return &mgA{k: "lit", z: -9223372036854775807 + int64(g.r.intn(3))}
	case 2:
		return &mgA{k: "lit", z: int64(g.r.intn(100000))}
	case 3:
		return &mgA{k: "lit", z: 0}
	default:
		z := int64(g.r.intn(12))
		if g.r.chance(25) {
			z = -z
		}
		return &mgA{k: "lit", z: z}
	}
}

func (g *mgGen) avar() *mgA {
	vs := g.visible()
	return &mgA{k: "var", x: vs[g.r.intn(len(vs))]}
}

// aexp: never a constant expression except a bare literal (yaegi folds constants; the model does not).
func (g *mgGen) aexp(depth int) *mgA {
	if depth <= 0 || g.r.chance(30) {
		if g.r.chance(65) {
			return g.avar()
		}
		return g.lit()
	}
	if g.r.chance(12) {
		a := g.aexp(depth - 1)
		if a.k == "lit" {
			a = g.avar()
		}
		return &mgA{k: "neg", a: a}
	}
	ops := []string{"Add", "Sub", "Mul", "Add", "Sub", "Mul", "And", "Or", "Xor", "Quo", "Rem"}
	op := g.r.pick(ops)
	a, b := g.aexp(depth-1), g.aexp(depth-1)
	if a.k == "lit" && b.k == "lit" {
		if g.r.bool() {
			a = g.avar()
		} else {
			b = g.avar()
		}
	}
	if (op == "Quo" || op == "Rem") && b.k == "lit" && b.z == 0 {
		b = g.avar()
	}
	if (op == "Quo" || op == "Rem") && g.r.chance(85) {
		// mostly a non-zero literal divisor; sometimes anything (a division by zero ends the program)
		z := int64(1 + g.r.intn(7))
		if g.r.chance(20) {
			z = -z
		}
		b = &mgA{k: "lit", z: z}
		if a.k == "lit" {
			a = g.avar()
		}
	}
	return &mgA{k: "bin", op: op, a: a, b: b}
}

func (g *mgGen) cmp(depth int) *mgB {
	a, b := g.aexp(depth), g.aexp(depth)
	if a.k == "lit" && b.k == "lit" {
		a = g.avar()
	}
	return &mgB{k: "cmp", op: g.r.pick([]string{"Eq", "Ne", "Lt", "Le", "Gt", "Ge"}), a: a, b: b}
}

func (g *mgGen) bexp(depth int) *mgB {
	if depth <= 0 || g.r.chance(45) {
		return g.cmp(1)
	}
	switch g.r.intn(3) {
	case 0:
		return &mgB{k: "not", l: g.bexp(depth - 1)}
	case 1:
		return &mgB{k: "and", l: g.bexp(depth - 1), r: g.bexp(depth - 1)}
	}
	return &mgB{k: "or", l: g.bexp(depth - 1), r: g.bexp(depth - 1)}
}

func (g *mgGen) assignable() (int, bool) {
	var c []int
	for _, x := range g.visible() {
		if !g.prot[x] {
			c = append(c, x)
		}
	}
	if len(c) == 0 {
		return 0, false
	}
	return c[g.r.intn(len(c))], true
}

func (g *mgGen) simple() *mgS {
	x, ok := g.assignable()
	switch k := g.r.intn(10); {
	case k < 3 && ok:
		g.feat["frag-assign"]++
		return &mgS{k: "assign", x: x, e: g.aexp(2)}
	case k < 5 && ok:
		g.feat["frag-opassign"]++
		op := g.r.pick([]string{"Add", "Sub", "Mul", "And", "Or", "Xor", "Quo", "Rem"})
		e := g.aexp(1)
		if op == "Quo" || op == "Rem" {
			e = &mgA{k: "lit", z: int64(1 + g.r.intn(5))}
		}
		return &mgS{k: "opassign", x: x, op: op, e: e}
	case k < 6 && ok:
		g.feat["frag-incdec"]++
		return &mgS{k: "incdec", x: x, inc: g.r.bool()}
	default:
		g.feat["frag-print"]++
		return &mgS{k: "print", e: g.aexp(2)}
	}
}

// block generates a block; variables declared in it are printed before it ends (Go rejects unused ones).
func (g *mgGen) block(n, depth int, pre []*mgS) []*mgS {
	g.scopes = append(g.scopes, nil)
	out := append([]*mgS{}, pre...)
	for i := 0; i < n; i++ {
		out = append(out, g.stmt(depth)...)
	}
	for _, x := range g.scopes[len(g.scopes)-1] {
		out = append(out, &mgS{k: "print", e: &mgA{k: "var", x: x}})
	}
	g.scopes = g.scopes[:len(g.scopes)-1]
	return out
}

func (g *mgGen) iters() int {
	n := 2 + g.r.intn(4)
	for n > 1 && g.mult*n > 60 {
		n--
	}
	return n
}

func (g *mgGen) stmt(depth int) []*mgS {
	k := g.r.intn(100)
	switch {
	case k < 14:
		// declaration (possibly shadowing a visible name of an outer block)
		x := g.fresh()
		if vs := g.visible(); len(g.scopes) > 1 && g.r.chance(25) {
			cand := vs[g.r.intn(len(vs))]
			dup := false
			for _, y := range g.scopes[len(g.scopes)-1] {
				dup = dup || y == cand
			}
			if !dup && !g.prot[cand] {
				x = cand
				g.feat["frag-shadow"]++
			}
		}
		s := &mgS{k: "define", x: x, e: g.aexp(2)}
		g.declare(x)
		g.feat["frag-define"]++
		return []*mgS{s}
	case k < 50 || depth <= 0:
		if g.inLoop > 0 && g.r.chance(12) {
			g.feat["frag-jump"]++
			j := "break"
			if g.r.bool() {
				j = "continue"
			}
			if g.inSw > 0 {
				g.feat["frag-switch-"+j]++
			}
			return []*mgS{{k: "if", c: g.bexp(1), body: []*mgS{{k: j}}}}
		}
		if g.inLoop == 0 && g.inSw > 0 && g.r.chance(15) {
			g.feat["frag-switch-break"]++
			return []*mgS{{k: "if", c: g.bexp(1), body: []*mgS{{k: "break"}}}}
		}
		return []*mgS{g.simple()}
	case k < 66:
		return []*mgS{g.ifStmt(depth)}
	case k < 80:
		return []*mgS{g.switchStmt(depth)}
	case k < 94:
		return g.forStmt(depth)
	default:
		g.feat["frag-block"]++
		return []*mgS{{k: "block", body: g.block(1+g.r.intn(3), depth-1, nil)}}
	}
}

func (g *mgGen) ifStmt(depth int) *mgS {
	s := &mgS{k: "if"}
	g.scopes = append(g.scopes, nil)
	if g.r.chance(35) {
		x := g.fresh()
		s.init = &mgS{k: "define", x: x, e: g.aexp(2)}
		g.declare(x)
		c := g.cmp(1)
		c.a = &mgA{k: "var", x: x}
		s.c = c
		if g.r.bool() {
			s.c = &mgB{k: g.r.pick([]string{"and", "or"}), l: c, r: g.bexp(1)}
		}
		g.feat["frag-if-init"]++
	} else if g.r.chance(8) {
		s.c = &mgB{k: "lit", v: g.r.bool()}
		g.feat["frag-if-const"]++
	} else {
		s.c = g.bexp(2)
	}
	s.body = g.block(1+g.r.intn(3), depth-1, nil)
	if g.r.chance(45) {
		s.hasEl = true
		s.els = g.block(1+g.r.intn(3), depth-1, nil)
		g.feat["frag-if-else"]++
	} else {
		g.feat["frag-if"]++
	}
	g.scopes = g.scopes[:len(g.scopes)-1]
	return s
}

// switchStmt: the main stream stays where yaegi agrees with Go (default clause last, a tag that follows an
// init statement is a plain variable, only the first expression of a clause is an operator expression,
// one condition per clause without a tag, at least one clause, no fallthrough into an empty default);
// a region leaves through exactly one of these.
func (g *mgGen) switchStmt(depth int) *mgS {
	s := &mgS{k: "switch"}
	g.scopes = append(g.scopes, nil)
	region := ""
	if !g.regDone && strings.HasPrefix(g.region, "switch-") {
		region = g.region
		g.regDone = true
	}
	tagged := g.r.chance(60)
	initVar := -1
	if g.r.chance(30) || region == "switch-init-tag" {
		initVar = g.fresh()
		s.init = &mgS{k: "define", x: initVar, e: &mgA{k: "bin", op: "And", a: g.aexp(1), b: lit(3)}}
		if s.init.e.a.k == "lit" {
			s.init.e.a = g.avar()
		}
		g.declare(initVar)
		g.feat["frag-switch-init"]++
	}
	if region == "switch-init-tag" {
		tagged = true
	}
	if tagged {
		switch {
		case region == "switch-init-tag":
			s.tag = &mgA{k: "bin", op: g.r.pick([]string{"Add", "Xor", "Sub"}), a: vr(initVar), b: lit(1 + g.r.intn(2))}
		case initVar >= 0:
			s.tag = vr(initVar)
		case g.r.chance(25):
			s.tag = g.avar()
		default:
			a := g.aexp(1)
			if a.k == "lit" {
				a = g.avar()
			}
			s.tag = &mgA{k: "bin", op: "And", a: a, b: lit(3)}
		}
		g.feat["frag-switch-tag"]++
	} else {
		g.feat["frag-switch-notag"]++
	}
	nc := 1 + g.r.intn(4)
	hasDef := g.r.chance(60) || strings.HasPrefix(region, "switch-default")
	defPos := nc
	if region == "switch-default-order" {
		nc = 2 + g.r.intn(3)
		defPos = g.r.intn(nc)
	}
	usedLit := map[int]bool{}
	freshLit := func() *mgA {
		for {
			z := g.r.intn(6 + len(usedLit))
			if !usedLit[z] {
				usedLit[z] = true
				return lit(z)
			}
		}
	}
	usedBLit := false
	listDone := false
	total := nc
	if hasDef {
		total = nc + 1
	}
	for i, ci := 0, 0; i < total; i++ {
		c := &mgC{}
		if hasDef && i == defPos {
			c.def = true
			g.feat["frag-switch-default"]++
		} else if tagged {
			// first expression: a literal, or an operator expression / variable
			if g.r.chance(65) {
				c.ints = append(c.ints, freshLit())
			} else {
				c.ints = append(c.ints, g.aexp(1))
				if c.ints[0].k == "lit" {
					c.ints[0] = g.avar()
				}
			}
			if ci == 0 && initVar >= 0 && s.tag.k != "var" {
				c.ints[0] = vr(initVar)
			}
			for len(c.ints) < 3 && g.r.chance(30) {
				// further expressions: plain variables and literals only (region switch-case-list otherwise)
				if g.r.bool() && len(usedLit) < 5 {
					c.ints = append(c.ints, freshLit())
				} else {
					c.ints = append(c.ints, g.avar())
				}
				g.feat["frag-case-list"]++
			}
			if region == "switch-case-list" && !listDone {
				listDone = true
				a := g.avar()
				c.ints = append(c.ints, &mgA{k: "bin", op: g.r.pick([]string{"And", "Sub", "Add"}), a: a, b: lit(1 + g.r.intn(3))})
			}
			ci++
		} else {
			if !usedBLit && g.r.chance(10) {
				usedBLit = true
				c.bools = append(c.bools, &mgB{k: "lit", v: g.r.bool()})
			} else {
				c.bools = append(c.bools, g.bexp(1))
			}
			if ci == 0 && initVar >= 0 {
				cm := g.cmp(1)
				cm.a = vr(initVar)
				c.bools[0] = cm
			}
			if region == "switch-case-list" && !listDone {
				listDone = true
				c.bools = append(c.bools, g.cmp(1))
			}
			ci++
		}
		g.inSw++
		if !c.def && g.r.chance(10) {
			c.body = nil
			g.feat["frag-case-empty"]++
		} else {
			c.body = g.block(1+g.r.intn(2), depth-1, nil)
		}
		g.inSw--
		if i < total-1 && g.r.chance(22) {
			c.ft = true
			g.feat["frag-fallthrough"]++
		}
		s.cls = append(s.cls, c)
	}
	g.scopes = g.scopes[:len(g.scopes)-1]
	return s
}

func lit(z int) *mgA { return &mgA{k: "lit", z: int64(z)} }
func vr(x int) *mgA  { return &mgA{k: "var", x: x} }
func cmpv(op string, x, z int) *mgB {
	return &mgB{k: "cmp", op: op, a: vr(x), b: lit(z)}
}

// forStmt returns the loop, preceded by the declaration of its counter when the form needs one.
func (g *mgGen) forStmt(depth int) []*mgS {
	n := g.iters()
	var pre []*mgS
	s := &mgS{k: "for"}
	g.scopes = append(g.scopes, nil) // scope of the for statement
	saveMult := g.mult
	g.mult *= n
	g.inLoop++
	var bodyPre []*mgS
	outer := func() int { // a counter declared before the loop, in the enclosing block
		c := g.fresh()
		g.scopes[len(g.scopes)-2] = append(g.scopes[len(g.scopes)-2], c)
		pre = append(pre, &mgS{k: "define", x: c, e: lit(0)})
		g.prot[c] = true
		return c
	}
	form := g.r.intn(12)
	if g.region == "for-init-only" && !g.regDone {
		form = 100
	}
	switch form {
	case 0, 1, 2, 3: // forStmt7
		i := g.fresh()
		g.declare(i)
		g.prot[i] = true
		s.init = &mgS{k: "define", x: i, e: lit(g.r.intn(3))}
		s.c = cmpv("Lt", i, int(s.init.e.z)+n)
		if g.r.chance(30) {
			s.c = &mgB{k: "and", l: s.c, r: g.bexp(1)}
		}
		s.post = &mgS{k: "incdec", x: i, inc: true}
		if g.r.chance(25) {
			s.post = &mgS{k: "opassign", x: i, op: "Add", e: lit(1 + g.r.intn(2))}
		}
		g.feat["frag-for7"]++
		if g.region == "loopvar-assign" && !g.regDone {
			// the body moves the loop variable forward: lost by the per-iteration copy
			g.regDone = true
			kk := int(s.init.e.z) + g.r.intn(n)
			bodyPre = append(bodyPre, &mgS{k: "if", c: cmpv("Eq", i, kk), body: []*mgS{{k: "assign", x: i, e: lit(kk + 1 + g.r.intn(2))}}})
		}
	case 4: // forStmt2
		c := outer()
		s.c = cmpv("Lt", c, n)
		bodyPre = append(bodyPre, &mgS{k: "incdec", x: c, inc: true})
		g.feat["frag-for2"]++
	case 5: // forStmt0
		c := outer()
		bodyPre = append(bodyPre, &mgS{k: "incdec", x: c, inc: true}, &mgS{k: "if", c: cmpv("Gt", c, n), body: []*mgS{{k: "break"}}})
		g.feat["frag-for0"]++
	case 6: // forStmt3
		c := g.fresh()
		g.declare(c)
		g.prot[c] = true
		s.init = &mgS{k: "define", x: c, e: lit(0)}
		s.c = cmpv("Lt", c, n)
		bodyPre = append(bodyPre, &mgS{k: "incdec", x: c, inc: true})
		g.feat["frag-for3"]++
	case 7: // forStmt5
		c := outer()
		s.c = cmpv("Lt", c, n)
		s.post = &mgS{k: "incdec", x: c, inc: true}
		g.feat["frag-for5"]++
	case 8: // forStmt6
		c := g.fresh()
		g.declare(c)
		g.prot[c] = true
		s.init = &mgS{k: "define", x: c, e: lit(0)}
		s.post = &mgS{k: "incdec", x: c, inc: true}
		bodyPre = append(bodyPre, &mgS{k: "if", c: cmpv("Ge", c, n), body: []*mgS{{k: "break"}}})
		g.feat["frag-for6"]++
	case 9: // forStmt4
		c := outer()
		s.post = &mgS{k: "incdec", x: c, inc: true}
		bodyPre = append(bodyPre, &mgS{k: "if", c: cmpv("Ge", c, n), body: []*mgS{{k: "break"}}})
		g.feat["frag-for4"]++
	case 10: // forStmt7 without declaration: for c = 0; c < n; c++
		c := outer()
		s.init = &mgS{k: "assign", x: c, e: lit(0)}
		s.c = cmpv("Lt", c, n)
		s.post = &mgS{k: "incdec", x: c, inc: true}
		g.feat["frag-for7-assign"]++
	case 11: // constant condition
		c := outer()
		s.c = &mgB{k: "lit", v: true}
		bodyPre = append(bodyPre, &mgS{k: "incdec", x: c, inc: true}, &mgS{k: "if", c: cmpv("Gt", c, n), body: []*mgS{{k: "break"}}})
		if g.r.chance(30) {
			s.c = &mgB{k: "lit", v: false}
		}
		g.feat["frag-for-const"]++
	default: // region for-init-only: for c := 0; ; { c++; m++; if c > 2 || m > 4 { break } ... }
		g.regDone = true
		m := outer()
		c := g.fresh()
		g.declare(c)
		g.prot[c] = true
		s.init = &mgS{k: "define", x: c, e: lit(0)}
		bodyPre = append(bodyPre, &mgS{k: "incdec", x: c, inc: true}, &mgS{k: "incdec", x: m, inc: true},
			&mgS{k: "if", c: &mgB{k: "or", l: cmpv("Gt", c, 2), r: cmpv("Gt", m, 4)}, body: []*mgS{{k: "break"}}})
	}
	nst := 1 + g.r.intn(3)
	if g.region == "loop-empty-body" && !g.regDone && form <= 3 {
		g.regDone = true
		s.body = nil
		g.scopes = append(g.scopes, nil)
		g.scopes = g.scopes[:len(g.scopes)-1]
	} else {
		s.body = g.block(nst, depth-1, bodyPre)
	}
	g.inLoop--
	g.mult = saveMult
	g.scopes = g.scopes[:len(g.scopes)-1]
	return append(pre, s)
}

// mgProgram generates one MiniGo program; region "" stays inside the proved fragment.
func mgProgram(r *rng, region string) (goSrc, coq string, feat map[string]int, ok bool) {
	g := &mgGen{r: r, prot: map[int]bool{}, mult: 1, feat: map[string]int{}, region: region}
	g.scopes = [][]int{nil}
	var body []*mgS
	for i := 0; i < 2+r.intn(2); i++ {
		x := g.fresh()
		body = append(body, &mgS{k: "define", x: x, e: g.lit()})
		g.declare(x)
	}
	n := 3 + r.intn(6)
	for i := 0; i < n; i++ {
		body = append(body, g.stmt(3)...)
	}
	if region != "" && !g.regDone && strings.HasPrefix(region, "switch-") {
		body = append(body, g.switchStmt(2))
	}
	if region != "" && !g.regDone {
		// force one loop that carries the region
		body = append(body, g.forStmt(2)...)
		for tries := 0; !g.regDone && tries < 6; tries++ {
			body = append(body, g.forStmt(2)...)
		}
	}
	for _, x := range g.scopes[0] {
		body = append(body, &mgS{k: "print", e: vr(x)})
	}
	var b strings.Builder
	b.WriteString("package main\n\nimport \"fmt\"\n\nfunc main() {\n")
	mgBlockGo(body, "\t", &b)
	b.WriteString("}\n")
	return b.String(), mgListCoq(body), g.feat, region == "" || g.regDone
}

func c1FragmentCases(r *rng, n int) []*c1case {
	var out []*c1case
	for i := 0; i < n; i++ {
		src, cq, feat, _ := mgProgram(r.fork(), "")
		out = append(out, &c1case{Stream: "fragment", Src: src, Coq: cq, Feat: feat, Size: strings.Count(src, "\n")})
	}
	nreg := 4
	if n > 1000 {
		nreg = 40
	}
	for _, reg := range []string{"loopvar-assign", "for-init-only", "loop-empty-body", "switch-default-order", "switch-init-tag", "switch-case-list"} {
		for i := 0; i < nreg; i++ {
			src, cq, feat, ok := mgProgram(r.fork(), reg)
			if !ok {
				continue
			}
			out = append(out, &c1case{Stream: "fragment-region", Region: reg, Src: src, Coq: cq, Feat: feat, Size: strings.Count(src, "\n")})
		}
	}
	return out
}

// mgObs renders an observed outcome as a Coq [obs].
func mgObs(o outcome) string {
	var pk string
	switch {
	case o.End == "ok":
		pk = "false"
	case o.End == "panic:DivByZero":
		pk = "true"
	default:
		return "None"
	}
	var zs []string
	for _, l := range strings.Split(strings.TrimSpace(o.Stdout), "\n") {
		if l == "" {
			continue
		}
		z, err := strconv.ParseInt(strings.TrimSpace(l), 10, 64)
		if err != nil {
			return "None"
		}
		if z < 0 {
			zs = append(zs, fmt.Sprintf("(%d)", z))
		} else {
			zs = append(zs, fmt.Sprint(z))
		}
	}
	return "(Some ([" + strings.Join(zs, "; ") + "], " + pk + "))"
}

// c1WriteCases writes the fragment programs with both observed outcomes for evaluation inside Coq.
func c1WriteCases(out string, cs []*c1case) ([]string, int, error) {
	var rows []string
	for _, c := range cs {
		if c.Coq == "" {
			continue
		}
		rows = append(rows, fmt.Sprintf("(%d%%N, %s, %s, %s)", c.ID, c.Coq, mgObs(c.Impl), mgObs(c.Ref)))
	}
	var files []string
	const per = 40
	hdr := "From Verif Require Import Core.Syntax Core.GoSem Core.Cfg Core.Cases.\nOpen Scope Z_scope.\n"
	for i, k := 0, 0; i < len(rows); i, k = i+per, k+1 {
		j := i + per
		if j > len(rows) {
			j = len(rows)
		}
		name := fmt.Sprintf("cases_frag_%d.v", k)
		body := fmt.Sprintf("Definition cases : list frag_case := [\n%s\n].\nDefinition MY := Eval vm_compute in frag_mis_y cases.\nPrint MY.\nDefinition MG := Eval vm_compute in frag_mis_g cases.\nPrint MG.\n",
			strings.Join(rows[i:j], ";\n"))
		if err := os.WriteFile(filepath.Join(out, name), []byte(hdr+body), 0o644); err != nil {
			return nil, 0, err
		}
		files = append(files, name)
	}
	return files, len(rows), nil
}
