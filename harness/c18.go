package main

import (
	"bytes"
	"flag"
	"fmt"
	"go/ast"
	"go/build"
	"go/build/constraint"
	"go/importer"
	"go/parser"
	"go/token"
	"go/types"
	"os"
	"os/exec"
	"path"
	"path/filepath"
	"regexp"
	"runtime"
	"sort"
	"strconv"
	"strings"
	"sync"
	"time"

	"github.com/traefik/yaegi/extract"
)

// C18: extract emits complete, compilable, faithful wrappers.
//   impl  = extract.Extractor.Extract (the real generator) on packages of the installed standard
//           library and on seeded random packages in a scratch GOPATH
//   Y, G  = coq/Extract/Model.v, evaluated by coqc on the cases files written here
//   ref   = the go/types view of the same package (exported non-generic objects, exact constant
//           values, method sets), go/types + `go build` on the generated file

func init() {
	register("c18", "C18 extract: run the real extractor on std and random packages, compare with go/types and compile the output", runC18)
}

var c18LongNumber = regexp.MustCompile(`CFloat \(?-?[0-9]{200,}|CFloat \(?-?[0-9]+\)? [0-9]{200,}`)

var c18BaselineRestricted = map[string]bool{"osExit": true, "osFindProcess": true, "logDefault": true, "logFatal": true, "logFatalf": true, "logFatalln": true, "logLogger": true, "logNew": true}

// always checked: float constants (math), the sandboxed symbols (os, log), interfaces with variadic methods, embedded
// interfaces and unexported methods (io, fmt, sort, context, io/fs, database/sql/driver, go/constant, reflect), many constants (go/token, time)
var c18Always = []string{"math", "os", "log", "io", "fmt", "sort", "strings", "time", "go/token", "context", "database/sql/driver", "io/fs", "go/constant", "reflect"}

const c18Rotating = 10 // further standard packages per quick run, drawn by the seed

type c18Job struct {
	ID       int
	Kind     string // std | rand
	IPath    string
	Dest     string
	Region   string
	Rand     *c18RandPkg
	OutDir   string // directory of the generated file below $GOPATH/src
	out      []byte
	coq      string
	size     int
	diffs    []c18Diff
	compiles bool
	compErr  string
	rows     int
	wmeths   int
	err      error
	view     *c18Pkg
	viewCoq  string
	viewKeep string
	refCoq   string
	obsCoq   [2]string // rendered with compile verdict false / true
	declKeys []string
	failed   bool // the extractor returned an error
	dur      time.Duration
}

func c18StdList() ([]string, error) {
	cmd := exec.Command("go", "list", "std")
	cmd.Env = append(os.Environ(), "GOFLAGS=", "GO111MODULE=off")
	out, err := cmd.Output()
	if err != nil {
		return nil, fmt.Errorf("go list std: %w", err)
	}
	var l []string
	for _, p := range strings.Fields(string(out)) {
		if c18ForbiddenImport(p) || strings.Contains(p, "/internal") {
			continue
		}
		l = append(l, p)
	}
	sort.Strings(l)
	return l, nil
}

func c18Minor() int {
	parts := strings.Split(runtime.Version(), ".")
	if len(parts) < 2 {
		return 0
	}
	m := parts[1]
	for i, c := range m {
		if c < '0' || c > '9' {
			m = m[:i]
			break
		}
	}
	n, _ := strconv.Atoi(m)
	return n
}

const c18SymFile = "package %s\n\nimport \"reflect\"\n\nvar Symbols = map[string]map[string]reflect.Value{}\n"

func c18Repo() string {
	if r := os.Getenv("VERIF_REPO"); r != "" {
		return r
	}
	return "/repo"
}

func runC18(args []string) error {
	fs := flag.NewFlagSet("c18", flag.ExitOnError)
	out := fs.String("out", "/verif/build/C18", "output directory")
	tier := fs.String("tier", "quick", "quick|thorough")
	seed := fs.Uint64("seed", envSeed(), "seed")
	keep := fs.Bool("keep", false, "keep the scratch GOPATH")
	only := fs.String("only", "", "comma separated std packages (debugging)")
	fs.Parse(args)
	if err := os.MkdirAll(*out, 0o755); err != nil {
		return err
	}
	root, err := os.MkdirTemp("", "vh-c18-*")
	if err != nil {
		return err
	}
	if *keep {
		fmt.Fprintln(os.Stderr, "scratch:", root)
	} else {
		defer os.RemoveAll(root)
	}
	gopath := filepath.Join(root, "gopath")
	srcRoot := filepath.Join(gopath, "src", "vt")
	if err := os.MkdirAll(srcRoot, 0o755); err != nil {
		return err
	}
	// the extractor's documented mode: GO111MODULE=off, packages looked up in GOPATH
	os.Setenv("GO111MODULE", "off")
	os.Setenv("GOPATH", gopath)
	os.Setenv("GOFLAGS", "")
	build.Default.GOPATH = gopath
	if err := os.Chdir(root); err != nil {
		return err
	}

	restrictedKeys, err := mapLitKeys(filepath.Join(c18Repo(), "extract", "extract.go"), "restricted")
	if err != nil {
		return err
	}
	restricted := map[string]bool{}
	for _, k := range restrictedKeys {
		restricted[k] = true
	}
	// regions are defined by the table of the unchanged tree; an entry added later is not part of any known finding
	for k := range restricted {
		if !c18BaselineRestricted[k] {
			delete(restricted, k)
		}
	}
	restrictedGo, err := os.ReadFile(filepath.Join(c18Repo(), "stdlib", "restricted.go"))
	if err != nil {
		return err
	}

	r := newRng(*seed)
	sm := newSummary("C18")
	distinct := distinctSet{}
	var jobs []*c18Job
	newJob := func(j *c18Job) {
		j.ID = len(jobs) + 1
		j.OutDir = fmt.Sprintf("zzout/c%04d", j.ID)
		jobs = append(jobs, j)
	}

	// ---------------------------------------------------------------- A. standard library
	std, err := c18StdList()
	if err != nil {
		return err
	}
	var stdSel []string
	switch {
	case *only != "":
		stdSel = strings.Split(*only, ",")
	case *tier == "thorough":
		stdSel = std
	default:
		sel := map[string]bool{}
		for _, p := range c18Always {
			sel[p] = true
		}
		rest := []string{}
		for _, p := range std {
			if !sel[p] && p != "syscall" {
				rest = append(rest, p)
			}
		}
		// drawn by the seed (every importable package is reached over the seeds; the thorough tier takes all)
		rs := r.fork()
		for i := 0; i < c18Rotating && len(rest) > 0; i++ {
			k := rs.intn(len(rest))
			sel[rest[k]] = true
			rest = append(rest[:k], rest[k+1:]...)
		}
		stdSel = sortedKeys(sel)
	}
	for _, p := range stdSel {
		newJob(&c18Job{Kind: "std", IPath: p, Dest: "stdlib"})
	}

	// ---------------------------------------------------------------- B. random packages
	nMain, nRegion := 120, 3
	if *tier == "thorough" {
		nMain, nRegion = 2000, 25
	}
	if *only != "" {
		nMain, nRegion = 0, 0
	}
	var rands []c18RandPkg
	for i := 0; i < nMain; i++ {
		rands = append(rands, c18GenMain(r.fork(), i))
	}
	nMatrix := 2
	if *tier == "thorough" {
		nMatrix = 60
	}
	if *only != "" {
		nMatrix = 0
	}
	for i := 0; i < nMatrix; i++ {
		rands = append(rands, c18GenMatrix(r.fork(), i))
	}
	idx := 0
	for _, reg := range c18Regions {
		for i := 0; i < nRegion; i++ {
			rands = append(rands, c18GenRegion(r.fork(), idx, reg))
			idx++
		}
	}
	for i := range rands {
		rp := &rands[i]
		d := filepath.Join(srcRoot, filepath.FromSlash(rp.Dir))
		if err := os.MkdirAll(d, 0o755); err != nil {
			return err
		}
		if err := os.WriteFile(filepath.Join(d, "p.go"), []byte(rp.Source), 0o644); err != nil {
			return err
		}
		for sd, ssrc := range rp.Extra {
			sdir := filepath.Join(srcRoot, filepath.FromSlash(sd))
			if err := os.MkdirAll(sdir, 0o755); err != nil {
				return err
			}
			if err := os.WriteFile(filepath.Join(sdir, "p.go"), []byte(ssrc), 0o644); err != nil {
				return err
			}
		}
		newJob(&c18Job{Kind: "rand", IPath: "vt/" + rp.Dir, Dest: "out", Region: rp.Region, Rand: rp})
		for k, n := range rp.Kinds {
			sm.Distribution["decl:"+k] += n
		}
	}

	// ---------------------------------------------------------------- run
	minor := c18Minor()
	tPhase := time.Now()
	phase := func(name string) {
		fmt.Fprintf(os.Stderr, "c18: %s %.1fs\n", name, time.Since(tPhase).Seconds())
		tPhase = time.Now()
	}
	{
		// one source importer per worker (not safe for concurrent use), shared by the reference view and by the
		// type-check of the generated file; renewed now and then to bound memory. The extractor under test
		// always creates its own.
		var wg sync.WaitGroup
		ch := make(chan *c18Job)
		for w := 0; w < runtime.NumCPU(); w++ {
			wg.Add(1)
			go func() {
				defer wg.Done()
				wk := &c18Worker{}
				for j := range ch {
					t0 := time.Now()
					c18RunOne(j, minor, restricted, string(restrictedGo), wk)
					j.dur = time.Since(t0)
				}
			}()
		}
		for _, j := range jobs {
			ch <- j
		}
		close(ch)
		wg.Wait()
	}
	for _, j := range jobs {
		if j.err != nil {
			return fmt.Errorf("case %d (%s): %w", j.ID, j.IPath, j.err)
		}
	}

	if os.Getenv("C18_DEBUG") != "" {
		for _, j := range jobs {
			fmt.Fprintf(os.Stderr, "  %-40s %.2fs\n", j.IPath, j.dur.Seconds())
		}
	}
	phase("extract + reference + go/types")
	// ---------------------------------------------------------------- the real compiler on every generated file
	for _, j := range jobs {
		d := filepath.Join(srcRoot, filepath.FromSlash(j.OutDir))
		os.MkdirAll(d, 0o755)
		os.WriteFile(filepath.Join(d, "out.go"), j.out, 0o644)
		os.WriteFile(filepath.Join(d, "sym.go"), []byte(fmt.Sprintf(c18SymFile, j.Dest)), 0o644)
		if j.Kind == "std" && (j.IPath == "os" || j.IPath == "log") {
			os.WriteFile(filepath.Join(d, "restricted.go"), restrictedGo, 0o644)
		}
	}
	buildFailed, buildOut, err := c18GoBuild(gopath)
	if err != nil {
		return err
	}
	phase("go build")
	disagree := 0
	for _, j := range jobs {
		msg, failed := buildFailed["vt/"+j.OutDir]
		if failed == j.compiles && !j.failed {
			disagree++
			sm.Notes = append(sm.Notes, fmt.Sprintf("go/types and go build disagree on case %d (%s): go/types ok=%v, go build: %s", j.ID, j.IPath, j.compiles, msg))
		}
		if failed && j.compiles {
			j.compiles = false
			j.compErr = "go build: " + msg
		}
	}
	_ = buildOut

	// ---------------------------------------------------------------- decide and write
	type entry struct {
		coq  string
		size int
	}
	var entries []entry
	for _, j := range jobs {
		in := map[string]any{"kind": j.Kind, "import_path": j.IPath, "region": j.Region}
		if j.Rand != nil {
			in["source"] = j.Rand.Source
		}
		sm.CaseIndex[fmt.Sprint(j.ID)] = in
		sm.count("pkg:" + j.Kind)
		if j.Region != "" {
			sm.count("region-stream:" + j.Region)
		}
		sm.Evaluations += j.rows + 1
		sm.ImplComparisons += j.rows + 1
		sm.RefComparisons += j.rows + 1
		sm.Distribution["rows"] += j.rows
		sm.Distribution["wrapper-methods"] += j.wmeths
		if !j.compiles && !j.failed {
			sm.count("does-not-compile")
			region := ""
			if causes := c18CompileCauses(j.view, restricted); len(causes) > 0 {
				region = causes[0]
			}
			j.diffs = append(j.diffs, c18Diff{"(file)", region, "the generated file does not compile", j.compErr, "compiles"})
		}
		for _, d := range j.diffs {
			sm.RefMismatches = append(sm.RefMismatches, refMismatch{ID: j.ID, Region: d.Region,
				Input: map[string]any{"import_path": j.IPath, "symbol": d.Symbol}, Impl: d.Impl, Ref: d.Ref, Note: d.What})
			sm.count("mismatch:" + d.Region)
		}
		if len(sm.Samples) < 4 && j.Kind == "rand" && j.Region == "" {
			sm.Samples = append(sm.Samples, map[string]any{"import_path": j.IPath, "source": j.Rand.Source})
		}
		for _, k := range j.declKeys {
			distinct.add(j.IPath, k)
		}
		oc := j.obsCoq[0]
		if j.compiles {
			oc = j.obsCoq[1]
		}
		j.coq = fmt.Sprintf("(%d%%N,\n %s,\n %s,\n %s)", j.ID, j.viewCoq, oc, j.refCoq)
		j.viewKeep = j.viewCoq
		j.viewCoq, j.refCoq, j.obsCoq, j.declKeys = "", "", [2]string{}, nil
		// cost inside Coq: the text, plus the long-precision arithmetic behind float constants with hundreds of digits
		entries = append(entries, entry{j.coq, len(j.coq) + 150000*len(c18LongNumber.FindAllStringIndex(j.viewKeep, -1))})
	}
	sort.SliceStable(entries, func(a, b int) bool { return entries[a].size > entries[b].size })
	nb, total := 16, 0
	for _, e := range entries {
		total += e.size
	}
	if total/400000 > nb { // keep each coqc process small
		nb = total / 400000
	}
	if len(entries) < nb {
		nb = len(entries)
	}
	bins := make([][]string, nb)
	load := make([]int, nb)
	for _, e := range entries {
		k := 0
		for i := range load {
			if load[i] < load[k] {
				k = i
			}
		}
		bins[k] = append(bins[k], e.coq)
		load[k] += e.size
	}
	hdr := "From Verif Require Import Lib.Str Extract.Decimal Extract.Model Extract.Cases.\nOpen Scope Z_scope.\n"
	for k, b := range bins {
		name := fmt.Sprintf("cases_pkg_%d.v", k)
		body := fmt.Sprintf("Definition cases : list pkg_case := [\n%s\n].\nDefinition MY := Eval vm_compute in pkg_mis_y cases.\nPrint MY.\nDefinition MG := Eval vm_compute in pkg_mis_g cases.\nPrint MG.\n",
			strings.Join(b, ";\n"))
		if err := os.WriteFile(filepath.Join(*out, name), []byte(hdr+body), 0o644); err != nil {
			return err
		}
		sm.CasesFiles = append(sm.CasesFiles, name)
	}
	sm.DistinctNontriv = len(distinct)
	sm.Exhaustive = *tier == "thorough"
	sm.Rule = "packages: standard library of the installed toolchain (quick: 14 fixed + 10 drawn by the seed; thorough: every importable std package) and seeded random packages (with sibling packages; interfaces embedding interfaces of other packages at depth 1-3; constant values sweeping the printing boundaries of go/constant) " +
		"(every declaration kind of genContent's switch; region packages with one known defect shape each); each package = one case: the real extractor's output is read back into rows, " +
		"compared with model Y (all rows, imports, build tag, compile verdict), with the go/types reference (names, forms, bound objects, exact constant values, wrapper signatures, Implements) and compiled by go/types and go build; " +
		"evaluations = bound rows + wrapper methods + 1 per package; distinct = distinct (import path, exported declaration) pairs"
	sm.Notes = append(sm.Notes, fmt.Sprintf("go build cross-check: %d packages failed, %d disagreements with go/types", len(buildFailed), disagree))
	return sm.write(*out)
}

// c18GoBuild compiles every generated file (one package per directory) with the installed compiler.
func c18GoBuild(gopath string) (map[string]string, string, error) {
	cmd := exec.Command("go", "build", "-gcflags=-e", "vt/zzout/...")
	cmd.Dir = filepath.Join(gopath, "src", "vt")
	cmd.Env = append(os.Environ(), "GO111MODULE=off", "GOPATH="+gopath, "GOFLAGS=", "GOPROXY=off", "GOTOOLCHAIN=local")
	var buf bytes.Buffer
	cmd.Stdout, cmd.Stderr = &buf, &buf
	done := make(chan error, 1)
	go func() { done <- cmd.Run() }()
	select {
	case <-done:
	case <-time.After(15 * time.Minute):
		cmd.Process.Kill()
		return nil, "", fmt.Errorf("go build timed out")
	}
	failed := map[string]string{}
	cur := ""
	for _, l := range strings.Split(buf.String(), "\n") {
		if strings.HasPrefix(l, "# ") {
			cur = strings.Fields(l)[1]
			failed[cur] = ""
			continue
		}
		if strings.HasPrefix(l, "package ") || strings.HasPrefix(l, "\t") && cur == "" {
			continue
		}
		if cur != "" && failed[cur] == "" && strings.TrimSpace(l) != "" {
			failed[cur] = strings.TrimSpace(l)
		}
		// import errors are reported as "dir/file.go:N:M: ..." without a "# pkg" header
		if cur == "" && strings.Contains(l, "zzout/") {
			i := strings.Index(l, "zzout/")
			rest := l[i:]
			if k := strings.Index(rest[len("zzout/"):], "/"); k >= 0 {
				failed["vt/"+rest[:len("zzout/")+k]] = strings.TrimSpace(l)
			}
		}
	}
	return failed, buf.String(), nil
}

var c18ImportMu sync.Mutex // cgo preprocessing inside the source importer writes temp files; keep it simple and race-free

type c18Worker struct {
	fset *token.FileSet
	imp  types.Importer
	n    int
}

func (w *c18Worker) importer() (*token.FileSet, types.Importer) {
	if w.imp == nil || w.n >= 40 {
		w.fset = token.NewFileSet()
		w.imp = importer.ForCompiler(w.fset, "source", nil)
		w.n = 0
	}
	w.n++
	return w.fset, w.imp
}

func c18RunOne(j *c18Job, minor int, restricted map[string]bool, restrictedGo string, wk *c18Worker) {
	// ---- implementation
	var buf bytes.Buffer
	e := extract.Extractor{Dest: j.Dest}
	func() {
		defer func() {
			if p := recover(); p != nil {
				j.err = fmt.Errorf("extractor panicked: %v", p)
			}
		}()
		if _, err := e.Extract(j.IPath, "", &buf); err != nil {
			j.err = fmt.Errorf("extractor: %w", err)
		}
	}()
	extractErr := j.err
	j.err = nil
	j.out = buf.Bytes()
	if extractErr != nil {
		j.out = []byte("package " + j.Dest + "\n")
	}

	// ---- reference view
	fset, imp := wk.importer()
	refPkg, err := imp.Import(j.IPath)
	if err != nil {
		j.err = fmt.Errorf("reference import: %w", err)
		if j.Rand != nil {
			j.err = fmt.Errorf("%w\n%s", j.err, j.Rand.Source)
		}
		return
	}
	view := c18View(refPkg, j.IPath, minor)
	j.view = view
	ref := c18Reference(refPkg, j.IPath)

	// ---- observation
	obs, f1, err := c18ReadOutput(fset, "out.go", j.out)
	if err != nil {
		extractErr = fmt.Errorf("generated file does not parse: %w", err)
		j.out = []byte("package " + j.Dest + "\n")
		obs, f1, _ = c18ReadOutput(fset, "out2.go", j.out)
	}
	if extractErr != nil {
		// the extractor refused a valid package (or wrote something that is not Go): never what Y or the contract say
		obs.Problems = append(obs.Problems, firstLine(extractErr.Error()))
		c18Finish(j, view, obs, ref)
		j.compiles = false
		j.compErr = firstLine(extractErr.Error())
		j.diffs = []c18Diff{{"(extract)", "", "the extractor fails on a valid package", firstLine(extractErr.Error()), "a generated file"}}
		j.failed = true
		return
	}
	files := []*ast.File{f1}
	f2, _ := parser.ParseFile(fset, "sym.go", fmt.Sprintf(c18SymFile, j.Dest), 0)
	files = append(files, f2)
	if j.Kind == "std" && (j.IPath == "os" || j.IPath == "log") {
		f3, err := parser.ParseFile(fset, "restricted.go", restrictedGo, 0)
		if err != nil {
			j.err = err
			return
		}
		files = append(files, f3)
	}
	var terrs []error
	info := &types.Info{Uses: map[*ast.Ident]types.Object{}, Types: map[ast.Expr]types.TypeAndValue{}}
	conf := types.Config{Importer: imp, Error: func(err error) { terrs = append(terrs, err) }}
	outPkg, _ := conf.Check("vt/"+j.OutDir, fset, files, info)
	j.compiles = len(terrs) == 0
	if !j.compiles {
		j.compErr = terrs[0].Error()
	}
	for _, ip := range obs.Imports {
		if c18ForbiddenImport(ip) && j.compiles {
			j.compiles = false
			j.compErr = "import of " + ip + " is not allowed outside the standard library"
		}
	}
	if j.compiles {
		j.diffs = c18Compare(view, ref, obs, info, outPkg, restricted)
	} else {
		j.diffs = c18Compare(view, ref, obs, nil, nil, restricted)
	}
	if miss := c18MissingImports(f1, imp); len(miss) > 0 {
		j.diffs = append(j.diffs, c18Diff{"(imports)", "", "the generated declarations mention packages the file does not import", strings.Join(miss, ","), "imported"})
	}
	// build tag: the file must be selected by the installed toolchain; map key = importPath/pkgName
	if obs.Tags != "" {
		x, err := constraint.Parse("// +build " + obs.Tags)
		ok := err == nil && x.Eval(func(tag string) bool {
			for _, t := range build.Default.ReleaseTags {
				if t == tag {
					return true
				}
			}
			return tag == build.Default.GOOS || tag == build.Default.GOARCH
		})
		if !ok {
			j.diffs = append(j.diffs, c18Diff{"(build tag)", "", "the generated file is not selected by the installed toolchain", obs.Tags, "satisfied"})
		}
	}
	if want := path.Join(j.IPath, refPkg.Name()); obs.SymKey != want {
		j.diffs = append(j.diffs, c18Diff{"(map key)", "", "Symbols key", obs.SymKey, want})
	}
	j.rows = len(obs.Vals) + len(obs.Typs)
	for _, w := range obs.Wraps {
		j.rows += len(w.Methods)
		j.wmeths += len(w.Methods)
	}
	c18Finish(j, view, obs, ref)
}

// c18Finish renders everything that needs go/types objects and drops them (thousands of jobs are kept until the end).
func c18Finish(j *c18Job, view *c18Pkg, obs *c18Obs, ref *c18Ref) {
	j.viewCoq, j.refCoq = view.coq(), ref.coq()
	j.obsCoq = [2]string{obs.coq(false), obs.coq(true)}
	for _, d := range view.Decls {
		if d.Exported {
			j.declKeys = append(j.declKeys, d.Name+"\x00"+d.coq())
		}
	}
	for i := range view.Decls {
		view.Decls[i].obj = nil
		if view.Decls[i].Iface != nil {
			for k := range view.Decls[i].Iface.Methods {
				view.Decls[i].Iface.Methods[k].sig = nil
			}
		}
	}
	j.view = view
}
