package main

import (
	"flag"
	"fmt"
	"math/big"
	"os"
	"path/filepath"
	"runtime/debug"
	"sort"
	"strings"
	"sync"
	"time"
)

// C19: running under the debugger does not change program behaviour.
//   impl  = interp.Debug / SetBreakpoints / Continue / Step / Terminate on generated programs
//   ref   = the plain Eval of the same program (output, result, panic) and the program's own
//           output (which marker lines ran, in which order)
//   Y, G  = coq/Debug/Model.v on the dumped graph and the true operation sequence (instrumented
//           plain run), evaluated by coqc on the cases files written here

func init() {
	register("c19", "C19 debugger: generate programs and sessions, run implementation and plain reference", runC19)
}

type c19SessSpec struct {
	Kind  string // how the session was chosen
	Lines []int
	Funcs []string
	Reqs  []c19Req
	// sessions run before this one on the same interpreter (chains), for the replay
	Earlier []map[string]any
}

type c19Case struct {
	ID     int
	Prog   int
	Spec   c19SessSpec
	Ses    c19Session
	Region string
	Exact  bool
	Toks   int // which token list: 0 without line breakpoints, 1 with
	Ref    []int
	Fail   []string // reference checks that failed
	Skip   string   // not covered by the replay machine
	OFlags []int    // positions of the nodes that carry a breakpoint flag after the session
}

func c19ReqCode(r c19Req) int {
	switch r {
	case "c":
		return c19Run
	case "p":
		return c19Pause
	case "e":
		return c19Entry
	case "i":
		return c19StepInto
	case "o":
		return c19StepOver
	case "u":
		return c19StepOut
	case "t":
		return c19Terminate
	}
	return c19Pause
}

func c19HasTerminate(rq []c19Req) bool {
	for _, r := range rq {
		if r == "t" {
			return true
		}
	}
	return false
}

func c19Rep(r c19Req, n int) []c19Req {
	out := make([]c19Req, n)
	for i := range out {
		out[i] = r
	}
	return out
}

// c19Specs chooses the sessions of one program.
func c19Specs(r *rng, p c19Prog, steps int, thorough bool) []c19SessSpec {
	all := make([]int, p.NLines)
	for i := range all {
		all[i] = i + 1
	}
	if p.BPLines != nil {
		all = p.BPLines
	}
	subset := func(src []int, pct int) []int {
		var o []int
		for _, l := range src {
			if r.chance(pct) {
				o = append(o, l)
			}
		}
		if len(o) == 0 && len(src) > 0 {
			o = append(o, src[r.intn(len(src))])
		}
		return o
	}
	mix := func(n int, first bool) []c19Req {
		var o []c19Req
		if first && r.chance(25) {
			o = append(o, c19Req(r.pick([]string{"e", "p"})))
		}
		for i := 0; i < n; i++ {
			o = append(o, c19Req(r.pick([]string{"c", "i", "i", "o", "o", "u"})))
		}
		return o
	}
	if p.Conc && p.GoLit {
		// A goroutine started from a function literal is not given a debug routine of its own (it goes
		// through genFunctionWrapper, whose runCfg call does not carry the go statement): it shares
		// routine 0 with main, so any stop races on the routine's state. Free runs only.
		return []c19SessSpec{
			{Kind: "conc:none/continue", Reqs: []c19Req{"c"}},
			{Kind: "conc:invalid-line/continue", Lines: []int{999}, Reqs: []c19Req{"c"}},
			{Kind: "conc:no-such-function/continue", Funcs: []string{"nosuch"}, Reqs: []c19Req{"c"}},
		}
	}
	if p.Conc {
		// the sessions drive goroutine 0 only: breakpoints and steps in the main goroutine
		return []c19SessSpec{
			{Kind: "conc:none/continue", Reqs: []c19Req{"c"}},
			{Kind: "conc:main-lines/continue", Lines: all, Reqs: []c19Req{"c"}},
			{Kind: "conc:marker-subset/continue", Lines: subset(p.Markers, 50), Reqs: []c19Req{"c"}},
			{Kind: "conc:line-subset/mix", Lines: subset(all, 35), Reqs: mix(5+r.intn(30), false)},
			{Kind: "conc:none/step-over", Reqs: c19Rep("o", 60)},
		}
	}
	var funcs []string
	for _, f := range p.Funcs {
		if r.chance(50) {
			funcs = append(funcs, f)
		}
	}
	if r.chance(30) {
		funcs = append(funcs, "nosuch")
	}
	if len(funcs) == 0 {
		funcs = []string{p.Funcs[r.intn(len(p.Funcs))]}
	}
	specs := []c19SessSpec{
		{Kind: "none/continue", Reqs: []c19Req{"c"}},
		{Kind: "all-lines/continue", Lines: all, Reqs: []c19Req{"c"}},
		{Kind: "marker-subset/continue", Lines: subset(p.Markers, 40), Reqs: []c19Req{"c"}},
		{Kind: "functions/continue", Funcs: funcs, Reqs: []c19Req{"c"}},
		{Kind: "line-subset/mix", Lines: subset(all, 35), Reqs: mix(5+r.intn(40), true)},
		{Kind: "mixed/mix", Lines: subset(p.Markers, 30), Funcs: funcs[:1], Reqs: mix(5+r.intn(40), true)},
	}
	switch r.intn(3) {
	case 0:
		specs = append(specs, c19SessSpec{Kind: "none/step-into", Reqs: c19Rep("i", steps+8)})
	case 1:
		specs = append(specs, c19SessSpec{Kind: "none/step-over", Reqs: c19Rep("o", steps+8)})
	default:
		specs = append(specs, c19SessSpec{Kind: "marker-subset/step-out", Lines: subset(p.Markers, 30), Reqs: append([]c19Req{"i", "i", "i"}, c19Rep("u", steps+8)...)})
	}
	if r.chance(35) {
		rq := append(mix(r.intn(12), true), "t")
		specs = append(specs, c19SessSpec{Kind: "line-subset/terminate", Lines: subset(all, 40), Reqs: rq})
	}
	if thorough {
		specs = append(specs,
			c19SessSpec{Kind: "all-lines/mix", Lines: all, Reqs: mix(10+r.intn(60), true)},
			c19SessSpec{Kind: "functions/mix", Funcs: funcs, Reqs: mix(10+r.intn(60), true)})
	}
	return specs
}

// c19ChainSpecs chooses the sessions that are run one after the other on one interpreter.
func c19ChainSpecs(r *rng, p c19Prog, steps int) []c19SessSpec {
	ends := []string{"c", "i", "o"}
	for i := len(ends) - 1; i > 0; i-- {
		j := r.intn(i + 1)
		ends[i], ends[j] = ends[j], ends[i]
	}
	var out []c19SessSpec
	for k, end := range ends {
		var lines []int
		for l := 1; l <= p.NLines; l++ {
			if r.chance(30) {
				lines = append(lines, l)
			}
		}
		lines = append(lines, p.Markers[r.intn(len(p.Markers))], 999)
		seen := map[int]bool{}
		var uniq []int
		for _, l := range lines {
			if !seen[l] {
				seen[l] = true
				uniq = append(uniq, l)
			}
		}
		funcs := []string{p.Funcs[r.intn(len(p.Funcs))], "nosuch"}
		var rq []c19Req
		for i, n := 0, 2+r.intn(10); i < n; i++ {
			rq = append(rq, c19Req(r.pick([]string{"c", "i", "o", "u"})))
		}
		switch end {
		case "c":
			rq = append(rq, "c")
		default:
			rq = append(rq, c19Rep(c19Req(end), steps+8)...)
		}
		sp := c19SessSpec{Kind: fmt.Sprintf("chain:%d/3:last-resume-%s", k+1, end), Lines: uniq, Funcs: funcs, Reqs: rq}
		for _, e := range out {
			sp.Earlier = append(sp.Earlier, map[string]any{"lines": e.Lines, "funcs": e.Funcs, "requests": c19ReqString(e.Reqs)})
		}
		out = append(out, sp)
	}
	return out
}

func c19Ints(l []int) string {
	it := make([]string, len(l))
	for i, v := range l {
		it[i] = fmt.Sprint(v)
	}
	return "[" + strings.Join(it, "; ") + "]"
}

func runC19(args []string) error {
	fs := flag.NewFlagSet("c19", flag.ExitOnError)
	out := fs.String("out", "/verif/build/C19", "output directory")
	tier := fs.String("tier", "quick", "quick|thorough")
	seed := fs.Uint64("seed", envSeed(), "seed")
	fs.Parse(args)
	if err := os.MkdirAll(*out, 0o755); err != nil {
		return err
	}
	thorough := *tier == "thorough"
	nMain, nWild, nConc, shards := 60, 12, 8, 16
	if thorough {
		nMain, nWild, nConc, shards = 1500, 300, 150, 192
	}
	root := newRng(*seed)
	sm := newSummary("C19")
	distinct := distinctSet{}
	timeout := 40 * time.Second

	// ------------------------------------------------------------ programs
	var progs []c19Prog
	progs = append(progs, c19Witnesses()...)
	for i := 0; i < nMain+nWild; i++ {
		progs = append(progs, c19Generate(root.fork(), i >= nMain, i))
	}
	for i := 0; i < nConc; i++ {
		progs = append(progs, c19GenerateConc(root.fork()))
	}
	specRngs := make([]*rng, len(progs))
	for i := range progs {
		specRngs[i] = root.fork()
	}

	type progRes struct {
		plainOut, plainEnd, plainRes string
		g                            [3]*c19CFG
		toks                         [3][]c19Tok // by trace mode
		traceOut, traceEnd           [3]string
		cases                        []c19Case
		skip                         string
	}
	results := make([]progRes, len(progs))
	var mu sync.Mutex
	parallelMap(len(progs), 0, func(pi int) {
		p := progs[pi]
		var pr progRes
		defer func() {
			if e := recover(); e != nil {
				pr.skip = fmt.Sprint("harness panic: ", e, " ", string(debug.Stack()))
			}
			mu.Lock()
			results[pi] = pr
			mu.Unlock()
		}()
		pr.plainOut, pr.plainEnd, pr.plainRes = c19Plain(p.Src, timeout)
		if strings.HasPrefix(pr.plainEnd, "compile-error") || pr.plainEnd == "timeout" {
			pr.skip = "plain run: " + pr.plainEnd
			return
		}
		// true operation sequences, one per way of generating the closures: plain execution (the
		// reference), ExecuteWithContext (what a debug session runs), the same after a line request
		var steps int
		var tg [3]*c19CFG
		var traces [3][]c19StepT
		tab := c19pcTab{}
		if !p.Conc {
			for v := 0; v < 3; v++ {
				st, dump, so, end := c19Trace(p.Src, v, timeout)
				if v == c19TracePlain && (so != pr.plainOut || end != pr.plainEnd) {
					pr.skip = fmt.Sprintf("instrumented run differs from the plain run (%s vs %s)", end, pr.plainEnd)
					return
				}
				pr.traceOut[v], pr.traceEnd[v] = so, end
				if dump == nil {
					continue
				}
				tg[v] = c19MakeCFG(dump, c19pcTab{})
				traces[v] = st
				if len(st) > steps {
					steps = len(st)
				}
			}
		}
		if steps > 2500 {
			pr.skip = "too long"
			return
		}
		specs := c19Specs(specRngs[pi], p, steps, thorough)
		if p.Tag != "gen" && p.Tag != "conc" { // witnesses: fixed sessions
			all := make([]int, p.NLines)
			for i := range all {
				all[i] = i + 1
			}
			specs = []c19SessSpec{
				{Kind: "all-lines/continue", Lines: all, Reqs: []c19Req{"c"}},
				{Kind: "markers/continue", Lines: p.Markers, Reqs: []c19Req{"c"}},
				{Kind: "none/step-into", Reqs: c19Rep("i", steps+8)},
			}
			if p.Tag == "selector-type-parameter" {
				specs = []c19SessSpec{
					{Kind: "none/continue", Reqs: []c19Req{"c"}},
					{Kind: "functions/continue", Funcs: []string{"f"}, Reqs: []c19Req{"c"}},
					{Kind: "one-line/continue", Lines: []int{6}, Reqs: []c19Req{"c"}},
					{Kind: "invalid-line/continue", Lines: []int{999}, Reqs: []c19Req{"c"}},
				}
			} else if p.Tag == "two-globals" {
				specs = []c19SessSpec{
					{Kind: "none/continue", Reqs: []c19Req{"c"}},
					{Kind: "functions/continue", Funcs: []string{"f1"}, Reqs: []c19Req{"c"}},
					{Kind: "one-line/continue", Lines: []int{13}, Reqs: []c19Req{"c"}},
					{Kind: "invalid-line/continue", Lines: []int{999}, Reqs: []c19Req{"c"}},
					{Kind: "all-lines/step-into", Lines: all, Reqs: c19Rep("i", steps+8)},
				}
			} else if p.Tag == "loop-condition" {
				specs = append(specs, c19SessSpec{Kind: "loop-line/continue", Lines: []int{6}, Reqs: []c19Req{"c"}})
			} else {
				specs = append(specs, c19SessSpec{Kind: "else-line/continue", Lines: []int{9}, Reqs: []c19Req{"c"}},
					c19SessSpec{Kind: "then-line/continue", Lines: []int{7}, Reqs: []c19Req{"c"}})
			}
		}
		markerSet := map[int]bool{}
		for _, m := range p.Markers {
			markerSet[m] = true
		}
		trace := c19MarkerTrace(pr.plainOut)
		// Several sessions on ONE interpreter (Debug called again on the same compiled program): every
		// session has stops, the last resume of the three sessions is a continue, a step-into and a
		// step-over in a seeded order. Every session requests at least one line and one function, so
		// that SetBreakpoints resets the flags of the session before.
		type job struct {
			sp  c19SessSpec
			ses *c19Session
		}
		var jobs []job
		for _, sp := range specs {
			jobs = append(jobs, job{sp: sp})
		}
		if p.Tag == "gen" && !p.Conc && p.Globals == 0 && (pi%2 == 0 || thorough) {
			chain := c19ChainSpecs(specRngs[pi], p, steps)
			sess := c19Chain(p.Src, chain, timeout)
			for k := range chain {
				jobs = append(jobs, job{sp: chain[k], ses: &sess[k]})
			}
		}
		for _, jb := range jobs {
			sp := jb.sp
			c := c19Case{Prog: pi, Spec: sp}
			if jb.ses != nil {
				c.Ses = *jb.ses
			} else {
				c.Ses = c19Debug(p.Src, sp.Lines, sp.Funcs, sp.Reqs, timeout)
			}
			term := c19HasTerminate(sp.Reqs)
			// ---- reference: which marker lines must be reported
			want := map[int]bool{}
			for _, l := range sp.Lines {
				if markerSet[l] {
					want[l] = true
				}
			}
			for _, f := range sp.Funcs {
				if l, ok := p.FuncFirst[f]; ok {
					want[l] = true
				}
			}
			for _, l := range trace {
				if want[l] {
					c.Ref = append(c.Ref, l)
				}
			}
			// ---- checks against the reference
			s := c.Ses
			if s.Hang != "" {
				c.Fail = append(c.Fail, "session did not finish: "+s.Hang)
			} else {
				n := len(s.Events)
				if p.Conc {
					// the worker's EnterGoRoutine / ExitGoRoutine events interleave freely
					if n < 3 || s.Events[0].Reason != c19EnterG || s.Events[n-1].Reason != c19Terminate {
						c.Fail = append(c.Fail, "events do not start with EnterGoRoutine and end with Terminate")
					}
				} else if n < 3 || s.Events[0].Reason != c19EnterG || s.Events[n-2].Reason != c19ExitG || s.Events[n-1].Reason != c19Terminate {
					c.Fail = append(c.Fail, "events are not framed by EnterGoRoutine ... ExitGoRoutine, Terminate")
				}
				for _, e := range s.Events[:max(n-1, 0)] {
					if e.Reason == c19Terminate {
						c.Fail = append(c.Fail, "terminate event before the end")
					}
				}
				if !term {
					if s.Stdout != pr.plainOut {
						c.Fail = append(c.Fail, "output differs from the plain run")
					}
					if s.End != pr.plainEnd {
						c.Fail = append(c.Fail, fmt.Sprintf("outcome %q differs from the plain run's %q", s.End, pr.plainEnd))
					}
					if s.Result != pr.plainRes {
						c.Fail = append(c.Fail, fmt.Sprintf("result %q differs from the plain run's %q", s.Result, pr.plainRes))
					}
					var got []int
					for _, e := range s.Events {
						if e.Reason == c19Break && markerSet[e.Line] {
							got = append(got, e.Line)
						}
					}
					if !p.Conc && c19Ints(got) != c19Ints(c.Ref) { // (no model labels the tracker's known losses for goroutine programs)
						c.Fail = append(c.Fail, fmt.Sprintf("break events on marker lines %v, the output shows %v", got, c.Ref))
					}
				} else if !strings.HasPrefix(pr.plainOut, s.Stdout) {
					c.Fail = append(c.Fail, "output of the terminated session is not a prefix of the plain run's")
				}
				allowed := map[int]bool{}
				for _, l := range sp.Lines {
					allowed[l] = true
				}
				for _, f := range sp.Funcs {
					if l, ok := p.FuncFirst[f]; ok {
						allowed[l] = true
					}
				}
				for _, e := range s.Events {
					if e.Reason == c19Break && !allowed[e.Line] {
						c.Fail = append(c.Fail, fmt.Sprintf("break event on line %d, which has no breakpoint", e.Line))
						break
					}
				}
			}
			// ---- model side: graph, tokens, region label
			if s.Dump != nil {
				g := c19MakeCFG(s.Dump, tab)
				v := c19TraceCtx
				if len(sp.Lines) > 0 {
					v = c19TraceCtxPre
				}
				c.Toks = v
				if pr.g[v] == nil {
					pr.g[v] = g
				}
				switch {
				case p.Conc:
					c.Skip = "goroutines are outside the model"
				case tg[v] == nil || tg[c19TracePlain] == nil:
					c.Skip = "no instrumented run: " + pr.traceEnd[v]
				case !c19SameShape(g, tg[v]) || !c19SameShape(g, pr.g[v]) || !c19SameShape(g, tg[c19TracePlain]):
					c.Skip = "graphs of two compilations differ"
				case !c19SamePCs(g, pr.g[v]):
					c.Skip = "closures differ between sessions"
				default:
					for _, w := range []int{c19TracePlain, v} {
						if pr.toks[w] == nil && c.Skip == "" {
							toks, ok, why := c19Tokens(traces[w], tg[w], g)
							if !ok {
								c.Skip = why
							} else {
								pr.toks[w] = toks
							}
						}
					}
				}
				if c.Skip == "" {
					flag, _ := c19Flags(g, sp.Lines, sp.Funcs)
					sim := c19Simulate(g, flag, pr.toks[v], sp.Reqs)
					c.Exact = true
					for _, h := range sim.heads {
						sm0 := h[0] < 0 || g.N[h[0]].HasPos
						st0 := h[1] < 0 || g.N[h[1]].HasPos
						fm := h[0] >= 0 && flag[h[0]] && sm0
						ft := h[1] >= 0 && flag[h[1]] && st0
						if (fm || ft) && h[0] != h[1] {
							c.Exact = false
							break
						}
					}
					if !c.Exact {
						c.Region = "mistrack"
					}
					if len(sp.Lines) > 0 && p.Globals >= 2 {
						// a line request makes SetBreakpoints generate closures before Execute links the
						// package-level variable declarations
						c.Region = "linebp-globals"
					}
				}
				for pos, n := range s.Dump {
					if n.BreakOnLine || n.BreakOnCall {
						c.OFlags = append(c.OFlags, pos)
					}
				}
				c.Ses.Dump = nil // keep the memory of a thorough run small
			} else {
				c.Skip = "no dump"
				if p.HostPanic && len(sp.Lines) > 0 && strings.HasPrefix(s.Hang, "SetBreakpoints panicked") {
					c.Region = "linebp-hostpanic"
				}
			}
			pr.cases = append(pr.cases, c)
		}
	})

	// ------------------------------------------------------------ cases files, summary
	bodies := make([]strings.Builder, shards)
	counts := make([]int, shards)
	// balance the shards: heaviest program first onto the lightest shard
	shardOf := make([]int, len(progs))
	{
		type w struct{ pi, w int }
		var ws []w
		for pi, pr := range results {
			x := 0
			for _, c := range pr.cases {
				x += 200 + len(c.Ses.Events) + len(pr.toks[c.Toks])
			}
			for v := 0; v < 3; v++ {
				if pr.g[v] != nil {
					x += 3 * len(pr.g[v].N)
				}
			}
			ws = append(ws, w{pi, x})
		}
		sort.SliceStable(ws, func(i, j int) bool { return ws[i].w > ws[j].w })
		load := make([]int, shards)
		for _, e := range ws {
			best := 0
			for k := range load {
				if load[k] < load[best] {
					best = k
				}
			}
			shardOf[e.pi] = best
			load[best] += e.w
		}
	}
	trace0 := make([][]int, len(progs))
	for pi, pr := range results {
		trace0[pi] = c19MarkerTrace(pr.plainOut)
	}
	id := 0
	funcID := func(p c19Prog, name string) int {
		for i, f := range p.Funcs {
			if f == name {
				return i + 1
			}
		}
		return 1000 + len(name)
	}
	for pi, pr := range results {
		p := progs[pi]
		if pr.skip != "" {
			sm.count("program-skipped")
			sm.Notes = append(sm.Notes, fmt.Sprintf("program %d skipped: %s", pi, pr.skip))
			continue
		}
		sm.count("programs")
		if p.Wild {
			sm.count("programs:wild")
		}
		sh := shardOf[pi]
		b := &bodies[sh]
		wroteToks := [3]bool{}
		written := map[string]string{}
		for ci := range pr.cases {
			c := &pr.cases[ci]
			id++
			c.ID = id
			in := map[string]any{"kind": c.Spec.Kind, "program": p.Src, "tag": p.Tag, "lines": c.Spec.Lines, "funcs": c.Spec.Funcs, "requests": c19ReqString(c.Spec.Reqs)}
			if c.Spec.Earlier != nil {
				in["earlier_sessions_on_the_same_interpreter"] = c.Spec.Earlier
			}
			sm.CaseIndex[fmt.Sprint(id)] = in
			sm.Evaluations++
			sm.RefComparisons++
			sm.count("session:" + c.Spec.Kind)
			if len(c.Spec.Lines)+len(c.Spec.Funcs) > 0 || len(c.Spec.Reqs) > 1 {
				distinct.add(p.Src, c19Ints(c.Spec.Lines), strings.Join(c.Spec.Funcs, ","), c19ReqString(c.Spec.Reqs))
			}
			stops := 0
			for _, e := range c.Ses.Events {
				if e.Reason >= c19Pause && e.Reason <= c19StepOut {
					stops++
				}
			}
			sm.Distribution["stop-events"] += stops
			if len(sm.Samples) < 4 && stops > 2 && len(c.Spec.Reqs) > 1 && len(c.Spec.Reqs) < 30 {
				sm.Samples = append(sm.Samples, map[string]any{"input": in, "events": c19EventsString(c.Ses.Events), "stdout": c.Ses.Stdout, "end": c.Ses.End})
			}
			if len(c.Fail) > 0 {
				sm.RefMismatches = append(sm.RefMismatches, refMismatch{ID: id, Region: c.Region, Input: in,
					Impl: map[string]any{"events": c19EventsString(c.Ses.Events), "stdout": c.Ses.Stdout, "end": c.Ses.End, "result": c.Ses.Result, "hang": c.Ses.Hang},
					Ref:  map[string]any{"stdout": pr.plainOut, "end": pr.plainEnd, "result": pr.plainRes, "break-lines": c.Ref},
					Note: strings.Join(c.Fail, "; ")})
				sm.count("reference-mismatch:" + c.Region)
			}
			if p.Conc {
				sm.count("outside-model:goroutines")
				continue
			}
			if c.Skip != "" {
				sm.count("model-skipped")
				sm.Notes = append(sm.Notes, fmt.Sprintf("session %d not evaluated in the model: %s", id, c.Skip))
				continue
			}
			if c.Region == "" {
				sm.count("region:exact")
			} else {
				sm.count("region:" + c.Region)
			}
			sm.ImplComparisons++
			g := pr.g[c.Toks]
			if pr.toks[0] == nil {
				sm.count("model-skipped")
				sm.Notes = append(sm.Notes, fmt.Sprintf("session %d not evaluated in the model: no plain operation sequence", id))
				continue
			}
			if !wroteToks[0] {
				wroteToks[0] = true
				toksTxt := c19CoqToks(pr.toks[0])
				fmt.Fprintf(b, "Definition a%d_0 := mk_acts (%s)%%N.\n", pi, toksTxt)
				written[toksTxt] = fmt.Sprintf("a%d_0", pi)
			}
			if !wroteToks[c.Toks] {
				wroteToks[c.Toks] = true
				nodesTxt := c19CoqNodes(g, p)
				if prev, ok := written[nodesTxt]; ok {
					fmt.Fprintf(b, "Definition p%d_%d := %s.\n", pi, c.Toks, prev)
				} else {
					fmt.Fprintf(b, "Definition p%d_%d := mk_nodes (%s)%%N.\n", pi, c.Toks, nodesTxt)
					written[nodesTxt] = fmt.Sprintf("p%d_%d", pi, c.Toks)
				}
				toksTxt := c19CoqToks(pr.toks[c.Toks])
				if prev, ok := written[toksTxt]; ok {
					fmt.Fprintf(b, "Definition a%d_%d := %s.\n", pi, c.Toks, prev)
				} else {
					fmt.Fprintf(b, "Definition a%d_%d := mk_acts (%s)%%N.\n", pi, c.Toks, toksTxt)
					written[toksTxt] = fmt.Sprintf("a%d_%d", pi, c.Toks)
				}
			}
			// observed flags and validity
			var oflags, vlines, vfuncs, lines, funcs, reqs, markers []string
			for _, pos := range c.OFlags {
				oflags = append(oflags, fmt.Sprint(pos))
			}
			for k, l := range c.Spec.Lines {
				lines = append(lines, fmt.Sprint(l))
				if k < len(c.Ses.Valid) && c.Ses.Valid[k] {
					vlines = append(vlines, fmt.Sprint(l))
				}
			}
			for k, f := range c.Spec.Funcs {
				funcs = append(funcs, fmt.Sprint(funcID(p, f)))
				if kk := len(c.Spec.Lines) + k; kk < len(c.Ses.Valid) && c.Ses.Valid[kk] {
					vfuncs = append(vfuncs, fmt.Sprint(funcID(p, f)))
				}
			}
			for _, r := range c.Spec.Reqs {
				reqs = append(reqs, fmt.Sprint(c19ReqCode(r)))
			}
			for _, m := range p.Markers {
				markers = append(markers, fmt.Sprint(m))
			}
			var evs []string
			for _, e := range c.Ses.Events {
				evs = append(evs, c19Pack(e.Reason, e.Line, e.Col))
			}
			exact := 0
			if c.Exact {
				exact = 1
			}
			ref := c.Ref
			if c19HasTerminate(c.Spec.Reqs) {
				ref = nil // no reference for the events of a terminated session
				exact = 2
			}
			sameOut := 2
			if !c19HasTerminate(c.Spec.Reqs) {
				sameOut = 0
				if c.Ses.Stdout == pr.traceOut[c.Toks] && c.Ses.End == pr.traceEnd[c.Toks] {
					sameOut = 1
				}
			}
			fmt.Fprintf(b, "Definition c%d := (Build_session %d p%d_%d %s %s a%d_%d a%d_0 %s %s %s %s %s %s %s %d %s %s %d)%%N.\n", id, id, pi, c.Toks,
				coqList(lines), coqList(funcs), pi, c.Toks, pi, coqList(reqs), coqList(markers), coqList(evs), coqList(oflags), coqList(vlines), coqList(vfuncs),
				c19Ints(c19MarkerTrace(c.Ses.Stdout)), sameOut, c19Ints(ref), c19Ints(trace0[pi]), exact)
			counts[sh]++
			fmt.Fprintf(b, "Definition r%d := Eval vm_compute in (c19_mis_y [c%d], c19_mis_g [c%d]).\n", id, id, id)
		}
	}
	for sh := 0; sh < shards; sh++ {
		if counts[sh] == 0 {
			continue
		}
		name := fmt.Sprintf("cases_%d.v", sh)
		var ids []string
		body := bodies[sh].String()
		for _, l := range strings.Split(body, "\n") {
			if strings.HasPrefix(l, "Definition r") {
				ids = append(ids, strings.Fields(l)[1])
			}
		}
		var my, mg []string
		for _, r := range ids {
			my = append(my, "fst "+r)
			mg = append(mg, "snd "+r)
		}
		hdr := "From Coq Require Import List NArith.\nImport ListNotations.\nFrom Verif Require Import Debug.Model Debug.Cases.\n"
		tail := fmt.Sprintf("Definition MY := Eval vm_compute in concat [%s].\nPrint MY.\nDefinition MG := Eval vm_compute in concat [%s].\nPrint MG.\n", strings.Join(my, "; "), strings.Join(mg, "; "))
		if err := os.WriteFile(filepath.Join(*out, name), []byte(hdr+body+tail), 0o644); err != nil {
			return err
		}
		sm.CasesFiles = append(sm.CasesFiles, name)
	}
	if sk := sm.Distribution["model-skipped"] + 8*sm.Distribution["program-skipped"]; sk*10 > sm.Evaluations {
		// the tie would silently not be checked
		sm.HarnessViolations = append(sm.HarnessViolations, refMismatch{ID: 0, Region: "", Input: sm.Notes,
			Note: fmt.Sprintf("%d of %d sessions could not be evaluated in the model (instrumentation or replay machine does not cover them)", sk, sm.Evaluations)})
	}
	sort.Strings(sm.CasesFiles)
	if sm.CasesFiles == nil {
		sm.CasesFiles = []string{}
	}
	sm.DistinctNontriv = len(distinct)
	sm.Rule = "one evaluation = one debug session (program x breakpoint set x request list) driven through the public Debugger API and compared with the plain Eval of the same program and with the marker lines in the program's own output; " +
		"programs: seeded sequential programs (functions, recursion, closures, deferred closures, recovered and unrecovered panics, if/else, three-clause loops; in the region stream also condition-only loops, switch, same-generator branches) plus two fixed witnesses; " +
		"distinct = distinct (program, breakpoints, requests); non-trivial = the session has at least one breakpoint or more than one request"
	return sm.write(*out)
}

func c19ReqString(rq []c19Req) string {
	var b strings.Builder
	for _, r := range rq {
		b.WriteString(string(r))
	}
	return b.String()
}

func c19SamePCs(a, b *c19CFG) bool {
	for p := range a.PC {
		if a.PC[p] != b.PC[p] {
			return false
		}
	}
	return true
}

func c19CoqNodes(g *c19CFG, p c19Prog) string {
	it := make([]string, len(g.N))
	for pos, n := range g.N {
		b := func(v bool) int {
			if v {
				return 1
			}
			return 0
		}
		fn := 0
		if n.Kind == "funcDecl" && len(n.Children) > 1 {
			name := g.N[g.Pos[n.Children[1]]].Ident
			fn = 1000 + len(name)
			for i, f := range p.Funcs {
				if f == name {
					fn = i + 1
				}
			}
		}
		it[pos] = c19Pack(g.Tn[pos]+1, g.Fn[pos]+1, g.PC[pos], b(n.HasPos), n.Line, n.Col, g.Anc[pos]+1, g.Size[pos], b(n.Action == "nop"), fn, g.Start[pos]+1)
	}
	return "[" + strings.Join(it, ";") + "]"
}

func c19CoqToks(toks []c19Tok) string {
	it := make([]string, len(toks))
	for i, t := range toks {
		switch t.K {
		case 'E':
			it[i] = c19Pack(0, 0, t.P)
		case 'R':
			it[i] = c19Pack(1, t.PC, t.P)
		default:
			it[i] = c19Pack(2, 0, 0)
		}
	}
	return "[" + strings.Join(it, ";") + "]"
}

// c19Pack packs small numbers into one, 12 bits each, first lowest (decoded by Debug/Cases.v fld).
func c19Pack(f ...int) string {
	v := new(big.Int)
	for i := len(f) - 1; i >= 0; i-- {
		if f[i] < 0 || f[i] > 4095 {
			panic(fmt.Sprint("c19Pack: field out of range: ", f[i]))
		}
		v.Lsh(v, 12)
		v.Or(v, big.NewInt(int64(f[i])))
	}
	return "0x" + v.Text(16)
}
