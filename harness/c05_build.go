package main

import (
	"fmt"
	"os"
	"path/filepath"
	"strconv"
	"strings"
)

// ---------------------------------------------------------------- choice of probes for one universe

// sub-case of a probe: the output labels it owns, its region and (after the runs) its Coq rendering
type c05Sub struct {
	ID     int
	Labels []string
	Region string
	Tgt    int    // index into Tgts, -1 if not applicable
	Form   string // assertions: "2" two-result form, "1" one-result form
	NoUse  bool   // assertions, one-result form: the result is not used afterwards
}

type c05ProbeX struct {
	*c05Probe
	Subs []*c05Sub
	Dyn  int // dynamic struct type (-1: nil)
}

func (un *c05Unit) allCases() []*c05Case { return un.cases }

// implementsSrc: may a value of dynamic type (t, ptr) be stored in the source interface?
func (u *c05Univ) implementsSrc(t int, ptr bool, src string) bool {
	if src == "interface{}" {
		return true
	}
	if src[0] == 'I' {
		var j int
		fmt.Sscanf(src, "I%d", &j)
		return u.gImplements(t, ptr, j)
	}
	// helper K<name><sig>
	name, sig := src[1:len(src)-1], int(src[len(src)-1]-'0')
	m, ok := u.gMethodSet(t, ptr)[name]
	return ok && m.Sig == sig
}

func (u *c05Univ) srcMethods(src string) map[string]int {
	if src == "interface{}" {
		return map[string]int{}
	}
	if src[0] == 'I' {
		var j int
		fmt.Sscanf(src, "I%d", &j)
		return u.ifaceMethods(j)
	}
	return map[string]int{src[1 : len(src)-1]: int(src[len(src)-1] - '0')}
}

// yStaticReject: typecheck.typeAssertionExpr rejects a non-pointer concrete target when the
// depth-first method of some source method name has a pointer receiver (embedded pointers ignored).
func (u *c05Univ) yStaticReject(src string, o int, optr bool) bool {
	return u.yStaticRejectWhy(src, o, optr) != ""
}

// yStaticRejectWhy: "" | "assert-static-ptr" | "assert-static-sig".  The static check looks the
// methods of the source interface up depth first in the target type: it rejects a non-pointer
// target when that method has a pointer receiver, and any target when that method's signature
// differs from the interface's (Go compares with the shallowest method, which the target does have).
func (u *c05Univ) yStaticRejectWhy(src string, o int, optr bool) string {
	sm := u.srcMethods(src)
	for _, n := range sortedKeys(sm) {
		s := u.yDyn(o, n)
		if s.Kind != "method" {
			continue
		}
		if !optr && s.Meth.Ptr {
			return "assert-static-ptr"
		}
		if s.Meth.Sig != sm[n] {
			return "assert-static-sig"
		}
	}
	return ""
}

func (u *c05Univ) conflicting(src string, j int) bool {
	sm := u.srcMethods(src)
	for n, sig := range u.ifaceMethods(j) {
		if s2, ok := sm[n]; ok && s2 != sig {
			return true
		}
	}
	return false
}

// pickSrc chooses a static interface type able to hold (t, ptr): a universe interface if one fits, else a helper.
func (u *c05Univ) pickSrc(r *rng, t int, ptr bool, must string) string {
	var cands []string
	for j := range u.Ifaces {
		if !u.gImplements(t, ptr, j) {
			continue
		}
		if must != "" {
			if _, ok := u.ifaceMethods(j)[must]; !ok {
				continue
			}
		}
		cands = append(cands, iname(j))
	}
	ms := u.gMethodSet(t, ptr)
	if must != "" {
		cands = append(cands, kname(must, ms[must].Sig))
	} else {
		for _, n := range sortedKeys(ms) {
			cands = append(cands, kname(n, ms[n].Sig))
		}
	}
	if len(cands) == 0 {
		return ""
	}
	return r.pick(cands)
}

func (st *c05State) buildPrograms(un *c05Unit, r *rng, newID func() int) {
	u := un.u
	var mainP, regionP, singleP []*c05ProbeX
	add := func(p *c05ProbeX) {
		reg := ""
		for _, s := range p.Subs {
			if s.Region != "" {
				reg = s.Region
			}
		}
		p.Region = reg
		switch {
		case reg == "":
			mainP = append(mainP, p)
		case reg == "field-method-depth" || reg == "assert-static-ptr" || reg == "assert-static-sig" || reg == "embed-cycle":
			singleP = append(singleP, p)
		default:
			regionP = append(regionP, p)
		}
	}
	one := func(p *c05Probe, region string, labels ...string) *c05ProbeX {
		return &c05ProbeX{c05Probe: p, Dyn: p.T, Subs: []*c05Sub{{ID: newID(), Labels: labels, Region: region, Tgt: -1}}}
	}
	selNames := append(append([]string{}, c05FieldNames...), c05MethNames...)
	cyc := u.cyclic()
	for t := range u.Structs {
		for _, name := range selNames {
			g, y, region := u.selRegion(t, name)
			if cyc && ((g.Kind == "field" || g.Kind == "method") && u.pathCrossesForwardPtr(t, g.Path) ||
				(y.Kind == "field" || y.Kind == "method") && u.pathCrossesForwardPtr(t, y.Path)) {
				continue
			}
			if region != "" && y.Kind != "ambig" && y.Kind != "crash" &&
				(y.Kind != g.Kind || y.Kind == "method" && y.Meth.Sig != g.Meth.Sig) {
				// yaegi resolves to a member of another kind or arity: the call form written for Go's member does not compile there
				continue
			}
			switch g.Kind {
			case "field":
				if region == "" && r.chance(45) {
					continue
				}
				kind := "field"
				if r.bool() {
					kind = "pfield"
				}
				add(one(&c05Probe{Kind: kind, T: t, Ptr: kind == "pfield", Name: name, G: g}, region, "a", "b", "panic"))
			case "method":
				forms := []string{"call", "pcall", "mval", "pmval", "mexpr", "pmexpr", "iface", "piface"}
				n := 2
				if region != "" {
					n = 3
				}
				for k := 0; k < n; k++ {
					form := r.pick(forms)
					p := &c05Probe{Kind: form, T: t, Name: name, G: g}
					reg := region
					switch form {
					case "pcall", "pmval":
						p.Ptr = true
					case "mval":
					case "mexpr", "pmexpr":
						inVal := !g.Meth.Ptr || u.pathThroughPtr(t, g.Path)
						if form == "mexpr" && !inVal {
							continue
						}
						p.Ptr = form == "pmexpr"
						if r.chance(20) {
							p.Form = "var"
						}
						exact := len(g.Path) == 0 && g.Meth.Ptr == p.Ptr && p.Form == ""
						if !exact && reg == "" {
							reg = "methexpr"
						}
						if exact && r.chance(50) {
							// keep the working form well represented
						}
					case "iface", "piface":
						p.Kind = "iface"
						p.Ptr = form == "piface"
						if _, ok := u.gMethodSet(t, p.Ptr)[name]; !ok {
							continue
						}
						p.Src = u.pickSrc(r, t, p.Ptr, name)
					}
					if (p.Kind == "mval" || p.Kind == "pmval" || p.Kind == "iface") && reg == "" && r.chance(12) {
						p.Mutate = true
						if p.Kind == "iface" {
							reg = "iface-alias"
						} else {
							reg = "methval-late"
						}
					}
					add(one(p, reg, "a", "b", "c", "d", "panic"))
				}
			}
		}
	}
	// assertions
	nAssert := 3
	if cyc {
		nAssert = 0
	}
	for k := 0; k < nAssert; k++ {
		t := r.intn(len(u.Structs))
		ptr := r.bool()
		if len(u.gMethodSet(t, ptr)) == 0 {
			ptr = true
			if len(u.gMethodSet(t, ptr)) == 0 {
				continue
			}
		}
		src := u.pickSrc(r, t, ptr, "")
		fromEmpty := false // assertions on interface{} values are exercised by fixed witnesses only (c05_witness.go)
		if fromEmpty {
			src = "interface{}"
		}
		p := &c05ProbeX{c05Probe: &c05Probe{Kind: "assert", T: t, Ptr: ptr, Src: src}, Dyn: t}
		noUse := false
		addTgt := func(tg c05Tgt, reg2, reg1 string) {
			p.Tgts = append(p.Tgts, tg)
			k := len(p.Tgts) - 1
			p.Subs = append(p.Subs, &c05Sub{ID: newID(), Region: reg2, Tgt: k, Form: "2"}, &c05Sub{ID: newID(), Region: reg1, Tgt: k, Form: "1", NoUse: noUse})
			noUse = false
		}
		for j := range u.Ifaces {
			if u.conflicting(src, j) {
				continue
			}
			y, g := u.yAssert(t, j), u.gImplements(t, ptr, j)
			reg2, reg1 := "", ""
			switch {
			case fromEmpty:
				reg2, reg1 = "assert-from-empty", "assert-from-empty"
			case y != g && u.gImplementsNames(t, ptr, j) == y:
				reg2, reg1 = "assert-sig", "assert-sig"
			case y != g:
				reg2, reg1 = "assert-methodset", "assert-methodset"
			case !g && len(u.yMethods(t)) >= len(u.ifaceMethods(j)):
				reg1 = "assert1-nopanic"
			}
			if reg1 == "" && g {
				// the one-result form goes on to call a method of the target interface on the result
				mn, msig := u.firstIfaceMethod(j)
				if _, _, sr := u.selRegion(t, mn); sr != "" {
					reg1 = sr
					if yd := u.yDyn(t, mn); yd.Kind != "method" || yd.Meth.Sig != msig {
						// yaegi would dispatch the call to a method of another arity (a panic, not an identity):
						// the assertion itself agrees with Go, the result is left unused
						reg1, noUse = "", true
					}
				}
			}
			addTgt(c05Tgt{"iface", j}, reg2, reg1)
		}
		if !fromEmpty {
			for _, o := range []int{t, r.intn(len(u.Structs)), r.intn(len(u.Structs))} {
				for _, optr := range []bool{false, true} {
					if !u.implementsSrc(o, optr, src) {
						continue
					}
					kind := "struct"
					if optr {
						kind = "ptr"
					}
					dup := false
					for _, tg := range p.Tgts {
						dup = dup || tg == c05Tgt{kind, o}
					}
					if dup {
						continue
					}
					reg := ""
					if why := u.yStaticRejectWhy(src, o, optr); why != "" {
						reg = why
					}
					addTgt(c05Tgt{kind, o}, reg, reg)
				}
			}
		}
		if len(p.Tgts) > 0 {
			// sub-cases of different regions go to separate probes so that the clean ones stay in the main program
			st.splitAssert(p, add)
		}
	}
	// type switches
	nSwitch := 4
	if cyc {
		nSwitch = 0
	}
	for k := 0; k < nSwitch; k++ {
		t := r.intn(len(u.Structs))
		ptr := r.bool()
		if len(u.gMethodSet(t, ptr)) == 0 {
			ptr = true
			if len(u.gMethodSet(t, ptr)) == 0 {
				continue
			}
		}
		src := u.pickSrc(r, t, ptr, "")
		dyn := t
		if r.chance(12) {
			dyn = -1
		}
		p := &c05ProbeX{c05Probe: &c05Probe{Kind: "switch", T: dyn, Ptr: ptr, Src: src, Bind: r.bool()}, Dyn: dyn}
		reg := ""
		withIface := r.chance(20)
		withNil := r.chance(15)
		var cands []c05Tgt
		for o := range u.Structs {
			for _, optr := range []bool{false, true} {
				if u.implementsSrc(o, optr, src) && !u.yStaticReject(src, o, optr) {
					kind := "struct"
					if optr {
						kind = "ptr"
					}
					cands = append(cands, c05Tgt{kind, o})
				}
			}
		}
		if withIface {
			for j := range u.Ifaces {
				if !u.conflicting(src, j) {
					cands = append(cands, c05Tgt{"iface", j})
				}
			}
		}
		if withNil {
			cands = append(cands, c05Tgt{"nil", 0})
		}
		// shuffle and keep up to 5; make sure the dynamic type is often among them
		for i := len(cands) - 1; i > 0; i-- {
			j := r.intn(i + 1)
			cands[i], cands[j] = cands[j], cands[i]
		}
		if len(cands) > 5 {
			cands = cands[:5]
		}
		if dyn >= 0 && r.chance(60) {
			kind := "struct"
			if ptr {
				kind = "ptr"
			}
			me := c05Tgt{kind, t}
			has := u.yStaticReject(src, t, ptr)
			for _, c := range cands {
				has = has || c == me
			}
			if !has {
				cands = append(cands, me)
				i := r.intn(len(cands))
				cands[i], cands[len(cands)-1] = cands[len(cands)-1], cands[i]
			}
		}
		p.Tgts = cands
		gb, yb := u.switchBranches(dyn, ptr, cands)
		if gb != yb {
			reg = "typeswitch-iface"
			if gb < len(cands) && cands[gb].Kind == "nil" {
				reg = "typeswitch-nil"
			}
		}
		p.Subs = []*c05Sub{{ID: newID(), Region: reg, Labels: []string{"a", "x", "panic"}, Tgt: -1}}
		add(p)
	}
	// nil interface values
	if !cyc {
		t := r.intn(len(u.Structs))
		if len(u.gMethodSet(t, true)) > 0 {
			src := u.pickSrc(r, t, true, "")
			if src != "" && src != "interface{}" {
				sm := u.srcMethods(src)
				mn := sortedKeys(sm)[0]
				p := &c05ProbeX{c05Probe: &c05Probe{Kind: "nil", T: -1, Src: src, Name: mn, Form: argsOfSig(sm[mn])}, Dyn: -1}
				for _, optr := range []bool{false, true} {
					if u.implementsSrc(t, optr, src) && !u.yStaticReject(src, t, optr) {
						kind := "struct"
						if optr {
							kind = "ptr"
						}
						p.Tgts = append(p.Tgts, c05Tgt{kind, t})
					}
				}
				labels := []string{"n", "z", "panic"}
				for i := range p.Tgts {
					labels = append(labels, fmt.Sprintf("t%d", i))
				}
				p.Subs = []*c05Sub{{ID: newID(), Region: "", Labels: labels, Tgt: -1}}
				add(p)
				if r.chance(30) {
					// two-result assertion of a nil interface value to an interface type
					q := &c05ProbeX{c05Probe: &c05Probe{Kind: "nil", T: -1, Src: src, Name: mn, Form: argsOfSig(sm[mn])}, Dyn: -1}
					for j := range u.Ifaces {
						if !u.conflicting(src, j) {
							q.Tgts = append(q.Tgts, c05Tgt{"iface", j})
							break
						}
					}
					if len(q.Tgts) > 0 {
						q.Subs = []*c05Sub{{ID: newID(), Region: "assert-nil-2", Labels: []string{"n", "z", "panic", "t0"}, Tgt: -1}}
						add(q)
					}
				}
			}
		}
	}

	// ---- programs
	limit := func(l []*c05ProbeX, n int) []*c05ProbeX {
		for i := len(l) - 1; i > 0; i-- {
			j := r.intn(i + 1)
			l[i], l[j] = l[j], l[i]
		}
		if len(l) > n {
			l = l[:n]
		}
		return l
	}
	nm, nr, ns := 40, 24, 4
	if u.cyclic() {
		nm, nr, ns = 8, 4, 3
	}
	mainSel, regSel, singles := limit(mainP, nm), limit(regionP, nr), limit(singleP, ns)
	var all []*c05ProbeX
	all = append(append(append(all, mainSel...), regSel...), singles...)
	if len(all) == 0 {
		return
	}
	var probes []*c05Probe
	for i, p := range all {
		p.ID = i + 1
		probes = append(probes, p.c05Probe)
	}
	c05BuildAll(u, probes)
	if _, err := c05CheckLocked(c05Program(u, probes, "main")); err != nil {
		st.mu.Lock()
		st.sm.count("program rejected by go/types (discarded)")
		st.mu.Unlock()
		st.note("program rejected by go/types: %v", err)
		return
	}
	un.refPkg = fmt.Sprintf("u%d", un.idx)
	un.refSrc = c05Program(u, probes, un.refPkg)
	mk := func(name string, ps []*c05ProbeX, region string) {
		if len(ps) == 0 {
			return
		}
		var probes []*c05Probe
		for _, p := range ps {
			probes = append(probes, p.c05Probe)
		}
		pu := &c05ProgUnit{name: name, src: c05Program(u, probes, "main"), region: region, probes: probes, child: u.cyclic()}
		un.progs = append(un.progs, pu)
		un.px = append(un.px, ps)
	}
	mk(fmt.Sprintf("u%dm", un.idx), mainSel, "")
	mk(fmt.Sprintf("u%dr", un.idx), regSel, "region")
	for i, p := range singles {
		mk(fmt.Sprintf("u%ds%d", un.idx, i), []*c05ProbeX{p}, p.Region)
	}
}

// splitAssert keeps clean and region sub-cases of one assertion probe in separate probes.
func (st *c05State) splitAssert(p *c05ProbeX, add func(*c05ProbeX)) {
	byReg := map[string][]*c05Sub{}
	for _, s := range p.Subs {
		k := s.Region
		if s.NoUse {
			k += "\x00nouse"
		}
		byReg[k] = append(byReg[k], s)
	}
	for _, key := range sortedKeys(byReg) {
		subs := byReg[key]
		reg := strings.TrimSuffix(key, "\x00nouse")
		if reg == "assert-static-ptr" || reg == "assert-static-sig" {
			// compile error in yaegi: one target per program
			subs = subs[:2]
		}
		q := &c05ProbeX{c05Probe: &c05Probe{Kind: "assert", T: p.T, Ptr: p.Ptr, Src: p.Src}, Dyn: p.Dyn}
		if reg == "assert-sig" || reg == "assert-methodset" || key != reg {
			// the assertion wrongly succeeds; calling the mismatched method would panic for another reason
			q.Form = "nouse"
		}
		idx := map[int]int{}
		for _, s := range subs {
			k, ok := idx[s.Tgt]
			if !ok {
				q.Tgts = append(q.Tgts, p.Tgts[s.Tgt])
				k = len(q.Tgts) - 1
				idx[s.Tgt] = k
			}
			ns := &c05Sub{ID: s.ID, Region: reg, Tgt: k, Form: s.Form}
			if s.Form == "2" {
				ns.Labels = []string{fmt.Sprintf("t%d", k)}
			} else {
				ns.Labels = []string{fmt.Sprintf("u%d", k), fmt.Sprintf("w%d", k)}
			}
			q.Subs = append(q.Subs, ns)
		}
		add(q)
	}
}

// switchBranches: index of the clause taken according to G and to Y (twins of Model.g_switch / y_switch).
func (u *c05Univ) switchBranches(dyn int, ptr bool, cases []c05Tgt) (g, y int) {
	g, y = len(cases), len(cases)
	for k, c := range cases {
		m := false
		switch c.Kind {
		case "struct":
			m = dyn >= 0 && !ptr && c.Idx == dyn
		case "ptr":
			m = dyn >= 0 && ptr && c.Idx == dyn
		case "iface":
			m = dyn >= 0 && u.gImplements(dyn, ptr, c.Idx)
		case "nil":
			m = dyn < 0
		}
		if m && g == len(cases) {
			g = k
		}
		if m && (c.Kind == "struct" || c.Kind == "ptr") && y == len(cases) {
			y = k
		}
	}
	return g, y
}

// ---------------------------------------------------------------- after the runs: comparison and Coq cases

func (st *c05State) collect(units []*c05Unit, dump string) {
	sm := st.sm
	for _, un := range units {
		for _, n := range un.notes {
			st.note("universe %d: %s", un.idx, n)
		}
		nontrivU := false
		for t := range un.u.Structs {
			if un.u.embedDepth(t, map[int]bool{}) >= 1 {
				nontrivU = true
			}
		}
		if un.u != nil {
			sm.CaseIndex[un.key()] = un.u.decls()
		}
		for _, c := range un.cases {
			sm.Evaluations++
			sm.ImplComparisons++
			sm.RefComparisons++
			sm.count("function-level:" + c.Kind)
			if c.Region != "" {
				sm.count("function-level:" + c.Kind + ":" + c.Region)
			}
			if len(sm.CaseIndex) < c05MaxIndex {
				sm.CaseIndex[fmt.Sprint(c.ID)] = c.Input
			}
			if nontrivU {
				st.distinct.add(un.u.decls(), c.Kind, fmt.Sprint(c.Input["type"], c.Input["ptr"], c.Input["name"], c.Input["iface"]))
			}
			if c.Kind == "decl" {
				sm.RefMismatches = append(sm.RefMismatches, refMismatch{ID: c.ID, Region: "", Input: c.Input, Impl: c.Input["error"], Ref: "accepted by go/types"})
				continue
			}
			if mm, _ := c.Input["mismatch"].(bool); mm {
				full := c.Input
				if st.full(c.Region) {
					full = map[string]any{"decls": un.u.decls()}
					for k, v := range c.Input {
						full[k] = v
					}
				}
				sm.RefMismatches = append(sm.RefMismatches, refMismatch{ID: c.ID, Region: c.Region, Input: full, Impl: c.Input["impl"], Ref: c.Input["ref"]})
			}
		}
		for k, pu := range un.progs {
			yl, gl := c05Lines(pu.y.Stdout), c05Lines(un.refOut)
			sm.count("programs")
			pu.g = outcome{End: un.refEnd}
			progMismatch := false
			for _, px := range un.px[k] {
				yy, gg := yl[px.ID], gl[px.ID]
				if yy == nil {
					yy = map[string]string{}
				}
				if gg == nil {
					gg = map[string]string{}
				}
				if pu.y.End != "ok" {
					yy["end"] = pu.y.End
				}
				if pu.g.End != "ok" {
					gg["end"] = pu.g.End
				}
				for _, sub := range px.Subs {
					sm.Evaluations++
					sm.RefComparisons++
					sm.ImplComparisons++
					sm.count("program:" + px.Kind)
					if sub.Region != "" {
						sm.count("program:" + px.Kind + ":" + sub.Region)
					}
					ys, gs := map[string]string{}, map[string]string{}
					for _, l := range append(sub.Labels, "end") {
						if v, ok := yy[l]; ok {
							ys[l] = v
						}
						if v, ok := gg[l]; ok {
							gs[l] = v
						}
					}
					in := map[string]any{"level": "program", "kind": px.Kind, "form": px.Form, "type": px.T, "ptr": px.Ptr, "name": px.Name, "src": px.Src,
						"mutate": px.Mutate, "bind": px.Bind, "program": pu.name, "probe": px.ID}
					if sub.Tgt >= 0 {
						in["target"] = px.Tgts[sub.Tgt].goType()
					} else if len(px.Tgts) > 0 {
						var ts []string
						for _, tg := range px.Tgts {
							ts = append(ts, tg.goType())
						}
						in["cases"] = ts
					}
					in["universe"] = un.key()
					if len(sm.CaseIndex) < c05MaxIndex {
						sm.CaseIndex[fmt.Sprint(sub.ID)] = in
					}
					if nontrivU {
						st.distinct.add(un.u.decls(), px.Kind, px.Form, fmt.Sprint(px.T, px.Ptr, px.Name, px.Src, px.Mutate, px.Bind, in["target"], in["cases"]))
					}
					if fmt.Sprint(ys) != fmt.Sprint(gs) {
						progMismatch = true
						full := in
						if st.full(sub.Region) {
							// complete replay material for unexplained cases and for the first cases of each region
							full = map[string]any{"source": px.body, "decls": un.u.decls()}
							for k, v := range in {
								full[k] = v
							}
						}
						sm.RefMismatches = append(sm.RefMismatches, refMismatch{ID: sub.ID, Region: sub.Region, Input: full, Impl: ys, Ref: gs})
					}
					if c := st.coqCase(un.u, px, sub, ys, gs); c != nil {
						un.cases = append(un.cases, c)
					}
				}
			}
			if progMismatch && dump != "" {
				os.MkdirAll(dump, 0o755)
				os.WriteFile(filepath.Join(dump, pu.name+".go"), []byte(pu.src), 0o644)
				os.WriteFile(filepath.Join(dump, pu.name+".out"), []byte("--- yaegi "+pu.y.End+"\n"+pu.y.Stdout+"--- go "+un.refEnd+"\n"+un.refOut), 0o644)
			}
			if len(sm.Samples) < 4 && k == 0 && nontrivU {
				sm.Samples = append(sm.Samples, map[string]any{"program": pu.name, "source": pu.src})
			}
		}
	}
}

func coqObs(s c05Sel, why string) string {
	switch why {
	case "":
		return "(OSel " + s.coq() + ")"
	case "panic":
		return "OPanic"
	}
	return "OOther"
}

// coqCase renders the observation of one sub-case for the models.
func (st *c05State) coqCase(u *c05Univ, px *c05ProbeX, sub *c05Sub, ys, gs map[string]string) *c05Case {
	switch px.Kind {
	case "field", "pfield", "call", "pcall", "mval", "pmval", "mexpr", "pmexpr", "iface":
		if _, bad := ys["end"]; bad {
			// the program did not run to completion in yaegi (compile error, abort): rendered as OOther
			form := "FSel"
			if px.Kind == "iface" {
				form = "FDyn"
			}
			gsel, gwhy := px.decodeSel(u, gs)
			obs := "OOther"
			if strings.HasPrefix(ys["end"], "compile-error") && strings.Contains(ys["end"], "ambiguous selector") {
				obs = "(OSel RAmbig)"
			}
			if ys["end"] == "host-crash" {
				obs = "(OSel RCrash)"
			}
			return &c05Case{ID: sub.ID, Kind: "psel", Region: sub.Region, Coq: fmt.Sprintf("(%s, %d, %s, %s, %s, %s)", coqN(sub.ID), px.T, coqStr(px.Name), form, obs, coqObs(gsel, gwhy))}
		}
		ysel, ywhy := px.decodeSel(u, ys)
		gsel, gwhy := px.decodeSel(u, gs)
		form := "FSel"
		switch px.Kind {
		case "iface":
			form = "FDyn"
		case "mexpr", "pmexpr":
			exact := len(px.G.Path) == 0 && px.G.Meth.Ptr == px.Ptr && px.Form == ""
			if !exact {
				form = "FExprBad"
			}
		}
		return &c05Case{ID: sub.ID, Kind: "psel", Region: sub.Region, Coq: fmt.Sprintf("(%s, %d, %s, %s, %s, %s)", coqN(sub.ID), px.T, coqStr(px.Name), form, coqObs(ysel, ywhy), coqObs(gsel, gwhy))}
	case "assert":
		tg := px.Tgts[sub.Tgt]
		obs := func(m map[string]string) string {
			if sub.Form == "2" {
				switch m[fmt.Sprintf("t%d", sub.Tgt)] {
				case "true":
					return "ATrue"
				case "false":
					return "AFalse"
				}
				if _, bad := m["end"]; bad {
					return "AOther"
				}
				return "APanic"
			}
			switch m[fmt.Sprintf("u%d", sub.Tgt)] {
			case "ok":
				return "ATrue"
			case "panic":
				return "APanic"
			case "ok|panic":
				return "ALate"
			}
			return "AOther"
		}
		src := "SrcIface"
		if px.Src == "interface{}" {
			src = "SrcEmpty"
		}
		var sms []string
		srcM := u.srcMethods(px.Src)
		for _, n := range sortedKeys(srcM) {
			sms = append(sms, fmt.Sprintf("(%s, %s)", coqStr(n), coqN(srcM[n])))
		}
		form := "A2"
		if sub.Form == "1" {
			form = "A1"
		}
		return &c05Case{ID: sub.ID, Kind: "assert", Region: sub.Region, Coq: fmt.Sprintf("(%s, %s, %s, (Some (%d, %s)), %s, %s, %s, %s)", coqN(sub.ID), src, coqList(sms), px.T, coqBool(px.Ptr), tg.coq(), form, obs(ys), obs(gs))}
	case "switch":
		obs := func(m map[string]string) string {
			a, ok := m["a"]
			if !ok {
				return "None"
			}
			var k int
			if _, err := fmt.Sscanf(a, "%d", &k); err != nil {
				return "None"
			}
			return fmt.Sprintf("(Some %d)", k)
		}
		var cs []string
		for _, tg := range px.Tgts {
			cs = append(cs, tg.coq())
		}
		dyn := "None"
		if px.T >= 0 {
			dyn = fmt.Sprintf("(Some (%d, %s))", px.T, coqBool(px.Ptr))
		}
		return &c05Case{ID: sub.ID, Kind: "switch", Region: sub.Region, Coq: fmt.Sprintf("(%s, %s, %s, %s, %s)", coqN(sub.ID), dyn, coqList(cs), obs(ys), obs(gs))}
	case "nil":
		if len(px.Tgts) == 1 && px.Tgts[0].Kind == "iface" {
			obs := func(m map[string]string) string {
				if t, ok := m["t0"]; ok {
					if t == "false" {
						return "AFalse"
					}
					return "ATrue"
				}
				if _, ok := m["panic"]; ok {
					return "APanic"
				}
				return "AOther"
			}
			return &c05Case{ID: sub.ID, Kind: "assert", Region: sub.Region, Coq: fmt.Sprintf("(%s, SrcIface, [], None, %s, A2, %s, %s)", coqN(sub.ID), px.Tgts[0].coq(), obs(ys), obs(gs))}
		}
	}
	return nil
}

// the printable index of cases (used by the driver to show an example) is capped
const c05MaxIndex = 80000

// full: should this mismatch carry the declarations and the probe source? (always when unexplained, else the first 25 per region)
func (st *c05State) full(region string) bool {
	if region == "" {
		return true
	}
	if st.fullCount == nil {
		st.fullCount = map[string]int{}
	}
	st.fullCount[region]++
	return st.fullCount[region] <= 25
}

// collectExtras compares the host-stream programs line by line and the witnesses as a whole.
func (st *c05State) collectExtras(dump string) (synthetic []*c05Unit) {
	sm := st.sm
	var hcases []string
	defer func() {
		if len(hcases) == 0 {
			return
		}
		name := fmt.Sprintf("cases_c05h_%d.v", st.nfiles)
		st.nfiles++
		body := "From Verif Require Import Lib.Str Disp.Host Disp.HostCases.\nFrom Coq Require Import NArith.\n" +
			"Definition cases : list hcase := [\n" + strings.Join(hcases, ";\n") + "\n].\n" +
			"Definition MY := Eval vm_compute in host_mis_y cases.\nPrint MY.\nDefinition MG := Eval vm_compute in host_mis_g cases.\nPrint MG.\n"
		if err := os.WriteFile(filepath.Join(st.out, name), []byte(body), 0o644); err == nil {
			sm.CasesFiles = append(sm.CasesFiles, name)
		}
	}()
	for _, e := range st.extras {
		if e.hx != nil {
			hcases = append(hcases, st.collectHostX(e, dump)...)
			continue
		}
		if e.expect != "" {
			// witness of a finding: attributed only if yaegi still produces the recorded wrong output
			sm.Evaluations++
			sm.RefComparisons++
			sm.count("witness")
			e.input["source"] = e.src
			sm.CaseIndex[fmt.Sprint(e.id)] = e.input
			got := e.y.Stdout + "\x00" + e.y.End
			if e.expect == "host-crash" {
				got = e.y.End
			}
			if e.wit != nil && e.wit.Univ != nil {
				// the witness' selector as a case for the models
				obsY := "OOther"
				switch {
				case e.y.End == "host-crash":
					obsY = "(OSel RCrash)"
				case e.y.Stdout == e.refOut:
					obsY = "(OSel " + e.wit.Univ.gSelect(e.wit.SelT, e.wit.SelN).coq() + ")"
				}
				obsG := "(OSel " + e.wit.Univ.gSelect(e.wit.SelT, e.wit.SelN).coq() + ")"
				c := &c05Case{ID: e.id, Kind: "psel", Region: e.region,
					Coq: fmt.Sprintf("(%s, %d, %s, FSel, %s, %s)", coqN(e.id), e.wit.SelT, coqStr(e.wit.SelN), obsY, obsG)}
				synthetic = append(synthetic, &c05Unit{u: e.wit.Univ, cases: []*c05Case{c}})
				sm.ImplComparisons++
			}
			ref := e.refOut + "\x00" + e.refEnd
			if e.y.Stdout == e.refOut && e.y.End == e.refEnd {
				continue // repaired
			}
			region := "" // differs from Go in a way the finding does not describe
			for _, alt := range strings.Split(e.expect, "||") {
				if got == alt {
					region = e.region
				}
			}
			sm.RefMismatches = append(sm.RefMismatches, refMismatch{ID: e.id, Region: region, Input: e.input, Impl: got, Ref: ref, Note: "fixed witness " + e.name})
			continue
		}
		yl, gl := strings.Split(e.y.Stdout, "\n"), strings.Split(e.refOut, "\n")
		n := len(gl)
		if len(yl) > n {
			n = len(yl)
		}
		lvl := "host"
		if e.input["level"] == "polysite" {
			lvl = "polysite"
		}
		sm.count(lvl + " programs")
		bad := false
		for i := 0; i < n; i++ {
			var a, b string
			if i < len(yl) {
				a = yl[i]
			}
			if i < len(gl) {
				b = gl[i]
			}
			if a == "" && b == "" {
				continue
			}
			sm.Evaluations++
			sm.RefComparisons++
			sm.count(lvl + ":line")
			st.distinct.add(lvl, e.src, fmt.Sprint(i))
			if a != b && !bad {
				bad = true
				in := map[string]any{}
				for k, v := range e.input {
					in[k] = v
				}
				in["source"] = e.src
				in["line"] = i
				sm.CaseIndex[fmt.Sprint(e.id+i)] = in
				sm.RefMismatches = append(sm.RefMismatches, refMismatch{ID: e.id + i, Region: "", Input: in, Impl: a + " [" + e.y.End + "]", Ref: b})
			}
		}
		if e.y.End != "ok" && !bad {
			in := map[string]any{"source": e.src}
			sm.CaseIndex[fmt.Sprint(e.id+999)] = in
			sm.RefMismatches = append(sm.RefMismatches, refMismatch{ID: e.id + 999, Region: "", Input: in, Impl: e.y.End, Ref: e.refEnd})
			bad = true
		}
		if bad && dump != "" {
			os.MkdirAll(dump, 0o755)
			os.WriteFile(filepath.Join(dump, e.name+".go"), []byte(e.src), 0o644)
			os.WriteFile(filepath.Join(dump, e.name+".out"), []byte("--- yaegi "+e.y.End+"\n"+e.y.Stdout+"--- go "+e.refEnd+"\n"+e.refOut), 0o644)
		}
		if len(sm.Samples) < 6 && e.id%7000 == 0 {
			sm.Samples = append(sm.Samples, map[string]any{"program": e.name, "source": e.src})
		}
	}
	return synthetic
}

// collectHostX compares the probes of one program of the probed-interfaces stream and renders them for Coq.
func (st *c05State) collectHostX(e *c05Extra, dump string) (hcases []string) {
	sm := st.sm
	lines := func(out string) map[string]string {
		m := map[string]string{}
		cur := ""
		for _, l := range strings.Split(out, "\n") {
			if strings.HasPrefix(l, "h") {
				if sp := strings.IndexByte(l, ' '); sp > 1 {
					if _, err := strconv.Atoi(l[1:sp]); err == nil {
						cur = l[:sp]
						m[cur] = l[sp+1:]
						continue
					}
				}
			}
			if cur != "" && l != "" {
				m[cur] += "\n" + l
			}
		}
		return m
	}
	yl, gl := lines(e.y.Stdout), lines(e.refOut)
	sm.count("hostx programs:" + e.hx.kind)
	bad := false
	for i, p := range e.hx.probes {
		id := e.id + i + 1
		yo, yok := yl[p.Label]
		gout, gok := gl[p.Label]
		sm.Evaluations++
		sm.RefComparisons++
		sm.ImplComparisons++
		sm.count("hostx:" + p.Consumer.Name)
		if p.Region != "" {
			sm.count("hostx:" + p.Region)
		}
		st.distinct.add("hostx", e.hx.kind, p.Desc, strings.Join(p.ImplY, ","), strings.Join(p.ImplG, ","), p.Code)
		in := map[string]any{"level": "hostx", "kind": e.hx.kind, "probe": p.Label, "consumer": p.Consumer.Name, "class": p.Consumer.Cls,
			"methods (yaegi)": p.ImplY, "method set (Go)": p.ImplG, "expr": p.Code}
		if p.Cell != nil {
			in["cell"] = p.Cell
		}
		if len(sm.CaseIndex) < c05MaxIndex {
			sm.CaseIndex[fmt.Sprint(id)] = in
		}
		obs := func(out string, ok bool) string {
			if !ok {
				return "missing"
			}
			if out == "PANIC" {
				return "panic"
			}
			return hxDecode(p.Consumer, out, p.Interp)
		}
		oy, og := obs(yo, yok), obs(gout, gok)
		if e.y.End != "ok" && !yok {
			oy = "aborted"
		}
		if !p.NoCoq {
			hcases = append(hcases, fmt.Sprintf("(%s, %s, %s, %s, %s, %s, %s)", coqN(id), coqStr(p.Consumer.Name), coqStr(p.Consumer.Cls),
				coqStrList(p.ImplY), coqStrList(p.ImplG), coqStr(oy), coqStr(og)))
		}
		if yo != gout || yok != gok {
			bad = true
			full := in
			if st.full(p.Region) {
				full = map[string]any{"source": e.src}
				for k, v := range in {
					full[k] = v
				}
			}
			sm.RefMismatches = append(sm.RefMismatches, refMismatch{ID: id, Region: p.Region, Input: full, Impl: yo + " [" + oy + "]", Ref: gout + " [" + og + "]"})
		}
	}
	if bad && dump != "" {
		os.MkdirAll(dump, 0o755)
		os.WriteFile(filepath.Join(dump, e.name+".go"), []byte(e.src), 0o644)
		os.WriteFile(filepath.Join(dump, e.name+".out"), []byte("--- yaegi "+e.y.End+"\n"+e.y.Stdout+"--- go "+e.refEnd+"\n"+e.refOut), 0o644)
	}
	if e.id == 800000000 {
		sm.Samples = append(sm.Samples, map[string]any{"program": e.name, "kind": e.hx.kind, "source": e.src})
	}
	return hcases
}
