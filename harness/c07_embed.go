package main

import (
	"fmt"
	"io"
	"reflect"
	"sort"
	"strings"

	"verif/harness/c07host"
)

// C07 — stream E: script types that EMBED host interfaces / host types, override some of the
// promoted methods and not others, and are handed to the host as each host interface, by value and
// by pointer. The host calls every method of the interface; a log shared by both sides records which
// implementation ran (the script's override or the embedded host value's method) and what the host
// got back. Oracles: the same calls performed inside the script, and Go's method-set rule.

// ---------------------------------------------------------------- host side: package c07host

type c07iface struct {
	name    string   // key
	src     string   // type text in the script
	methods []string // in the order the host calls them
	use     string   // host consumer
}

var c07ifaces = []c07iface{
	{"Writer", "io.Writer", []string{"Write"}, "UseWriter"},
	{"Reader", "io.Reader", []string{"Read"}, "UseReader"},
	{"Stringer", "fmt.Stringer", []string{"String"}, "UseStringer"},
	{"Error", "error", []string{"Error"}, "UseError"},
	{"Sort", "sort.Interface", []string{"Len", "Less", "Swap"}, "UseSort"},
	{"RW", "io.ReadWriter", []string{"Read", "Write"}, "UseRW"},
	{"Shape", "host.Shape", []string{"Area", "Name"}, "UseShape"},
	{"Handler", "host.Handler", []string{"Serve"}, "UseHandler"},
}

// the calls the host makes on a received value, per method, and the line it logs for the results
func c07callMethod(l *c07host.Log, v interface{}, m string) {
	switch m {
	case "Write":
		n, err := v.(io.Writer).Write([]byte("abc"))
		l.Add(fmt.Sprint("ret Write ", n, " ", err == nil))
	case "Read":
		buf := make([]byte, 4)
		n, err := v.(io.Reader).Read(buf)
		l.Add(fmt.Sprint("ret Read ", n, " ", err == nil, " ", string(buf[:n])))
	case "String":
		l.Add("ret String " + v.(fmt.Stringer).String())
	case "Error":
		l.Add("ret Error " + v.(error).Error())
	case "Len":
		l.Add(fmt.Sprint("ret Len ", v.(sort.Interface).Len()))
	case "Less":
		l.Add(fmt.Sprint("ret Less ", v.(sort.Interface).Less(0, 1)))
	case "Swap":
		v.(sort.Interface).Swap(0, 1)
		l.Add("ret Swap")
	case "Area":
		l.Add(fmt.Sprint("ret Area ", v.(c07host.Shape).Area()))
	case "Name":
		l.Add("ret Name " + v.(c07host.Shape).Name())
	case "Serve":
		l.Add("ret Serve " + v.(c07host.Handler).Serve("req"))
	}
}

// script text of the same call, logging the same line
func c07callMethodSrc(m string) string {
	switch m {
	case "Write":
		return `{ n, err := v.Write([]byte("abc")); host.L.Add(fmt.Sprint("ret Write ", n, " ", err == nil)) }`
	case "Read":
		return `{ buf := make([]byte, 4); n, err := v.Read(buf); host.L.Add(fmt.Sprint("ret Read ", n, " ", err == nil, " ", string(buf[:n]))) }`
	case "String":
		return `host.L.Add("ret String " + v.String())`
	case "Error":
		return `host.L.Add("ret Error " + v.Error())`
	case "Len":
		return `host.L.Add(fmt.Sprint("ret Len ", v.Len()))`
	case "Less":
		return `host.L.Add(fmt.Sprint("ret Less ", v.Less(0, 1)))`
	case "Swap":
		return `v.Swap(0, 1); host.L.Add("ret Swap")`
	case "Area":
		return `host.L.Add(fmt.Sprint("ret Area ", v.Area()))`
	case "Name":
		return `host.L.Add("ret Name " + v.Name())`
	}
	return `host.L.Add("ret Serve " + v.Serve("req"))`
}

// the script's override of a method: logs, then either answers itself or delegates to the embedded value
func c07overrideSrc(recv, emb, m string, delegate bool) string {
	sig := map[string]string{"Write": "Write(p []byte) (int, error)", "Read": "Read(p []byte) (int, error)", "String": "String() string", "Error": "Error() string",
		"Len": "Len() int", "Less": "Less(i, j int) bool", "Swap": "Swap(i, j int)", "Area": "Area() int", "Name": "Name() string", "Serve": "Serve(r string) string"}[m]
	logx := map[string]string{"Write": `"S.Write " + string(p)`, "Less": `fmt.Sprint("S.Less ", i, " ", j)`, "Swap": `fmt.Sprint("S.Swap ", i, " ", j)`, "Serve": `"S.Serve " + r`}[m]
	if logx == "" {
		logx = `"S.` + m + `"`
	}
	own := map[string]string{"Write": "return len(p) + 100, nil", "Read": `return copy(p, "script-data"), nil`, "String": `return "S:" + t.K`, "Error": `return "SE:" + t.K`,
		"Len": "return 3", "Less": "return i > j", "Swap": "", "Area": "return 11", "Name": `return "S:" + t.K`, "Serve": `return "S(" + r + ")"`}[m]
	del := map[string]string{"Write": "return t." + emb + ".Write(p)", "Read": "return t." + emb + ".Read(p)", "String": "return t." + emb + ".String()", "Error": "return t." + emb + ".Error()",
		"Len": "return t." + emb + ".Len()", "Less": "return t." + emb + ".Less(i, j)", "Swap": "t." + emb + ".Swap(i, j)", "Area": "return t." + emb + ".Area()", "Name": "return t." + emb + ".Name()",
		"Serve": "return t." + emb + ".Serve(r)"}[m]
	body := own
	if delegate {
		body = del
	}
	return fmt.Sprintf("func (t %s) %s { host.L.Add(%s); %s }\n", recv, sig, logx, body)
}

type c07E struct {
	iface    c07iface
	embed    string // "iface" (the interface type itself) | "hostval" (host.Impl) | "hostptr" (*host.Impl) | "named" (a named, non-embedded field: control)
	layout   string // "only" | "first" | "last"
	over     []string
	delegate bool
	ptrRecv  bool
	byPtr    bool
	pass     string // "arg" | "var" | "ret" | "stdlib"
}

func (e *c07E) key() string {
	return fmt.Sprint(e.iface.name, "|", e.embed, "|", e.layout, "|", e.over, "|", e.delegate, "|", e.ptrRecv, "|", e.byPtr, "|", e.pass)
}

func c07has(l []string, x string) bool {
	for _, y := range l {
		if y == x {
			return true
		}
	}
	return false
}

// source renders the script: type T, its overrides, Via (hands the value to the host) and Direct
// (the same calls inside the script).
func (e *c07E) source(tag string) string {
	var b strings.Builder
	b.WriteString("package main\n\nimport (\n\t\"fmt\"\n\thost \"verif/harness/c07host\"\n\t\"io\"\n\t\"sort\"\n)\n\nvar _ = fmt.Sprint\nvar _ io.Writer\nvar _ sort.Interface\n\n")
	embT, embName := e.iface.src, ""
	switch e.embed {
	case "hostval":
		embT = "host.Impl" + e.iface.name
	case "hostptr":
		embT = "*host.Impl" + e.iface.name
	}
	switch {
	case e.embed == "named":
		embName = "F"
	case strings.Contains(embT, "."):
		embName = embT[strings.LastIndex(embT, ".")+1:]
	default:
		embName = embT // error
	}
	field := embT
	if e.embed == "named" {
		field = "F " + embT
	}
	switch e.layout {
	case "only":
		fmt.Fprintf(&b, "type T struct {\n\t%s\n}\n", field)
	case "first":
		fmt.Fprintf(&b, "type T struct {\n\t%s\n\tK string\n}\n", field)
	default:
		fmt.Fprintf(&b, "type T struct {\n\tK string\n\t%s\n}\n", field)
	}
	recv := "T"
	if e.ptrRecv {
		recv = "*T"
	}
	for _, m := range e.over {
		src := c07overrideSrc(recv, embName, m, e.delegate)
		if e.layout == "only" {
			src = strings.ReplaceAll(src, "t.K", `"only"`)
		}
		b.WriteString(src)
	}
	embV := fmt.Sprintf("host.Impl%s{L: host.L, Tag: %q}", e.iface.name, tag)
	if e.embed == "hostptr" {
		embV = "&" + embV
	}
	lit := ""
	switch e.layout {
	case "only":
		lit = "T{" + embV + "}"
	case "first":
		lit = "T{" + embV + ", \"k\"}"
	default:
		lit = "T{\"k\", " + embV + "}"
	}
	if e.byPtr {
		lit = "&" + lit
	}
	fmt.Fprintf(&b, "func mk() %s { return %s }\n", e.iface.src, lit)
	switch e.pass {
	case "arg":
		fmt.Fprintf(&b, "func Via() { host.%s(%s) }\n", e.iface.use, lit)
	case "var":
		fmt.Fprintf(&b, "func Via() {\n\tt := %s\n\tvar w %s = t\n\thost.%s(w)\n}\n", lit, e.iface.src, e.iface.use)
	case "ret":
		fmt.Fprintf(&b, "func Via() { host.%s(mk()) }\n", e.iface.use)
	case "stdlib":
		b.WriteString("func Via() { " + e.stdlibUse(lit) + " }\n")
	}
	var calls []string
	for _, m := range e.iface.methods {
		calls = append(calls, c07callMethodSrc(m))
	}
	if e.pass == "stdlib" {
		calls = []string{e.stdlibDirect()}
	}
	fmt.Fprintf(&b, "func Direct() {\n\tv := %s\n\t%s\n}\n", lit, strings.Join(calls, "\n\t"))
	return b.String()
}

// stdlib consumers: the standard library calls the method
func (e *c07E) stdlibUse(lit string) string {
	switch e.iface.name {
	case "Writer":
		return `n, err := fmt.Fprint(` + lit + `, "abc"); host.L.Add(fmt.Sprint("ret Write ", n, " ", err == nil))`
	case "Reader":
		return `buf := make([]byte, 4); n, err := io.ReadFull(` + lit + `, buf); host.L.Add(fmt.Sprint("ret Read ", n, " ", err == nil, " ", string(buf[:n])))`
	case "Stringer":
		return `host.L.Add("ret String " + fmt.Sprint(` + lit + `))`
	case "Error":
		return `host.L.Add("ret Error " + fmt.Sprint(` + lit + `))`
	}
	return ""
}

func (e *c07E) stdlibDirect() string {
	switch e.iface.name {
	case "Writer":
		return c07callMethodSrc("Write")
	case "Reader":
		return c07callMethodSrc("Read")
	case "Stringer":
		return c07callMethodSrc("String")
	}
	return c07callMethodSrc("Error")
}

// expected is Go's rule: an overridden method runs the script's code (then the embedded value's if
// it delegates), any other method is promoted from the embedded value.
func (e *c07E) expected(tag string, stdlib bool) []string {
	var out []string
	k := "k"
	if e.layout == "only" {
		k = "only"
	}
	for _, m := range e.iface.methods {
		over := c07has(e.over, m)
		arg := map[string]string{"Write": " abc", "Less": " 0 1", "Swap": " 0 1", "Serve": " req"}[m]
		if over {
			out = append(out, "S."+m+arg)
		}
		host := !over || e.delegate
		if host {
			out = append(out, "H."+m+arg)
		}
		var ret string
		switch m {
		case "Write":
			ret = "ret Write 3 true"
			if !host {
				ret = "ret Write 103 true"
			}
			if stdlib && !host {
				ret = "ret Write 103 true"
			}
		case "Read":
			ret = "ret Read 4 true host"
			if !host {
				ret = "ret Read 4 true scri"
			}
		case "String":
			ret = "ret String H:" + tag
			if !host {
				ret = "ret String S:" + k
			}
		case "Error":
			ret = "ret Error HE:" + tag
			if !host {
				ret = "ret Error SE:" + k
			}
		case "Len":
			ret = "ret Len 2"
			if !host {
				ret = "ret Len 3"
			}
		case "Less":
			ret = "ret Less true"
			if !host {
				ret = "ret Less false"
			}
		case "Swap":
			ret = "ret Swap"
		case "Area":
			ret = "ret Area 7"
			if !host {
				ret = "ret Area 11"
			}
		case "Name":
			ret = "ret Name H:" + tag
			if !host {
				ret = "ret Name S:" + k
			}
		case "Serve":
			ret = "ret Serve H(req)"
			if !host {
				ret = "ret Serve S(req)"
			}
		}
		out = append(out, ret)
	}
	return out
}

// one scenario = one dispatch case: who ran each method the host called, did the use fail
type c07dispCase struct {
	ID             int
	e              *c07E
	f              c07facts
	impl, inscript []string // per method: "script" | "host" | "both" (override, then the embedded value's) | "none"
	failed, infail bool
	region         string
	input          map[string]any
}

// who ran method m according to a trace
func c07who(trace []string, m string) string {
	s, h := false, false
	for _, l := range trace {
		if l == "S."+m || strings.HasPrefix(l, "S."+m+" ") {
			s = true
		}
		if l == "H."+m || strings.HasPrefix(l, "H."+m+" ") {
			h = true
		}
	}
	switch {
	case s && h:
		return "both"
	case s:
		return "script"
	case h:
		return "host"
	}
	return "none"
}

// region of a scenario: "" where yaegi does what Go's method sets say.
func (e *c07E) region() string {
	f := e.facts()
	yw, yf := e.yDispatch(f)
	switch {
	case !yf && fmt.Sprint(yw) == fmt.Sprint(e.gDispatch()):
		return ""
	case f.ptr && f.implements:
		return "embedded-unwrapped-pointer"
	case yf && yw[0] == "none" && !f.nummeth:
		return "embedded-first-by-value"
	}
	return "embedded-promoted-stub"
}

func (e *c07E) gDispatch() []string {
	var out []string
	for _, m := range e.iface.methods {
		switch {
		case c07has(e.over, m) && e.delegate:
			out = append(out, "both")
		case c07has(e.over, m):
			out = append(out, "script")
		default:
			out = append(out, "host")
		}
	}
	return out
}

func (h *c07h) genE(r *rng, region string) *c07E {
	for {
		e := &c07E{iface: c07ifaces[r.intn(len(c07ifaces))]}
		e.embed = r.pick([]string{"iface", "iface", "iface", "hostval", "hostptr", "named"})
		e.layout = r.pick([]string{"only", "only", "first", "last"})
		for _, m := range e.iface.methods {
			if r.chance(60) {
				e.over = append(e.over, m)
			}
		}
		if e.embed == "named" {
			e.over = e.iface.methods // nothing is promoted from a named field
		}
		e.delegate = len(e.over) > 0 && r.chance(40)
		e.ptrRecv = len(e.over) > 0 && r.chance(35)
		e.byPtr = e.ptrRecv || r.chance(35)
		e.pass = r.pick([]string{"arg", "arg", "var", "ret", "stdlib"})
		if e.pass == "stdlib" && (len(e.iface.methods) != 1 || e.iface.name == "Handler" || e.iface.name == "Error") {
			e.pass = "arg"
		}
		if e.region() != region {
			continue
		}
		if region != "" && e.pass == "stdlib" {
			e.pass = "arg" // fmt recovers from a panicking String/Write itself
		}
		return e
	}
}

func (h *c07h) runE(j *c07job, e *c07E, region string) {
	tag := "t" + fmt.Sprint(len(e.key())%97)
	log := &c07host.Log{}
	use := func(m []string) func(v interface{}) {
		return func(v interface{}) {
			for _, x := range m {
				c07callMethod(log, v, x)
			}
		}
	}
	extra := c07host.Types()
	for k, v := range map[string]reflect.Value{
		"L":           reflect.ValueOf(log),
		"UseWriter":   reflect.ValueOf(func(w io.Writer) { use([]string{"Write"})(w) }),
		"UseReader":   reflect.ValueOf(func(w io.Reader) { use([]string{"Read"})(w) }),
		"UseStringer": reflect.ValueOf(func(w fmt.Stringer) { use([]string{"String"})(w) }),
		"UseError":    reflect.ValueOf(func(w error) { use([]string{"Error"})(w) }),
		"UseSort":     reflect.ValueOf(func(w sort.Interface) { use([]string{"Len", "Less", "Swap"})(w) }),
		"UseRW":       reflect.ValueOf(func(w io.ReadWriter) { use([]string{"Read", "Write"})(w) }),
		"UseShape":    reflect.ValueOf(func(w c07host.Shape) { use([]string{"Area", "Name"})(w) }),
		"UseHandler":  reflect.ValueOf(func(w c07host.Handler) { use([]string{"Serve"})(w) }),
	} {
		extra[k] = v
	}
	src := e.source(tag)
	run := c07newAt(c07host.Path+"/c07host", extra)
	run.eval(src, h.timeout)
	run.eval("Via()", h.timeout)
	via := log.Take()
	viaFail := run.failed
	var direct []string
	directFail := ""
	if viaFail == "" || !strings.HasPrefix(viaFail, "compile-error") {
		run2 := c07newAt(c07host.Path+"/c07host", extra)
		run2.eval(src, h.timeout)
		log.Take()
		run2.eval("Direct()", h.timeout)
		direct = log.Take()
		directFail = run2.failed
	} else {
		directFail = viaFail
	}
	exp := e.expected(tag, e.pass == "stdlib")
	in := map[string]any{"stream": "embedded-host-interface", "iface": e.iface.src, "embed": e.embed, "layout": e.layout, "overrides": strings.Join(e.over, ","),
		"delegate": e.delegate, "pointer-receiver": e.ptrRecv, "by-pointer": e.byPtr, "pass": e.pass, "script": src}
	j.evals += 2
	j.tick("E:" + e.iface.name + ":" + e.embed)
	j.tick("E:layout:" + e.layout)
	j.tick("E:pass:" + e.pass)
	j.dist = append(j.dist, "E|"+e.key())
	// whole-trace comparisons (results included): reference-only
	if region == "" && (viaFail != "" || strings.Join(via, "\n") != strings.Join(exp, "\n")) {
		j.other = append(j.other, refMismatch{Region: region, Input: in, Impl: map[string]any{"trace": via, "failed": viaFail}, Ref: exp, Note: "host calls every method of the value it was handed"})
	}
	if directFail != "" || strings.Join(direct, "\n") != strings.Join(exp, "\n") {
		in2 := map[string]any{}
		for k, v := range in {
			in2[k] = v
		}
		in2["stream"] = "embedded-host-interface (same calls inside the script)"
		j.other = append(j.other, refMismatch{Region: region, Input: in2, Impl: map[string]any{"trace": direct, "failed": directFail}, Ref: exp, Note: "in-script oracle"})
	}
	c := &c07dispCase{e: e, f: e.facts(), region: region, input: in, failed: viaFail != "", infail: directFail != ""}
	for _, m := range e.iface.methods {
		c.impl = append(c.impl, c07who(via, m))
		c.inscript = append(c.inscript, c07who(direct, m))
	}
	j.disps = append(j.disps, c)
}

// ---------------------------------------------------------------- reflect facts and the Go mirror of Y

// c07facts are the facts about reflect that genInterfaceWrapper's decisions depend on, measured
// natively on a reconstruction of the frame type yaegi builds for T (reflect is assumed, not modelled:
// e.g. reflect.StructOf hands back a compiled type of the host binary when an identical one exists).
type c07facts struct {
	ptr, named         bool
	layout             string
	implements         bool // the frame type (T or *T) implements the host interface
	nummeth            bool // the struct type itself has (promoted) methods
	real               bool // the promoted methods can be called (they are not StructOf's panicking stubs)
	lastIsEmbedded     bool
	ifaceType, embType reflect.Type
}

var c07ifaceTypes = map[string]reflect.Type{
	"Writer": reflect.TypeOf((*io.Writer)(nil)).Elem(), "Reader": reflect.TypeOf((*io.Reader)(nil)).Elem(),
	"Stringer": reflect.TypeOf((*fmt.Stringer)(nil)).Elem(), "Error": reflect.TypeOf((*error)(nil)).Elem(),
	"Sort": reflect.TypeOf((*sort.Interface)(nil)).Elem(), "RW": reflect.TypeOf((*io.ReadWriter)(nil)).Elem(),
	"Shape": reflect.TypeOf((*c07host.Shape)(nil)).Elem(), "Handler": reflect.TypeOf((*c07host.Handler)(nil)).Elem(),
}

var c07implTypes = map[string]reflect.Type{
	"Writer": reflect.TypeOf(c07host.ImplWriter{}), "Reader": reflect.TypeOf(c07host.ImplReader{}), "Stringer": reflect.TypeOf(c07host.ImplStringer{}),
	"Error": reflect.TypeOf(c07host.ImplError{}), "Sort": reflect.TypeOf(c07host.ImplSort{}), "RW": reflect.TypeOf(c07host.ImplRW{}),
	"Shape": reflect.TypeOf(c07host.ImplShape{}), "Handler": reflect.TypeOf(c07host.ImplHandler{}),
}

func (e *c07E) facts() (f c07facts) {
	f.ptr, f.named, f.layout = e.byPtr, e.embed == "named", e.layout
	f.ifaceType = c07ifaceTypes[e.iface.name]
	impl := c07implTypes[e.iface.name]
	var name string
	switch e.embed {
	case "iface", "named":
		f.embType = f.ifaceType
		name = f.ifaceType.Name()
		if name == "error" {
			name = "Xerror"
		}
		if e.embed == "named" {
			name = "F"
		}
	case "hostval":
		f.embType, name = impl, impl.Name()
	case "hostptr":
		f.embType, name = reflect.PtrTo(impl), impl.Name()
	}
	emb := reflect.StructField{Name: name, Type: f.embType, Anonymous: e.layout == "only" && e.embed != "named"}
	k := reflect.StructField{Name: "K", Type: reflect.TypeOf("")}
	var fields []reflect.StructField
	switch e.layout {
	case "only":
		fields = []reflect.StructField{emb}
	case "first":
		fields = []reflect.StructField{emb, k}
	default:
		fields = []reflect.StructField{k, emb}
	}
	f.lastIsEmbedded = e.layout != "first"
	defer func() {
		if recover() != nil {
			f.real = false
		}
	}()
	st := reflect.StructOf(fields)
	ft := st
	if e.byPtr {
		ft = reflect.PtrTo(st)
	}
	f.implements = ft.Implements(f.ifaceType)
	f.nummeth = st.NumMethod() > 0
	f.real = true
	if f.nummeth || f.implements {
		// call every promoted method on a value holding a host implementation
		v := reflect.New(st)
		fv := v.Elem().FieldByName(name)
		hv := reflect.New(impl)
		hv.Elem().Field(0).Set(reflect.ValueOf(&c07host.Log{}))
		if e.embed == "hostptr" {
			fv.Set(hv)
		} else {
			fv.Set(hv.Elem())
		}
		rv := v.Elem()
		if e.byPtr {
			rv = v
		}
		for _, m := range e.iface.methods {
			mv := rv.MethodByName(m)
			if !mv.IsValid() {
				continue
			}
			in := make([]reflect.Value, mv.Type().NumIn())
			for i := range in {
				in[i] = reflect.Zero(mv.Type().In(i))
			}
			mv.Call(in) // panics for StructOf's stubs
		}
	}
	return f
}

// yDispatch mirrors Boundary.Marshal.y_dispatch (the Coq function decides; this one only serves
// to label regions): who runs each method, and does the whole use fail.
func (e *c07E) yDispatch(f c07facts) (who []string, failed bool) {
	one := func(m string) string {
		over := c07has(e.over, m)
		switch {
		case f.ptr && f.implements:
			if f.real {
				return "host"
			}
			return "failcall"
		case over && e.delegate:
			return "both"
		case over:
			return "script"
		case f.ptr:
			return "host"
		case f.nummeth:
			if f.real {
				return "host"
			}
			return "failcall"
		case f.lastIsEmbedded:
			return "host"
		}
		return "failbuild"
	}
	for _, m := range e.iface.methods {
		if one(m) == "failbuild" {
			for range e.iface.methods {
				who = append(who, "none")
			}
			return who, true
		}
	}
	for _, m := range e.iface.methods {
		w := one(m)
		if failed {
			who = append(who, "none")
			continue
		}
		if w == "failcall" {
			failed = true
			who = append(who, "none")
			continue
		}
		who = append(who, w)
	}
	return who, failed
}
