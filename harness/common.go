package main

import (
	"bytes"
	"crypto/sha1"
	"encoding/hex"
	"encoding/json"
	"fmt"
	"os"
	"path/filepath"
	"sort"
	"strings"
)

// ---------------------------------------------------------------- PRNG (splitmix64)

type rng struct{ s uint64 }

// newRng seeds the state from a mixed output, so that consecutive seeds give unrelated streams
// (seeding the state linearly would make seed n+1 the stream of seed n advanced by one step).
func newRng(seed uint64) *rng { return (&rng{seed*0x9E3779B97F4A7C15 + 0x1234567}).fork() }

func (r *rng) next() uint64 {
	r.s += 0x9E3779B97F4A7C15
	z := r.s
	z = (z ^ (z >> 30)) * 0xBF58476D1CE4E5B9
	z = (z ^ (z >> 27)) * 0x94D049BB133111EB
	return z ^ (z >> 31)
}

// intn returns a value in [0,n).
func (r *rng) intn(n int) int {
	if n <= 0 {
		return 0
	}
	return int(r.next() % uint64(n))
}

func (r *rng) bool() bool             { return r.next()&1 == 1 }
func (r *rng) chance(p int) bool      { return r.intn(100) < p } // p percent
func (r *rng) pick(l []string) string { return l[r.intn(len(l))] }
func (r *rng) fork() *rng             { return &rng{r.next()} }

// ---------------------------------------------------------------- Coq rendering

// coqStr renders a Go string as a Coq string literal wrapped by the model's [s] function.
func coqStr(x string) string {
	return `(s "` + strings.ReplaceAll(x, `"`, `""`) + `")`
}

func coqRawStr(x string) string {
	return `"` + strings.ReplaceAll(x, `"`, `""`) + `"`
}

func coqBool(b bool) string {
	if b {
		return "true"
	}
	return "false"
}

func coqList(items []string) string {
	return "[" + strings.Join(items, "; ") + "]"
}

func coqStrList(l []string) string {
	it := make([]string, len(l))
	for i, x := range l {
		it[i] = coqStr(x)
	}
	return coqList(it)
}

func coqOpt(present bool, v string) string {
	if !present {
		return "None"
	}
	return "(Some " + v + ")"
}

func coqZ(v int64) string {
	if v < 0 {
		return fmt.Sprintf("(%d)%%Z", v)
	}
	return fmt.Sprintf("%d%%Z", v)
}

// ---------------------------------------------------------------- summary written for the driver

type refMismatch struct {
	ID     int    `json:"id"`
	Region string `json:"region"` // "" = main stream; otherwise the known-finding region the generator aimed at
	Input  any    `json:"input"`
	Impl   any    `json:"impl"`
	Ref    any    `json:"ref"`
	Note   string `json:"note,omitempty"`
}

type summary struct {
	Property          string         `json:"property"`
	Evaluations       int            `json:"evaluations"`
	DistinctNontriv   int            `json:"distinct_nontrivial"`
	Rule              string         `json:"rule"`
	Samples           []any          `json:"samples"`
	Distribution      map[string]int `json:"distribution"`
	RefMismatches     []refMismatch  `json:"ref_mismatches"`
	CasesFiles        []string       `json:"cases_files"`
	CaseIndex         map[string]any `json:"case_index,omitempty"` // id -> printable input, for replays of model mismatches
	RefComparisons    int            `json:"ref_comparisons"`
	ImplComparisons   int            `json:"impl_comparisons"`
	Exhaustive        bool           `json:"exhaustive"`
	Notes             []string       `json:"notes,omitempty"`
	HarnessViolations []refMismatch  `json:"harness_violations,omitempty"` // contract violations found without a reference (host crash, ...)
}

func newSummary(prop string) *summary {
	return &summary{Property: prop, Distribution: map[string]int{}, CaseIndex: map[string]any{}}
}

func (sm *summary) count(key string) { sm.Distribution[key]++ }

func (sm *summary) write(dir string) error {
	b, err := json.MarshalIndent(sm, "", " ")
	if err != nil {
		return err
	}
	return os.WriteFile(filepath.Join(dir, "summary.json"), b, 0o644)
}

type distinctSet map[string]bool

func (d distinctSet) add(parts ...string) {
	h := sha1.Sum([]byte(strings.Join(parts, "\x00")))
	d[hex.EncodeToString(h[:8])] = true
}

// writeIfChanged writes a file only when the content differs (keeps make incremental).
func writeIfChanged(path string, content []byte) error {
	old, err := os.ReadFile(path)
	if err == nil && bytes.Equal(old, content) {
		return nil
	}
	if err := os.MkdirAll(filepath.Dir(path), 0o755); err != nil {
		return err
	}
	return os.WriteFile(path, content, 0o644)
}

func sortedKeys[V any](m map[string]V) []string {
	ks := make([]string, 0, len(m))
	for k := range m {
		ks = append(ks, k)
	}
	sort.Strings(ks)
	return ks
}

// casesFile accumulates a Coq file of cases for one property.
type casesFile struct {
	buf    bytes.Buffer
	header string
}

func envSeed() uint64 {
	v := os.Getenv("VERIF_SEED")
	if v == "" {
		return 1
	}
	var x uint64
	fmt.Sscan(v, &x)
	return x
}
