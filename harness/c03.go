package main

import (
	"bytes"
	"flag"
	"fmt"
	"go/ast"
	"go/constant"
	"go/importer"
	"go/parser"
	"go/token"
	"go/types"
	"math"
	"math/big"
	"os"
	"path/filepath"
	"reflect"
	"sort"
	"strconv"
	"strings"
	"sync"
	"unicode/utf8"

	"github.com/traefik/yaegi/interp"
	"github.com/traefik/yaegi/stdlib"
)

// C03: constant expressions.
//   impl  = yaegi evaluating a tiny program that prints constants with %T and %v (interp.Eval)
//   ref   = go/types + go/constant on the same source (accept/reject, exact value, type)
//   Y, G  = coq/Const/YaegiConst.v, coq/Const/ConstSem.v evaluated by coqc on the cases files written here
//
// One AST type (cx) with two printers: Go source and Gallina term. The Gallina term is printed from
// the tree that go/parser returns for the printed source, so that model and implementation see the
// same tree (parentheses are nodes: yaegi copies type and value at a parenExpr).

func init() {
	register("c03", "C03 constant expressions: generate cases, run yaegi and the go/types reference", runC03)
}

// ---------------------------------------------------------------- AST

type cx struct {
	K    string   // int rune float str bool iota ref paren un bin conv len
	Z    *big.Int // int, rune
	Q    *big.Rat // float
	S    string   // str
	B    bool     // bool
	Ref  int      // ref
	Op   string   // un, bin
	T    string   // conv
	A, C *cx      // operands
	Lit  string   // source text of a literal (generator side)
}

var c03Types = []string{"int", "int8", "int16", "int32", "int64", "uint", "uint8", "uint16", "uint32", "uint64", "uintptr", "float32", "float64", "string", "bool"}
var c03IntTypes = c03Types[:11]

func coqBT(t string) string {
	return "T" + strings.ToUpper(t[:1]) + t[1:]
}

func isIntT(t string) bool   { return strings.HasPrefix(t, "int") || strings.HasPrefix(t, "uint") }
func isUintT(t string) bool  { return strings.HasPrefix(t, "uint") }
func isFloatT(t string) bool { return strings.HasPrefix(t, "float") }
func bitsOf(t string) int {
	switch t {
	case "int8", "uint8":
		return 8
	case "int16", "uint16":
		return 16
	case "int32", "uint32":
		return 32
	}
	return 64
}

func coqBigZ(z *big.Int) string { return "(" + z.String() + ")%Z" }

func coqQ(q *big.Rat) string {
	return "(Qmake (" + q.Num().String() + ")%Z (" + q.Denom().String() + ")%positive)"
}

func coqBytes(s string) string {
	safe := true
	for i := 0; i < len(s); i++ {
		if s[i] < 0x20 || s[i] > 0x7e || s[i] == '"' {
			safe = false
		}
	}
	if safe {
		return coqStr(s)
	}
	var it []string
	for i := 0; i < len(s); i++ {
		it = append(it, strconv.Itoa(int(s[i])))
	}
	return "(sb [" + strings.Join(it, "; ") + "])"
}

var c03UnOps = map[string]string{"+": "UPos", "-": "UNeg", "^": "UXor", "!": "UNot"}
var c03BinOps = map[string]string{"+": "BAdd", "-": "BSub", "*": "BMul", "/": "BQuo", "%": "BRem", "&": "BAnd", "|": "BOr", "^": "BXor", "&^": "BAndNot",
	"<<": "BShl", ">>": "BShr", "==": "BEq", "!=": "BNe", "<": "BLt", "<=": "BLe", ">": "BGt", ">=": "BGe", "&&": "BLand", "||": "BLor"}

func (e *cx) coq() string {
	switch e.K {
	case "int":
		return "(EInt " + coqBigZ(e.Z) + ")"
	case "rune":
		return "(ERune " + coqBigZ(e.Z) + ")"
	case "float":
		return "(EFloat " + coqQ(e.Q) + ")"
	case "str":
		return "(EStr " + coqBytes(e.S) + ")"
	case "bool":
		return "(EBool " + coqBool(e.B) + ")"
	case "iota":
		return "EIota"
	case "ref":
		return fmt.Sprintf("(ERef %d%%N)", e.Ref)
	case "paren":
		return "(EParen " + e.A.coq() + ")"
	case "un":
		return "(EUn " + c03UnOps[e.Op] + " " + e.A.coq() + ")"
	case "bin":
		return "(EBin " + c03BinOps[e.Op] + " " + e.A.coq() + " " + e.C.coq() + ")"
	case "conv":
		return "(EConv " + coqBT(e.T) + " " + e.A.coq() + ")"
	case "len":
		return "(ELen " + e.A.coq() + ")"
	}
	panic("cx.coq: " + e.K)
}

func binPrec(op string) int {
	switch op {
	case "*", "/", "%", "<<", ">>", "&", "&^":
		return 5
	case "+", "-", "|", "^":
		return 4
	case "==", "!=", "<", "<=", ">", ">=":
		return 3
	case "&&":
		return 2
	}
	return 1
}

// src prints the expression as Go source, adding the parentheses that precedence requires.
func (e *cx) src() string {
	switch e.K {
	case "int", "rune", "float", "str":
		return e.Lit
	case "bool":
		if e.B {
			return "true"
		}
		return "false"
	case "iota":
		return "iota"
	case "ref":
		return fmt.Sprintf("c%d", e.Ref)
	case "paren":
		return "(" + e.A.src() + ")"
	case "un":
		a := e.A.src()
		if e.A.K == "bin" || e.A.K == "un" {
			a = "(" + a + ")"
		}
		return e.Op + a
	case "bin":
		a, c := e.A.src(), e.C.src()
		p := binPrec(e.Op)
		if e.A.K == "bin" && binPrec(e.A.Op) < p {
			a = "(" + a + ")"
		}
		if e.C.K == "bin" && binPrec(e.C.Op) <= p {
			c = "(" + c + ")"
		}
		return a + " " + e.Op + " " + c
	case "conv":
		return e.T + "(" + e.A.src() + ")"
	case "len":
		return "len(" + e.A.src() + ")"
	}
	panic("cx.src: " + e.K)
}

// fromAST converts the tree go/parser built for the printed source back into a cx.
func fromAST(x ast.Expr) (*cx, error) {
	switch a := x.(type) {
	case *ast.BasicLit:
		switch a.Kind {
		case token.INT:
			v := constant.MakeFromLiteral(a.Value, token.INT, 0)
			z, ok := constant.Val(v).(*big.Int)
			if !ok {
				i, _ := constant.Int64Val(v)
				z = big.NewInt(i)
			}
			return &cx{K: "int", Z: z, Lit: a.Value}, nil
		case token.CHAR:
			r, _, _, err := strconv.UnquoteChar(a.Value[1:len(a.Value)-1], '\'')
			if err != nil {
				return nil, err
			}
			return &cx{K: "rune", Z: big.NewInt(int64(r)), Lit: a.Value}, nil
		case token.FLOAT:
			var q *big.Rat
			switch v := constant.Val(constant.MakeFromLiteral(a.Value, token.FLOAT, 0)).(type) {
			case *big.Rat:
				q = v
			default:
				return nil, fmt.Errorf("float literal %s leaves the exact regime of go/constant", a.Value)
			}
			return &cx{K: "float", Q: q, Lit: a.Value}, nil
		case token.STRING:
			s, err := strconv.Unquote(a.Value)
			if err != nil {
				return nil, err
			}
			return &cx{K: "str", S: s, Lit: a.Value}, nil
		}
	case *ast.Ident:
		switch {
		case a.Name == "true" || a.Name == "false":
			return &cx{K: "bool", B: a.Name == "true"}, nil
		case a.Name == "iota":
			return &cx{K: "iota"}, nil
		case strings.HasPrefix(a.Name, "c"):
			n, err := strconv.Atoi(a.Name[1:])
			if err != nil {
				return nil, err
			}
			return &cx{K: "ref", Ref: n}, nil
		}
	case *ast.ParenExpr:
		c, err := fromAST(a.X)
		if err != nil {
			return nil, err
		}
		return &cx{K: "paren", A: c}, nil
	case *ast.UnaryExpr:
		c, err := fromAST(a.X)
		if err != nil {
			return nil, err
		}
		return &cx{K: "un", Op: a.Op.String(), A: c}, nil
	case *ast.BinaryExpr:
		l, err := fromAST(a.X)
		if err != nil {
			return nil, err
		}
		r, err := fromAST(a.Y)
		if err != nil {
			return nil, err
		}
		return &cx{K: "bin", Op: a.Op.String(), A: l, C: r}, nil
	case *ast.CallExpr:
		if id, ok := a.Fun.(*ast.Ident); ok && len(a.Args) == 1 {
			c, err := fromAST(a.Args[0])
			if err != nil {
				return nil, err
			}
			if id.Name == "len" {
				return &cx{K: "len", A: c}, nil
			}
			return &cx{K: "conv", T: id.Name, A: c}, nil
		}
	}
	return nil, fmt.Errorf("unsupported syntax %T", x)
}

// ---------------------------------------------------------------- programs

type c03spec struct {
	Names []int // 0 = _
	Type  string
	Exprs []*cx
}

type c03prog struct {
	Kind   string // const-global const-local var expr
	Groups [][]c03spec
	Paren  []bool // group printed as const ( ... )
	VarT   string
	E      *cx
	Hide   map[int]bool // declared names that are not printed
}

func (p *c03prog) shown() []int {
	var l []int
	for _, g := range p.Groups {
		for _, s := range g {
			for _, n := range s.Names {
				if n != 0 && !p.Hide[n] {
					l = append(l, n)
				}
			}
		}
	}
	return l
}

func (p *c03prog) source() string {
	var b strings.Builder
	b.WriteString("package main\n\nimport \"fmt\"\n\n")
	decls := func(indent string) {
		for gi, g := range p.Groups {
			specSrc := func(s c03spec) string {
				var names []string
				for _, n := range s.Names {
					if n == 0 {
						names = append(names, "_")
					} else {
						names = append(names, fmt.Sprintf("c%d", n))
					}
				}
				l := strings.Join(names, ", ")
				if len(s.Exprs) > 0 {
					if s.Type != "" {
						l += " " + s.Type
					}
					var es []string
					for _, e := range s.Exprs {
						es = append(es, e.src())
					}
					l += " = " + strings.Join(es, ", ")
				}
				return l
			}
			if p.Paren[gi] {
				b.WriteString(indent + "const (\n")
				for _, s := range g {
					b.WriteString(indent + "\t" + specSrc(s) + "\n")
				}
				b.WriteString(indent + ")\n")
			} else {
				b.WriteString(indent + "const " + specSrc(g[0]) + "\n")
			}
		}
	}
	switch p.Kind {
	case "const-global":
		decls("")
		b.WriteString("\nfunc main() {\n")
	case "const-local":
		b.WriteString("func main() {\n")
		decls("\t")
	case "var":
		b.WriteString("func main() {\n")
		if p.VarT != "" {
			b.WriteString("\tvar v " + p.VarT + " = " + p.E.src() + "\n")
		} else {
			b.WriteString("\tvar v = " + p.E.src() + "\n")
		}
		b.WriteString("\tfmt.Printf(\"%T|%v\\n\", v, v)\n")
	case "expr":
		b.WriteString("func main() {\n")
		b.WriteString("\tfmt.Printf(\"%T|%v\\n\", " + p.E.src() + ", " + p.E.src() + ")\n")
	}
	for _, n := range p.shown() {
		fmt.Fprintf(&b, "\tfmt.Printf(\"%%T|%%v\\n\", c%d, c%d)\n", n, n)
	}
	b.WriteString("}\n")
	return b.String()
}

// ---------------------------------------------------------------- observations

type c03val struct {
	T string
	// exactly one of
	Z *big.Int
	Q *big.Rat
	S *string
	B *bool
	NZ bool // the floating-point value -0
}

func (v c03val) coq() string {
	switch {
	case v.NZ:
		return "(" + coqBT(v.T) + ", ONZ)"
	case v.Z != nil:
		return "(" + coqBT(v.T) + ", OI " + coqBigZ(v.Z) + ")"
	case v.Q != nil:
		return "(" + coqBT(v.T) + ", OF " + coqQ(v.Q) + ")"
	case v.S != nil:
		return "(" + coqBT(v.T) + ", OS " + coqBytes(*v.S) + ")"
	default:
		return "(" + coqBT(v.T) + ", OB " + coqBool(*v.B) + ")"
	}
}

func (v c03val) String() string {
	switch {
	case v.NZ:
		return v.T + "|-0"
	case v.Z != nil:
		return v.T + "|" + v.Z.String()
	case v.Q != nil:
		return v.T + "|" + v.Q.RatString()
	case v.S != nil:
		return v.T + "|" + strconv.Quote(*v.S)
	default:
		return v.T + "|" + fmt.Sprint(*v.B)
	}
}

type c03out struct {
	Class string // printed rejected host-panic other
	Vals  []c03val
	Note  string
}

func (o c03out) coq() string {
	switch o.Class {
	case "printed":
		var it []string
		for _, v := range o.Vals {
			it = append(it, v.coq())
		}
		return "(Printed [" + strings.Join(it, "; ") + "])"
	case "rejected":
		return "Rejected"
	case "host-panic":
		return "HostPanic"
	}
	return "Unmodelled"
}

func (o c03out) String() string {
	if o.Class != "printed" {
		if o.Class == "other" {
			return "other:" + o.Note
		}
		return o.Class
	}
	var it []string
	for _, v := range o.Vals {
		it = append(it, v.String())
	}
	return strings.Join(it, "; ")
}

func isBasicName(t string) bool {
	for _, x := range c03Types {
		if x == t {
			return true
		}
	}
	return false
}

// parsePrinted parses the lines "type|value" printed by the program.
func parsePrinted(stdout string) ([]c03val, error) {
	var vals []c03val
	for _, l := range strings.Split(strings.TrimSuffix(stdout, "\n"), "\n") {
		i := strings.IndexByte(l, '|')
		if i < 0 {
			return nil, fmt.Errorf("line %q", l)
		}
		t, v := l[:i], l[i+1:]
		if !isBasicName(t) {
			return nil, fmt.Errorf("type %q", t)
		}
		cv := c03val{T: t}
		switch {
		case isIntT(t):
			z, ok := new(big.Int).SetString(v, 10)
			if !ok {
				return nil, fmt.Errorf("int %q", v)
			}
			cv.Z = z
		case isFloatT(t):
			bs := 64
			if t == "float32" {
				bs = 32
			}
			f, err := strconv.ParseFloat(v, bs)
			if err != nil || math.IsInf(f, 0) || math.IsNaN(f) {
				return nil, fmt.Errorf("float %q", v)
			}
			if f == 0 && math.Signbit(f) {
				cv.NZ = true
			} else {
				cv.Q = new(big.Rat).SetFloat64(f)
			}
		case t == "string":
			s := v
			cv.S = &s
		default:
			bv := v == "true"
			if v != "true" && v != "false" {
				return nil, fmt.Errorf("bool %q", v)
			}
			cv.B = &bv
		}
		vals = append(vals, cv)
	}
	return vals, nil
}

// c03RunYaegi evaluates the program with interp.Eval (the plain API: a panic inside the
// interpreter is a crash of the host).
func c03RunYaegi(src string) (o c03out) {
	var stdout, stderr bytes.Buffer
	defer func() {
		if r := recover(); r != nil {
			o = c03out{Class: "host-panic", Note: firstLine(fmt.Sprint(r))}
		}
	}()
	i := interp.New(interp.Options{Stdout: &stdout, Stderr: &stderr})
	if err := i.Use(stdlib.Symbols); err != nil {
		return c03out{Class: "other", Note: "use: " + err.Error()}
	}
	_, err := i.Eval(src)
	if err != nil {
		if stdout.Len() > 0 {
			return c03out{Class: "other", Note: "error after output: " + firstLine(err.Error())}
		}
		return c03out{Class: "rejected", Note: firstLine(err.Error())}
	}
	vals, perr := parsePrinted(stdout.String())
	if perr != nil {
		return c03out{Class: "other", Note: "output: " + perr.Error() + ": " + firstLine(stdout.String())}
	}
	return c03out{Class: "printed", Vals: vals}
}

// ---------------------------------------------------------------- reference: go/types + go/constant

var (
	c03ImpOnce sync.Once
	c03FmtPkg  *types.Package
	c03ImpErr  error
)

type c03Importer struct{}

func (c03Importer) Import(path string) (*types.Package, error) {
	c03ImpOnce.Do(func() {
		c03FmtPkg, c03ImpErr = importer.ForCompiler(token.NewFileSet(), "source", nil).Import("fmt")
	})
	if path != "fmt" {
		return nil, fmt.Errorf("unexpected import %q", path)
	}
	return c03FmtPkg, c03ImpErr
}

type c03ref struct {
	Out    c03out
	Errs   []string
	Info   *types.Info
	File   *ast.File
	Prog   *c03progModel
	Exact  bool // every constant value met stayed in go/constant's exact (rational) regime
	MaxBit int
}

// c03progModel is the program as parsed back from its source (what the Coq cases are printed from).
type c03progModel struct {
	Kind   string
	Groups [][]c03spec
	VarT   string
	E      *cx
	Shown  []int // the constants printed, in order (constant declarations)
	// ast expressions, parallel to Groups/E, for the region analysis
	GroupX [][][]ast.Expr
	EX     ast.Expr
}

func constToVal(t types.Type, v constant.Value) (c03val, error) {
	b, ok := t.Underlying().(*types.Basic)
	if !ok {
		return c03val{}, fmt.Errorf("type %v", t)
	}
	name := b.Name()
	if name == "byte" {
		name = "uint8"
	}
	if name == "rune" {
		name = "int32"
	}
	cv := c03val{T: name}
	switch {
	case b.Info()&types.IsInteger != 0:
		x := constant.ToInt(v)
		if x.Kind() != constant.Int {
			return cv, fmt.Errorf("not an integer %v", v)
		}
		switch z := constant.Val(x).(type) {
		case *big.Int:
			cv.Z = z
		case int64:
			cv.Z = big.NewInt(z)
		}
	case b.Info()&types.IsFloat != 0:
		x := constant.ToFloat(v)
		var f float64
		if name == "float32" {
			f32, _ := constant.Float32Val(x)
			f = float64(f32)
		} else {
			f, _ = constant.Float64Val(x)
		}
		if math.IsInf(f, 0) {
			return cv, fmt.Errorf("infinite")
		}
		cv.Q = new(big.Rat).SetFloat64(f)
	case b.Info()&types.IsString != 0:
		s := constant.StringVal(v)
		cv.S = &s
	case b.Info()&types.IsBoolean != 0:
		bv := constant.BoolVal(v)
		cv.B = &bv
	default:
		return cv, fmt.Errorf("kind %v", t)
	}
	return cv, nil
}

// c03Reference type-checks the program; when it is accepted the printed operands are computed from
// the constant values go/types recorded.
func c03Reference(src string) (*c03ref, error) {
	fset := token.NewFileSet()
	f, err := parser.ParseFile(fset, "main.go", src, 0)
	if err != nil {
		return nil, err
	}
	r := &c03ref{File: f, Exact: true}
	info := &types.Info{Types: map[ast.Expr]types.TypeAndValue{}, Defs: map[*ast.Ident]types.Object{}, Uses: map[*ast.Ident]types.Object{}}
	conf := types.Config{Importer: c03Importer{}, Error: func(err error) { r.Errs = append(r.Errs, err.Error()) }}
	conf.Check("main", fset, []*ast.File{f}, info)
	r.Info = info
	for _, tv := range info.Types {
		if tv.Value == nil {
			continue
		}
		switch x := constant.Val(tv.Value).(type) {
		case *big.Float:
			r.Exact = false
		case *big.Rat:
			if n := x.Num().BitLen(); n > r.MaxBit {
				r.MaxBit = n
			}
			if n := x.Denom().BitLen(); n > r.MaxBit {
				r.MaxBit = n
			}
		case *big.Int:
			if n := x.BitLen(); n > r.MaxBit {
				r.MaxBit = n
			}
		}
	}
	// the program as parsed
	pm := &c03progModel{}
	r.Prog = pm
	var mainFn *ast.FuncDecl
	addGroup := func(gd *ast.GenDecl) error {
		var g []c03spec
		var gx [][]ast.Expr
		for _, sp := range gd.Specs {
			vs := sp.(*ast.ValueSpec)
			s := c03spec{}
			for _, n := range vs.Names {
				if n.Name == "_" {
					s.Names = append(s.Names, 0)
				} else {
					k, err := strconv.Atoi(n.Name[1:])
					if err != nil {
						return err
					}
					s.Names = append(s.Names, k)
				}
			}
			if vs.Type != nil {
				s.Type = vs.Type.(*ast.Ident).Name
			}
			var xs []ast.Expr
			for _, v := range vs.Values {
				e, err := fromAST(v)
				if err != nil {
					return err
				}
				s.Exprs = append(s.Exprs, e)
				xs = append(xs, v)
			}
			g = append(g, s)
			gx = append(gx, xs)
		}
		pm.Groups = append(pm.Groups, g)
		pm.GroupX = append(pm.GroupX, gx)
		return nil
	}
	for _, d := range f.Decls {
		switch x := d.(type) {
		case *ast.GenDecl:
			if x.Tok == token.CONST {
				pm.Kind = "const-global"
				if err := addGroup(x); err != nil {
					return nil, err
				}
			}
		case *ast.FuncDecl:
			mainFn = x
		}
	}
	var printed []ast.Expr // first operand of every Printf
	for _, st := range mainFn.Body.List {
		switch x := st.(type) {
		case *ast.DeclStmt:
			gd := x.Decl.(*ast.GenDecl)
			if gd.Tok == token.CONST {
				pm.Kind = "const-local"
				if err := addGroup(gd); err != nil {
					return nil, err
				}
			} else {
				pm.Kind = "var"
				vs := gd.Specs[0].(*ast.ValueSpec)
				if vs.Type != nil {
					pm.VarT = vs.Type.(*ast.Ident).Name
				}
				e, err := fromAST(vs.Values[0])
				if err != nil {
					return nil, err
				}
				pm.E, pm.EX = e, vs.Values[0]
			}
		case *ast.ExprStmt:
			call := x.X.(*ast.CallExpr)
			printed = append(printed, call.Args[1])
			if id, ok := call.Args[1].(*ast.Ident); ok && strings.HasPrefix(id.Name, "c") {
				if k, err := strconv.Atoi(id.Name[1:]); err == nil {
					pm.Shown = append(pm.Shown, k)
				}
			}
		}
	}
	if pm.Kind == "" {
		pm.Kind = "expr"
		e, err := fromAST(printed[0])
		if err != nil {
			return nil, err
		}
		pm.E, pm.EX = e, printed[0]
	}
	if len(r.Errs) > 0 {
		r.Out = c03out{Class: "rejected", Note: r.Errs[0]}
		return r, nil
	}
	for _, px := range printed {
		tv, ok := info.Types[px]
		if !ok {
			return nil, fmt.Errorf("no type recorded for a printed operand")
		}
		t := tv.Type
		var v constant.Value
		if pm.Kind == "var" {
			// the variable holds the constant converted to its type
			v = info.Types[pm.EX].Value
		} else {
			v = tv.Value
		}
		if v == nil {
			return nil, fmt.Errorf("printed operand is not constant")
		}
		t = types.Default(t)
		cv, err := constToVal(t, v)
		if err != nil {
			return nil, err
		}
		r.Out.Vals = append(r.Out.Vals, cv)
	}
	r.Out.Class = "printed"
	return r, nil
}

// refErrorClass: is the first error one of the constant-semantics rejections the property talks about?
func refErrorClass(msg string) string {
	switch {
	case strings.Contains(msg, "division by zero"):
		return "divzero"
	case strings.Contains(msg, "overflows"):
		return "overflow"
	case strings.Contains(msg, "truncated"):
		return "truncated"
	case strings.Contains(msg, "shift count"):
		return "shiftcount"
	case strings.Contains(msg, "shifted operand") && strings.Contains(msg, "must be integer"):
		return "shiftoperand"
	case strings.Contains(msg, "cannot convert") && strings.Contains(msg, "constant"):
		return "notrepresentable"
	case strings.Contains(msg, "cannot use") && strings.Contains(msg, "constant"):
		return "notrepresentable"
	}
	return ""
}

// ---------------------------------------------------------------- Gallina rendering of programs

func coqSpec(s c03spec) string {
	var names []string
	for _, n := range s.Names {
		names = append(names, fmt.Sprintf("%d%%N", n))
	}
	var es []string
	for _, e := range s.Exprs {
		es = append(es, e.coq())
	}
	return fmt.Sprintf("{| sp_names := [%s]; sp_type := %s; sp_exprs := [%s] |}", strings.Join(names, "; "), coqOpt(s.Type != "", coqBTsafe(s.Type)), strings.Join(es, "; "))
}

func coqBTsafe(t string) string {
	if t == "" {
		return "TInt"
	}
	return coqBT(t)
}

func (p *c03progModel) coq() string {
	switch p.Kind {
	case "const-global", "const-local":
		var gs []string
		var shown []string
		for _, g := range p.Groups {
			var ss []string
			for _, s := range g {
				ss = append(ss, coqSpec(s))
			}
			gs = append(gs, "["+strings.Join(ss, "; ")+"]")
		}
		for _, n := range p.Shown {
			shown = append(shown, fmt.Sprintf("%d%%N", n))
		}
		return fmt.Sprintf("(PConst %s [%s] [%s])", coqBool(p.Kind == "const-global"), strings.Join(gs, "; "), strings.Join(shown, "; "))
	case "var":
		return fmt.Sprintf("(PVar %s %s)", coqOpt(p.VarT != "", coqBTsafe(p.VarT)), p.E.coq())
	}
	return "(PExpr " + p.E.coq() + ")"
}

// ---------------------------------------------------------------- generator

type gkind struct {
	U string // int rune float string bool ("" when typed)
	T string // basic type name when typed
}

func (k gkind) String() string {
	if k.T != "" {
		return k.T
	}
	return "untyped " + k.U
}

type c03env struct {
	consts []struct {
		id int
		k  gkind
	}
	iota  bool
	cdecl bool // inside a constant declaration: len allowed
}

type c03gen struct {
	r *rng
	// feature switches of the stream being generated
	cmp      bool // comparisons, && and || allowed
	typed    bool // typed operands allowed
	floats   bool
	bigLits  bool
	maxShift int
	single   bool // debugging: one declaration per program
	extreme  bool // floating-point magnitudes outside the float64 range (fragment streams)
}

func (g *c03gen) intLit() *cx {
	r := g.r
	var z *big.Int
	switch c := r.intn(100); {
	case c < 45:
		z = big.NewInt(int64(r.intn(20)))
	case c < 60:
		z = big.NewInt(int64(r.intn(300)))
	case c < 75 || !g.bigLits:
		k := []int{7, 8, 15, 16, 31, 32, 63, 64}[r.intn(8)]
		if !g.bigLits && k > 32 {
			k = 16
		}
		z = new(big.Int).Lsh(big.NewInt(1), uint(k))
		z.Add(z, big.NewInt(int64(r.intn(3)-1)))
	case c < 90:
		z = new(big.Int).SetUint64(r.next() >> uint(r.intn(64)))
	default:
		n := 65 + r.intn(136)
		z = big.NewInt(1)
		for z.BitLen() < n {
			z.Lsh(z, 32)
			z.Or(z, big.NewInt(int64(r.next()&0xffffffff)))
		}
		z.Rsh(z, uint(z.BitLen()-n))
	}
	lit := z.String()
	switch r.intn(12) {
	case 0:
		lit = "0x" + z.Text(16)
	case 1:
		if z.Sign() > 0 {
			lit = "0o" + z.Text(8)
		}
	case 2:
		lit = "0b" + z.Text(2)
	}
	return &cx{K: "int", Z: z, Lit: lit}
}

var c03Runes = []string{"'a'", "'A'", "'z'", "'0'", "' '", "'~'", "'\\n'", "'\\x00'", "'\\x7f'", "'\\u00e9'", "'\\u4e16'", "'\\U0001F600'", "'é'", "'世'", "'\\''", "'\\\\'"}

func (g *c03gen) runeLit() *cx {
	l := g.r.pick(c03Runes)
	v, _, _, _ := strconv.UnquoteChar(l[1:len(l)-1], '\'')
	return &cx{K: "rune", Z: big.NewInt(int64(v)), Lit: l}
}

func (g *c03gen) floatLit() *cx {
	r := g.r
	var lit string
	switch r.intn(8) {
	case 0:
		lit = fmt.Sprintf("%d.0", r.intn(20))
	case 1:
		lit = fmt.Sprintf("%d.%d", r.intn(100), r.intn(1000))
	case 2:
		lit = fmt.Sprintf("%d.5", r.intn(1000))
	case 3:
		lit = fmt.Sprintf("0.%d", 1+r.intn(99))
	case 4:
		lit = fmt.Sprintf("%de%d", 1+r.intn(9), r.intn(25))
	case 5:
		lit = fmt.Sprintf("%d.%de-%d", r.intn(10), r.intn(100), 1+r.intn(12))
	case 6:
		lit = fmt.Sprintf("%d.25", r.intn(64))
	default:
		lit = fmt.Sprintf("%d.%d", r.intn(10), r.intn(10))
	}
	q, _ := new(big.Rat).SetString(lit)
	return &cx{K: "float", Q: q, Lit: lit}
}

var c03Strs = []string{"", "a", "abc", "hello world", "x y", "é", "世界", "go", "0", "A-Z", "q~"}

func (g *c03gen) strLit() *cx {
	s := g.r.pick(c03Strs)
	return &cx{K: "str", S: s, Lit: strconv.Quote(s)}
}

func (g *c03gen) refOf(env *c03env, k gkind) *cx {
	var ids []int
	for _, c := range env.consts {
		if c.k == k {
			ids = append(ids, c.id)
		}
	}
	if len(ids) == 0 {
		return nil
	}
	return &cx{K: "ref", Ref: ids[g.r.intn(len(ids))]}
}

func isLeafCx(e *cx) bool {
	switch e.K {
	case "int", "rune", "float", "str", "bool", "iota", "ref":
		return true
	case "paren":
		return isLeafCx(e.A)
	}
	return false
}

// paren wraps e in parentheses unless e is a literal or an identifier: yaegi's fixUntyped writes
// the frame type at the index of a parenthesised literal (index 0, never allocated) and panics
// with an index out of range when the scope has no slot yet; that path is not generated.
func paren(e *cx) *cx {
	if isLeafCx(e) {
		return e
	}
	return &cx{K: "paren", A: e}
}

func (g *c03gen) maybeParen(e *cx) *cx {
	if g.r.chance(12) {
		return &cx{K: "paren", A: e}
	}
	return e
}

func (g *c03gen) shiftCount() *cx {
	r := g.r
	n := r.intn(12)
	switch c := r.intn(10); {
	case c < 2:
		n = r.intn(70)
	case c < 3:
		n = r.intn(g.maxShift + 1)
	}
	lit := &cx{K: "int", Z: big.NewInt(int64(n)), Lit: strconv.Itoa(n)}
	switch c := r.intn(20); {
	case c == 0 && g.floats:
		return &cx{K: "float", Q: new(big.Rat).SetInt64(int64(n)), Lit: fmt.Sprintf("%d.0", n)}
	case c == 1 && g.typed:
		return &cx{K: "conv", T: g.r.pick([]string{"uint", "uint8", "int", "uint64"}), A: lit}
	}
	return lit
}

var c03IntOps = []string{"+", "-", "*", "/", "%", "&", "|", "^", "&^"}
var c03FloatOps = []string{"+", "-", "*", "/"}
var c03CmpOps = []string{"==", "!=", "<", "<=", ">", ">="}

// gen returns an expression whose Go kind is k.
func (g *c03gen) gen(env *c03env, k gkind, depth int) *cx {
	r := g.r
	leaf := depth <= 0 || r.chance(22)
	if k.T == "" {
		switch k.U {
		case "int":
			if leaf {
				switch c := r.intn(10); {
				case c < 2 && env.iota:
					return &cx{K: "iota"}
				case c < 4:
					if e := g.refOf(env, k); e != nil {
						return e
					}
				}
				return g.intLit()
			}
			switch c := r.intn(100); {
			case c < 55:
				return g.maybeParen(&cx{K: "bin", Op: r.pick(c03IntOps), A: g.gen(env, k, depth-1), C: g.gen(env, k, depth-1)})
			case c < 70:
				return &cx{K: "un", Op: r.pick([]string{"-", "+", "^", "-"}), A: g.gen(env, k, depth-1)}
			case c < 90:
				l := g.gen(env, k, depth-1)
				if g.floats && r.chance(6) {
					n := r.intn(50)
					l = &cx{K: "float", Q: new(big.Rat).SetInt64(int64(n)), Lit: fmt.Sprintf("%d.0", n)}
				}
				return g.maybeParen(&cx{K: "bin", Op: r.pick([]string{"<<", "<<", ">>"}), A: l, C: g.shiftCount()})
			default:
				return paren(g.gen(env, k, depth-1))
			}
		case "rune":
			if leaf {
				if r.chance(20) {
					if e := g.refOf(env, k); e != nil {
						return e
					}
				}
				return g.runeLit()
			}
			switch c := r.intn(100); {
			case c < 60:
				ka, kc := k, k
				switch r.intn(3) {
				case 0:
					ka = gkind{U: "int"}
				case 1:
					kc = gkind{U: "int"}
				}
				return g.maybeParen(&cx{K: "bin", Op: r.pick(c03IntOps), A: g.gen(env, ka, depth-1), C: g.gen(env, kc, depth-1)})
			case c < 75:
				return &cx{K: "un", Op: r.pick([]string{"-", "+", "^"}), A: g.gen(env, k, depth-1)}
			case c < 90:
				return g.maybeParen(&cx{K: "bin", Op: r.pick([]string{"<<", ">>"}), A: g.gen(env, k, depth-1), C: g.shiftCount()})
			default:
				return paren(g.gen(env, k, depth-1))
			}
		case "float":
			if leaf {
				if r.chance(20) {
					if e := g.refOf(env, k); e != nil {
						return e
					}
				}
				return g.floatLit()
			}
			switch c := r.intn(100); {
			case c < 70:
				ka, kc := k, k
				switch r.intn(5) {
				case 0:
					ka = gkind{U: "int"}
				case 1:
					kc = gkind{U: "int"}
				case 2:
					ka = gkind{U: "rune"}
				}
				return g.maybeParen(&cx{K: "bin", Op: r.pick(c03FloatOps), A: g.gen(env, ka, depth-1), C: g.gen(env, kc, depth-1)})
			case c < 85:
				return &cx{K: "un", Op: r.pick([]string{"-", "+"}), A: g.gen(env, k, depth-1)}
			default:
				return paren(g.gen(env, k, depth-1))
			}
		case "string":
			if leaf {
				if r.chance(30) {
					if e := g.refOf(env, k); e != nil {
						return e
					}
				}
				return g.strLit()
			}
			if r.chance(85) {
				return g.maybeParen(&cx{K: "bin", Op: "+", A: g.gen(env, k, depth-1), C: g.gen(env, k, depth-1)})
			}
			return paren(g.gen(env, k, depth-1))
		case "bool":
			if leaf || !g.cmp && r.chance(50) {
				if r.chance(30) {
					if e := g.refOf(env, k); e != nil {
						return e
					}
				}
				return &cx{K: "bool", B: r.bool()}
			}
			switch c := r.intn(100); {
			case c < 30 || !g.cmp:
				return &cx{K: "un", Op: "!", A: g.gen(env, k, depth-1)}
			case c < 75:
				ok := g.operandKind()
				return g.maybeParen(&cx{K: "bin", Op: r.pick(c03CmpOps), A: g.gen(env, ok, depth-1), C: g.gen(env, ok, depth-1)})
			case c < 95:
				return g.maybeParen(&cx{K: "bin", Op: r.pick([]string{"&&", "||"}), A: g.gen(env, k, depth-1), C: g.gen(env, k, depth-1)})
			default:
				return paren(g.gen(env, k, depth-1))
			}
		}
	}
	// typed
	t := k.T
	switch {
	case isIntT(t):
		if leaf {
			if r.chance(25) {
				if e := g.refOf(env, k); e != nil {
					return e
				}
			}
			if t == "int" && env.cdecl && r.chance(35) {
				return &cx{K: "len", A: g.gen(env, gkind{U: "string"}, r.intn(3))}
			}
			return &cx{K: "conv", T: t, A: g.smallFor(t)}
		}
		switch c := r.intn(100); {
		case c < 25:
			// conversion of an arbitrary numeric constant expression
			var src gkind
			switch r.intn(6) {
			case 0:
				src = gkind{U: "rune"}
			case 1:
				src = gkind{T: r.pick(c03IntTypes)}
			case 2:
				if g.floats {
					src = gkind{T: r.pick([]string{"float32", "float64"})}
				} else {
					src = gkind{U: "int"}
				}
			default:
				src = gkind{U: "int"}
			}
			return &cx{K: "conv", T: t, A: g.gen(env, src, depth-1)}
		case c < 65:
			ka, kc := k, k
			switch r.intn(4) {
			case 0:
				ka = gkind{U: "int"}
			case 1:
				kc = gkind{U: "int"}
			}
			return g.maybeParen(&cx{K: "bin", Op: r.pick(c03IntOps), A: g.gen(env, ka, depth-1), C: g.gen(env, kc, depth-1)})
		case c < 75:
			return &cx{K: "un", Op: r.pick([]string{"-", "+", "^"}), A: g.gen(env, k, depth-1)}
		case c < 90:
			return g.maybeParen(&cx{K: "bin", Op: r.pick([]string{"<<", ">>"}), A: g.gen(env, k, depth-1), C: g.shiftCount()})
		default:
			return paren(g.gen(env, k, depth-1))
		}
	case isFloatT(t):
		if leaf {
			if r.chance(25) {
				if e := g.refOf(env, k); e != nil {
					return e
				}
			}
			if r.bool() {
				return &cx{K: "conv", T: t, A: g.floatLit()}
			}
			return &cx{K: "conv", T: t, A: g.smallFor("int16")}
		}
		switch c := r.intn(100); {
		case c < 25:
			var src gkind
			switch r.intn(4) {
			case 0:
				src = gkind{U: "int"}
			case 1:
				src = gkind{T: r.pick(c03IntTypes)}
			case 2:
				src = gkind{T: r.pick([]string{"float32", "float64"})}
			default:
				src = gkind{U: "float"}
			}
			return &cx{K: "conv", T: t, A: g.gen(env, src, depth-1)}
		case c < 75:
			ka, kc := k, k
			switch r.intn(5) {
			case 0:
				ka = gkind{U: "int"}
			case 1:
				kc = gkind{U: "float"}
			}
			return g.maybeParen(&cx{K: "bin", Op: r.pick(c03FloatOps), A: g.gen(env, ka, depth-1), C: g.gen(env, kc, depth-1)})
		case c < 88:
			return &cx{K: "un", Op: r.pick([]string{"-", "+"}), A: g.gen(env, k, depth-1)}
		default:
			return paren(g.gen(env, k, depth-1))
		}
	case t == "string":
		if leaf || r.chance(40) {
			switch r.intn(3) {
			case 0:
				// string(rune): printable or invalid code points only (the output is line based)
				cps := []int64{65, 97, 233, 0x4e16, 0x1F600, 126, 48, -1, 0x110000, 0xD800}
				z := big.NewInt(cps[r.intn(len(cps))])
				if z.Sign() < 0 {
					return &cx{K: "conv", T: t, A: &cx{K: "un", Op: "-", A: &cx{K: "int", Z: new(big.Int).Neg(z), Lit: new(big.Int).Neg(z).String()}}}
				}
				return &cx{K: "conv", T: t, A: &cx{K: "int", Z: z, Lit: z.String()}}
			case 1:
				return &cx{K: "conv", T: t, A: &cx{K: "rune", Z: big.NewInt('x'), Lit: "'x'"}}
			}
			return &cx{K: "conv", T: t, A: g.gen(env, gkind{U: "string"}, depth-1)}
		}
		ka, kc := k, k
		switch r.intn(3) {
		case 0:
			ka = gkind{U: "string"}
		case 1:
			kc = gkind{U: "string"}
		}
		return g.maybeParen(&cx{K: "bin", Op: "+", A: g.gen(env, ka, depth-1), C: g.gen(env, kc, depth-1)})
	default: // bool
		if leaf || r.chance(50) {
			return &cx{K: "conv", T: t, A: g.gen(env, gkind{U: "bool"}, depth-1)}
		}
		return &cx{K: "un", Op: "!", A: g.gen(env, k, depth-1)}
	}
}

// smallFor returns an untyped integer literal (possibly negated) that fits type t most of the time.
func (g *c03gen) smallFor(t string) *cx {
	r := g.r
	bits := bitsOf(t)
	var z *big.Int
	switch c := r.intn(10); {
	case c < 6:
		z = big.NewInt(int64(r.intn(12)))
	case c < 8:
		z = big.NewInt(int64(r.intn(128)))
	default:
		// near the bounds
		z = new(big.Int).Lsh(big.NewInt(1), uint(bits-1))
		if isUintT(t) {
			z.Lsh(z, 1)
		}
		z.Sub(z, big.NewInt(int64(1+r.intn(3))))
	}
	e := &cx{K: "int", Z: z, Lit: z.String()}
	if !isUintT(t) && r.chance(25) {
		return &cx{K: "un", Op: "-", A: e}
	}
	return e
}

func (g *c03gen) operandKind() gkind {
	r := g.r
	switch c := r.intn(10); {
	case c < 4:
		return gkind{U: "int"}
	case c < 5:
		return gkind{U: "rune"}
	case c < 6 && g.floats:
		return gkind{U: "float"}
	case c < 7:
		return gkind{U: "string"}
	case c < 9 && g.typed:
		return gkind{T: r.pick(c03IntTypes)}
	}
	return gkind{U: "int"}
}

func (g *c03gen) anyKind() gkind {
	r := g.r
	switch c := r.intn(100); {
	case c < 30:
		return gkind{U: "int"}
	case c < 38:
		return gkind{U: "rune"}
	case c < 52 && g.floats:
		return gkind{U: "float"}
	case c < 58:
		return gkind{U: "string"}
	case c < 64:
		return gkind{U: "bool"}
	case !g.typed:
		return gkind{U: "int"}
	case c < 88:
		return gkind{T: r.pick(c03IntTypes)}
	case c < 94 && g.floats:
		return gkind{T: r.pick([]string{"float32", "float64"})}
	case c < 97:
		return gkind{T: "string"}
	case c < 99:
		return gkind{T: "bool"}
	}
	return gkind{T: "int"}
}

// declaredType picks an explicit type for a declaration whose initialiser has kind k ("" = none).
func (g *c03gen) declaredType(k gkind) string {
	r := g.r
	if !g.typed || r.chance(65) {
		return ""
	}
	if k.T != "" {
		return k.T
	}
	switch k.U {
	case "int", "rune":
		if r.chance(15) && g.floats {
			return r.pick([]string{"float32", "float64"})
		}
		return r.pick(c03IntTypes)
	case "float":
		if r.chance(20) {
			return r.pick(c03IntTypes)
		}
		return r.pick([]string{"float32", "float64"})
	case "string":
		return "string"
	}
	return "bool"
}

func (g *c03gen) program(depth int) *c03prog {
	r := g.r
	env := &c03env{}
	switch c := r.intn(100); {
	case c < 24:
		// outside constant declarations comparisons, && and || are computed at run time: not generated
		save := g.cmp
		g.cmp = false
		defer func() { g.cmp = save }()
		k := g.anyKind()
		if c < 12 {
			return &c03prog{Kind: "expr", E: g.gen(env, k, depth)}
		}
		return &c03prog{Kind: "var", VarT: g.declaredType(k), E: g.gen(env, k, depth)}
	}
	p := &c03prog{Kind: "const-global"}
	if r.chance(35) {
		p.Kind = "const-local"
	}
	env.cdecl = true
	next := 1
	ngroups := 1 + r.intn(3)
	if g.single {
		ngroups = 1
	}
	for gi := 0; gi < ngroups; gi++ {
		if r.chance(55) || g.single {
			// single declaration
			k := g.anyKind()
			dt := g.declaredType(k)
			e := g.gen(env, k, depth)
			p.Groups = append(p.Groups, []c03spec{{Names: []int{next}, Type: dt, Exprs: []*cx{e}}})
			p.Paren = append(p.Paren, r.chance(15))
			env.consts = append(env.consts, struct {
				id int
				k  gkind
			}{next, declKind(k, dt)})
			next++
			continue
		}
		// a block with iota and implicit repetition
		n := 2 + r.intn(5)
		var grp []c03spec
		var prevK gkind
		var prevT string
		havePrev := false
		env.iota = true
		for si := 0; si < n; si++ {
			blank := si > 0 && r.chance(12)
			name := next
			if blank {
				name = 0
			} else {
				next++
			}
			if havePrev && r.chance(55) {
				grp = append(grp, c03spec{Names: []int{name}})
				if !blank {
					env.consts = append(env.consts, struct {
						id int
						k  gkind
					}{name, declKind(prevK, prevT)})
				}
				continue
			}
			k := g.anyKind()
			if r.chance(50) {
				k = gkind{U: "int"}
			}
			dt := g.declaredType(k)
			d := depth - 1
			if d < 1 {
				d = 1
			}
			e := g.gen(env, k, d)
			grp = append(grp, c03spec{Names: []int{name}, Type: dt, Exprs: []*cx{e}})
			if !blank {
				env.consts = append(env.consts, struct {
					id int
					k  gkind
				}{name, declKind(k, dt)})
			}
			prevK, prevT, havePrev = k, dt, true
		}
		env.iota = false
		p.Groups = append(p.Groups, grp)
		p.Paren = append(p.Paren, true)
	}
	return p
}

func declKind(k gkind, dt string) gkind {
	if dt != "" {
		return gkind{T: dt}
	}
	return k
}

// ---------------------------------------------------------------- region analysis

type c03facts struct {
	Discard string          // non-empty: the case is outside the modelled region and is not generated
	Feats   map[string]bool // input features that select a known-finding region
}

func isTypedFloat(t types.Type) bool {
	b, ok := t.(*types.Basic)
	return ok && (b.Kind() == types.Float32 || b.Kind() == types.Float64)
}

func isTypedInt(t types.Type) bool {
	b, ok := t.(*types.Basic)
	return ok && b.Info()&types.IsInteger != 0 && b.Info()&types.IsUntyped == 0
}

func isUntypedT(t types.Type) bool {
	b, ok := t.(*types.Basic)
	return ok && b.Info()&types.IsUntyped != 0
}

func constIsZero(v constant.Value) bool {
	if v == nil {
		return false
	}
	switch v.Kind() {
	case constant.Int, constant.Float:
		return constant.Sign(v) == 0
	}
	return false
}

// goKind: the kind the Go specification gives a constant expression (computed from the syntax:
// go/types records the *final* type of untyped operands, after their implicit conversion).
func urank(u string) int {
	switch u {
	case "int":
		return 0
	case "rune":
		return 1
	case "float":
		return 2
	}
	return 3
}

func unifyKind(a, b gkind) gkind {
	if a.T != "" {
		return a
	}
	if b.T != "" {
		return b
	}
	if urank(b.U) > urank(a.U) {
		return b
	}
	return a
}

func goKind(x ast.Expr, env map[string]gkind) gkind {
	switch a := x.(type) {
	case *ast.BasicLit:
		switch a.Kind {
		case token.INT:
			return gkind{U: "int"}
		case token.CHAR:
			return gkind{U: "rune"}
		case token.FLOAT:
			return gkind{U: "float"}
		}
		return gkind{U: "string"}
	case *ast.Ident:
		switch a.Name {
		case "true", "false":
			return gkind{U: "bool"}
		case "iota":
			return gkind{U: "int"}
		}
		return env[a.Name]
	case *ast.ParenExpr:
		return goKind(a.X, env)
	case *ast.UnaryExpr:
		return goKind(a.X, env)
	case *ast.BinaryExpr:
		switch a.Op {
		case token.SHL, token.SHR:
			k := goKind(a.X, env)
			if k.T == "" && k.U == "float" {
				return gkind{U: "int"}
			}
			return k
		case token.EQL, token.NEQ, token.LSS, token.LEQ, token.GTR, token.GEQ:
			return gkind{U: "bool"}
		}
		return unifyKind(goKind(a.X, env), goKind(a.Y, env))
	case *ast.CallExpr:
		id := a.Fun.(*ast.Ident).Name
		if id == "len" {
			return gkind{T: "int"}
		}
		return gkind{T: id}
	}
	return gkind{}
}

func (k gkind) isIntKind() bool   { return k.T == "" && (k.U == "int" || k.U == "rune") }
func (k gkind) isFloatKind() bool { return k.T == "" && k.U == "float" || isFloatT(k.T) }

// containsIota: go/types records one value per syntax node, the one of the last spec that repeats the
// expression; the value-dependent features therefore treat an expression over iota as possibly zero.
func containsIota(x ast.Expr) bool {
	found := false
	ast.Inspect(x, func(n ast.Node) bool {
		if id, ok := n.(*ast.Ident); ok && id.Name == "iota" {
			found = true
		}
		return true
	})
	return found
}

func stripParens(x ast.Expr) ast.Expr {
	for {
		p, ok := x.(*ast.ParenExpr)
		if !ok {
			return x
		}
		x = p.X
	}
}

// stripSigns removes parentheses and the unary operators + - ^ (the nodes through which yaegi's
// pre-order pass hands a type down).
func stripSigns(x ast.Expr) ast.Expr {
	for {
		switch p := x.(type) {
		case *ast.ParenExpr:
			x = p.X
			continue
		case *ast.UnaryExpr:
			if p.Op == token.ADD || p.Op == token.SUB || p.Op == token.XOR {
				x = p.X
				continue
			}
		}
		return x
	}
}

func isArithBinary(x ast.Expr) bool {
	b, ok := x.(*ast.BinaryExpr)
	if !ok {
		return false
	}
	switch b.Op {
	case token.EQL, token.NEQ, token.LSS, token.LEQ, token.GTR, token.GEQ, token.LAND, token.LOR:
		return false
	}
	return true
}

func untypedKind(t types.Type) types.BasicKind {
	if b, ok := t.(*types.Basic); ok && b.Info()&types.IsUntyped != 0 {
		return b.Kind()
	}
	return types.Invalid
}

// chain visits the nodes reachable from root through parentheses, unary + - ^ and arithmetic
// binary expressions: the nodes that take the propagated type in yaegi's pre-order pass.
func chain(root ast.Expr, f func(ast.Expr)) {
	switch x := root.(type) {
	case *ast.ParenExpr:
		f(x)
		chain(x.X, f)
	case *ast.UnaryExpr:
		if x.Op == token.ADD || x.Op == token.SUB || x.Op == token.XOR {
			f(x)
			chain(x.X, f)
		}
	case *ast.BinaryExpr:
		if isArithBinary(x) {
			f(x)
			chain(x.X, f)
			chain(x.Y, f)
		}
	}
}

// convOfBinary: a conversion whose operand is (up to signs and parentheses) a binary expression.
// In a constant declaration yaegi visits the operand again with the target type already set (and
// handed down its chain), leaves a go/constant value in it and then converts that value through
// Int64Val(ToInt(v)): for a float or string target the result is 0 (or the low 64 bits) unless
// the value is an integer of the int64 range; inside the chain the target type replaces the
// untyped kinds (integer division becomes exact division, operand checks fail).
func convOfBinary(x ast.Expr) (*ast.CallExpr, bool) {
	call, ok := x.(*ast.CallExpr)
	if !ok || len(call.Args) != 1 || call.Fun.(*ast.Ident).Name == "len" {
		return nil, false
	}
	return call, isArithBinary(stripSigns(call.Args[0]))
}

// c03Analyze looks at the parsed program and at the facts go/types recorded for every
// subexpression, and returns the input features that put a case into a known-finding region
// or outside the modelled region.
func c03Analyze(ref *c03ref) c03facts {
	f := c03facts{Feats: map[string]bool{}}
	pm := ref.Prog
	info := ref.Info
	isConstDecl := pm.Kind == "const-global" || pm.Kind == "const-local"
	type rootInfo struct {
		x     ast.Expr
		dtype string // explicit type of the declaration ("" = none)
		env   map[string]gkind
	}
	var roots []rootInfo
	env := map[string]gkind{}
	snapshot := func() map[string]gkind {
		m := make(map[string]gkind, len(env))
		for k, v := range env {
			m[k] = v
		}
		return m
	}
	for gi, g := range pm.GroupX {
		prevT := ""
		var prevX []ast.Expr
		for si, s := range g {
			sp := pm.Groups[gi][si]
			xs, dt := s, sp.Type
			if len(s) == 0 {
				// implicit repetition: the previous expressions are visited again with this spec's iota
				xs, dt = prevX, prevT
			} else {
				prevT, prevX = sp.Type, s
			}
			here := snapshot()
			for i, x := range xs {
				roots = append(roots, rootInfo{x, dt, here})
				if i < len(sp.Names) && sp.Names[i] != 0 {
					k := goKind(x, here)
					if dt != "" {
						k = gkind{T: dt}
					}
					env[fmt.Sprintf("c%d", sp.Names[i])] = k
				}
			}
			if len(sp.Names) > 1 {
				f.Feats["iota-multi"] = true
			}
		}
	}
	if pm.EX != nil {
		roots = append(roots, rootInfo{pm.EX, pm.VarT, env})
	}
	typedFeature := pm.VarT != ""
	for _, ri := range roots {
		root := ri.x
		K := func(x ast.Expr) gkind { return goKind(x, ri.env) }
		rk := K(root)
		if rk.T == "" && rk.U == "rune" {
			f.Feats["rune-result"] = true
		}
		if ri.dtype != "" {
			typedFeature = true
			if isArithBinary(stripSigns(root)) {
				f.Feats["decl-type-propagation"] = true
			}
		} else if isConstDecl {
			// second and third visit of a constant declaration: the type found by the first visit is
			// handed down the chain of the initialiser
			pFloat := rk.isFloatKind()
			pTypedInt := isIntT(rk.T)
			if pFloat || pTypedInt {
				chain(root, func(n ast.Expr) {
					intKind := K(n).isIntKind()
					if kn := K(n); kn.T == "" && rk.T != "" {
						// an untyped subexpression of the chain is computed again under the typed result type:
						// its operands must then fit that type, and for float32 it keeps float64 precision
						if _, bin := n.(*ast.BinaryExpr); bin && isFloatT(rk.T) {
							// machine arithmetic with a rounding at every level instead of exact arithmetic
							f.Feats["multipass-propagation"] = true
						}
						ast.Inspect(n, func(m ast.Node) bool {
							if e, ok := m.(ast.Expr); ok {
								if tv, ok := info.Types[e]; ok && tv.Value != nil && pTypedInt {
									if iv := constant.ToInt(tv.Value); iv.Kind() == constant.Int {
										lim := bitsOf(rk.T)
										if !isUintT(rk.T) {
											lim--
										}
										if constant.BitLen(iv) > lim || isUintT(rk.T) && constant.Sign(iv) < 0 {
											f.Feats["multipass-propagation"] = true
										}
									}
								}
							}
							return true
						})
					}
					switch x := n.(type) {
					case *ast.BinaryExpr:
						switch x.Op {
						case token.QUO:
							if intKind {
								f.Feats["multipass-propagation"] = true
							}
						case token.REM, token.AND, token.OR, token.XOR, token.AND_NOT, token.SHL, token.SHR:
							if intKind && pFloat {
								f.Feats["multipass-propagation"] = true
							}
						}
					case *ast.UnaryExpr:
						if x.Op == token.XOR && intKind && pFloat {
							f.Feats["multipass-propagation"] = true
						}
					}
				})
			}
		}
		// is x below an arithmetic binary expression whose kind is typed? (fixUntyped walks down from there)
		var walk func(x ast.Expr, underTyped bool)
		walk = func(x ast.Expr, underTyped bool) {
			switch a := x.(type) {
			case *ast.ParenExpr:
				walk(a.X, underTyped)
			case *ast.UnaryExpr:
				walk(a.X, underTyped)
			case *ast.BinaryExpr:
				u := underTyped || (K(a).T != "" && isArithBinary(a))
				switch a.Op {
				case token.EQL, token.NEQ, token.LSS, token.LEQ, token.GTR, token.GEQ:
					u = true // the comparison itself has type bool
				}
				walk(a.X, u)
				walk(a.Y, u)
			case *ast.CallExpr:
				typedFeature = true
				arg := a.Args[0]
				if a.Fun.(*ast.Ident).Name == "len" {
					if _, leaf := stripParens(arg).(*ast.BasicLit); !leaf && underTyped && isConstDecl {
						if _, id := stripParens(arg).(*ast.Ident); !id {
							f.Feats["multipass-propagation"] = true // fixUntyped types the operand of len
						}
					}
				}
				walk(arg, underTyped)
			}
		}
		walk(root, false)
		ast.Inspect(root, func(n ast.Node) bool {
			switch x := n.(type) {
			case *ast.CallExpr:
				if _, bin := convOfBinary(x); bin && isConstDecl {
					f.Feats["conv-requantized"] = true
				}
			case *ast.UnaryExpr:
				if x.Op == token.SUB && isFloatT(K(x).T) && (constIsZero(info.Types[x].Value) || containsIota(x)) {
					f.Feats["float-negzero"] = true
				}
			case *ast.BinaryExpr:
				kx, ky := K(x.X), K(x.Y)
				ty := info.Types[x.Y]
				if (x.Op == token.MUL || x.Op == token.QUO) && isFloatT(K(x).T) && (constIsZero(info.Types[x].Value) || containsIota(x)) {
					f.Feats["float-negzero"] = true
				}
				switch x.Op {
				case token.QUO, token.REM:
					if isConstDecl {
						ast.Inspect(x.Y, func(m ast.Node) bool {
							if e, ok := m.(ast.Expr); ok {
								if call, bin := convOfBinary(e); bin && isFloatT(call.Fun.(*ast.Ident).Name) {
									f.Discard = "divisor containing a requantized float conversion (infinity)"
								}
							}
							return true
						})
					}
					if constIsZero(ty.Value) || containsIota(x.Y) {
						switch {
						case isFloatT(ky.T):
							f.Discard = "typed float division by zero (infinity)"
						case isIntT(ky.T):
							f.Feats["typed-divzero"] = true
						}
					}
					if x.Op == token.QUO {
						// constant division skips the unification of the operands
						if kx.T == "" && ky.T == "" && kx.U == "rune" && ky.U == "int" {
							f.Feats["quo-no-unify"] = true // 'a' / 2 is given the kind of the right operand
						}
						if (kx.T == "float32" && ky.T == "") || (ky.T == "float32" && kx.T == "") {
							f.Feats["quo-no-unify"] = true // the untyped operand is used at float64 precision
						}
					}
				case token.SHL, token.SHR:
					if kx.T == "" && kx.U == "float" {
						f.Feats["float-shift"] = true // 1.0 << 3 keeps the floating-point kind
					}
				case token.EQL, token.NEQ, token.LSS, token.LEQ, token.GTR, token.GEQ, token.LAND, token.LOR:
					if isConstDecl {
						f.Feats["cmp"] = true
					}
				}
			}
			return true
		})
	}
	f.Feats["typed"] = typedFeature
	// infinities are outside the model: yaegi's machine arithmetic on typed floats yields +Inf/-Inf
	// where Go rejects an overflow or a division by zero
	usesFloat, uses32 := false, false
	for _, ri := range roots {
		ast.Inspect(ri.x, func(n ast.Node) bool {
			if x, ok := n.(ast.Expr); ok {
				if tv, ok := info.Types[x]; ok && tv.Type != nil && isTypedFloat(tv.Type) {
					usesFloat = true
					if tv.Type.(*types.Basic).Kind() == types.Float32 {
						uses32 = true
					}
					if tv.Value != nil {
						fv, _ := constant.Float64Val(constant.ToFloat(tv.Value))
						lim := 1e300
						if tv.Type.(*types.Basic).Kind() == types.Float32 {
							lim = 1e30
						}
						if math.Abs(fv) > lim {
							f.Discard = "typed float of huge magnitude (near infinity)"
						}
					}
				}
			}
			return true
		})
	}
	for _, g := range pm.Groups {
		for _, sp := range g {
			if isFloatT(sp.Type) {
				usesFloat = true
				uses32 = uses32 || sp.Type == "float32"
			}
		}
	}
	if isFloatT(pm.VarT) {
		usesFloat = true
		uses32 = uses32 || pm.VarT == "float32"
	}
	// yaegi's typing differs from Go's inside the defect regions: a subexpression that is an exact
	// big integer for Go may be machine float arithmetic for yaegi; keep magnitudes far from the
	// largest finite float whenever a float type occurs in the program
	if uses32 && ref.MaxBit > 95 || usesFloat && ref.MaxBit > 900 {
		f.Discard = "float types next to constants of huge magnitude (near infinity)"
	}
	for _, e := range ref.Errs {
		switch refErrorClass(e) {
		case "overflow":
			if strings.Contains(e, "float32") || strings.Contains(e, "float64") {
				f.Discard = "floating-point overflow (infinity)"
			}
		case "divzero":
			if usesFloat {
				f.Discard = "division by zero next to floating-point types (infinity)"
			}
		}
	}
	if ref.Out.Class == "rejected" && (typedFeature || f.Feats["rune-result"]) {
		// Go rejects a constant that does not fit a type (the default type int32 of a rune included)
		f.Feats["ref-rejects-typed"] = true
	}
	return f
}

// c03Region maps the features of a case to the region label of a known finding ("" = main stream).
func c03Region(f c03facts) string {
	switch {
	case f.Feats["iota-multi"]:
		return "iota-multi"
	case f.Feats["cmp"]:
		return "const-compare"
	case f.Feats["quo-no-unify"]:
		return "quo-no-unify"
	case f.Feats["float-shift"]:
		return "float-shift"
	case f.Feats["decl-type-propagation"]:
		return "decl-type-propagation"
	case f.Feats["multipass-propagation"]:
		return "multipass-propagation"
	case f.Feats["conv-requantized"]:
		return "conv-requantized"
	case f.Feats["typed-divzero"]:
		return "typed-divzero"
	case f.Feats["float-negzero"]:
		return "float-negzero"
	case f.Feats["ref-rejects-typed"]:
		return "typed-overflow-wrap"
	}
	return ""
}

// c03Rng: newRng(seed+1) is newRng(seed) advanced by one step (the state is linear in the seed);
// the generator therefore starts from the first *output* of that stream, which is mixed.
func c03Rng(seed uint64) *rng { return &rng{newRng(seed).next() ^ seed<<32} }

// ---------------------------------------------------------------- driver

type c03case struct {
	Stream string
	Prog   *c03prog
	Src    string
	Ref    *c03ref
	Impl   c03out
	Region string
}

// ---------------------------------------------------------------- simple literal forms

// c03LiteralForm: the program is a single declaration or expression of one of the forms
//   const c T = ±lit | var v T = ±lit | T(±lit) | const c = T(±lit) | var v = T(±lit)
// (lit an integer or floating-point literal). For these yaegi calls representableConst: the only
// defect is its bound for the signed types narrower than 64 bits (|v| < 2^N accepted).
func c03LiteralForm(pm *c03progModel) (lit *big.Rat, target string, ok bool) {
	var e *cx
	dt := ""
	switch pm.Kind {
	case "const-global", "const-local":
		if len(pm.Groups) != 1 || len(pm.Groups[0]) != 1 || len(pm.Groups[0][0].Exprs) != 1 {
			return nil, "", false
		}
		e, dt = pm.Groups[0][0].Exprs[0], pm.Groups[0][0].Type
	default:
		e, dt = pm.E, pm.VarT
	}
	signedLit := func(x *cx) (*big.Rat, bool) {
		neg := false
		for {
			switch {
			case x.K == "paren":
				x = x.A
				continue
			case x.K == "un" && (x.Op == "-" || x.Op == "+"):
				if x.Op == "-" {
					neg = !neg
				}
				x = x.A
				continue
			}
			break
		}
		var q *big.Rat
		switch x.K {
		case "int":
			q = new(big.Rat).SetInt(x.Z)
		case "float":
			q = new(big.Rat).Set(x.Q)
		default:
			return nil, false
		}
		if neg {
			q.Neg(q)
		}
		return q, true
	}
	if e.K == "conv" && (dt == "" || dt == e.T) {
		if q, ok := signedLit(e.A); ok {
			return q, e.T, true
		}
		return nil, "", false
	}
	if dt != "" {
		if q, ok := signedLit(e); ok {
			return q, dt, true
		}
	}
	return nil, "", false
}

// signedBitlenZone: v is an integer that does not fit the signed type t (narrower than 64 bits)
// but has at most as many bits as t is wide.
func signedBitlenZone(v *big.Rat, t string) bool {
	if !isIntT(t) || isUintT(t) || bitsOf(t) == 64 || !v.IsInt() {
		return false
	}
	n := bitsOf(t)
	z := v.Num()
	lo := new(big.Int).Neg(new(big.Int).Lsh(big.NewInt(1), uint(n-1)))
	hi := new(big.Int).Sub(new(big.Int).Lsh(big.NewInt(1), uint(n-1)), big.NewInt(1))
	if z.Cmp(lo) >= 0 && z.Cmp(hi) <= 0 {
		return false
	}
	return new(big.Int).Abs(z).BitLen() <= n
}

// ---------------------------------------------------------------- boundary literals (enumerated)

func c03Boundary() []*c03prog {
	var progs []*c03prog
	lit := func(z *big.Int) *cx {
		a := new(big.Int).Abs(z)
		e := &cx{K: "int", Z: a, Lit: a.String()}
		if z.Sign() < 0 {
			return &cx{K: "un", Op: "-", A: e}
		}
		return e
	}
	for _, t := range c03IntTypes {
		n := bitsOf(t)
		pow := func(k int) *big.Int { return new(big.Int).Lsh(big.NewInt(1), uint(k)) }
		var min, max *big.Int
		if isUintT(t) {
			min, max = big.NewInt(0), new(big.Int).Sub(pow(n), big.NewInt(1))
		} else {
			min, max = new(big.Int).Neg(pow(n-1)), new(big.Int).Sub(pow(n-1), big.NewInt(1))
		}
		vals := []*big.Int{
			new(big.Int).Sub(min, big.NewInt(1)), min, new(big.Int).Add(min, big.NewInt(1)),
			new(big.Int).Sub(max, big.NewInt(1)), max, new(big.Int).Add(max, big.NewInt(1)),
			pow(n), new(big.Int).Sub(pow(n), big.NewInt(1)), new(big.Int).Add(pow(n), big.NewInt(1)),
			new(big.Int).Neg(pow(n)), new(big.Int).Neg(new(big.Int).Sub(pow(n), big.NewInt(1))),
			big.NewInt(0), big.NewInt(-1), pow(100),
		}
		for _, v := range vals {
			one := func(kind, dt string, e *cx) *c03prog {
				return &c03prog{Kind: kind, Groups: [][]c03spec{{{Names: []int{1}, Type: dt, Exprs: []*cx{e}}}}, Paren: []bool{false}}
			}
			progs = append(progs,
				one("const-global", t, lit(v)),
				one("const-local", t, lit(v)),
				one("const-global", "", &cx{K: "conv", T: t, A: lit(v)}),
				one("const-local", "", &cx{K: "conv", T: t, A: lit(v)}),
				&c03prog{Kind: "var", VarT: t, E: lit(v)},
				&c03prog{Kind: "var", E: &cx{K: "conv", T: t, A: lit(v)}},
				&c03prog{Kind: "expr", E: &cx{K: "conv", T: t, A: lit(v)}},
			)
		}
		// float literals: integral (representable) and fractional (truncated)
		for _, fl := range []string{"3.0", "2.5", "0.0"} {
			q, _ := new(big.Rat).SetString(fl)
			e := &cx{K: "float", Q: q, Lit: fl}
			progs = append(progs,
				&c03prog{Kind: "const-global", Groups: [][]c03spec{{{Names: []int{1}, Type: t, Exprs: []*cx{e}}}}, Paren: []bool{false}},
				&c03prog{Kind: "expr", E: &cx{K: "conv", T: t, A: e}},
				&c03prog{Kind: "var", VarT: t, E: e})
		}
	}
	for _, t := range []string{"float32", "float64"} {
		for _, fl := range []string{"0.1", "16777217", "3.4028234e38", "3.4028235e38", "3.4028236e38", "3.5e38", "1.7976931348623157e308", "1.8e308", "1e-50", "1e-320", "1e-400", "9007199254740993"} {
			q, _ := new(big.Rat).SetString(fl)
			var e *cx
			if strings.ContainsAny(fl, ".e") {
				e = &cx{K: "float", Q: q, Lit: fl}
			} else {
				e = &cx{K: "int", Z: q.Num(), Lit: fl}
			}
			progs = append(progs,
				&c03prog{Kind: "const-global", Groups: [][]c03spec{{{Names: []int{1}, Type: t, Exprs: []*cx{e}}}}, Paren: []bool{false}},
				&c03prog{Kind: "const-local", Groups: [][]c03spec{{{Names: []int{1}, Exprs: []*cx{{K: "conv", T: t, A: e}}}}}, Paren: []bool{false}},
				&c03prog{Kind: "expr", E: &cx{K: "conv", T: t, A: e}},
				&c03prog{Kind: "var", VarT: t, E: e})
		}
	}
	// division and remainder by a constant zero, shift counts
	for _, src := range []struct {
		op   string
		a, c *cx
	}{
		{"/", &cx{K: "int", Z: big.NewInt(1), Lit: "1"}, &cx{K: "int", Z: big.NewInt(0), Lit: "0"}},
		{"%", &cx{K: "int", Z: big.NewInt(7), Lit: "7"}, &cx{K: "int", Z: big.NewInt(0), Lit: "0"}},
		{"/", &cx{K: "float", Q: big.NewRat(3, 2), Lit: "1.5"}, &cx{K: "int", Z: big.NewInt(0), Lit: "0"}},
		{"/", &cx{K: "int", Z: big.NewInt(1), Lit: "1"}, &cx{K: "float", Q: new(big.Rat), Lit: "0.0"}},
		{"/", &cx{K: "rune", Z: big.NewInt(97), Lit: "'a'"}, &cx{K: "paren", A: &cx{K: "bin", Op: "-", A: &cx{K: "int", Z: big.NewInt(2), Lit: "2"}, C: &cx{K: "int", Z: big.NewInt(2), Lit: "2"}}}},
		{"<<", &cx{K: "int", Z: big.NewInt(1), Lit: "1"}, &cx{K: "un", Op: "-", A: &cx{K: "int", Z: big.NewInt(1), Lit: "1"}}},
		{">>", &cx{K: "int", Z: big.NewInt(1), Lit: "1"}, &cx{K: "float", Q: big.NewRat(3, 2), Lit: "1.5"}},
		{"<<", &cx{K: "float", Q: big.NewRat(3, 2), Lit: "1.5"}, &cx{K: "int", Z: big.NewInt(1), Lit: "1"}},
	} {
		e := &cx{K: "bin", Op: src.op, A: src.a, C: src.c}
		progs = append(progs,
			&c03prog{Kind: "const-global", Groups: [][]c03spec{{{Names: []int{1}, Exprs: []*cx{e}}}}, Paren: []bool{false}},
			&c03prog{Kind: "const-local", Groups: [][]c03spec{{{Names: []int{1}, Exprs: []*cx{e}}}}, Paren: []bool{false}},
			&c03prog{Kind: "var", E: e},
			&c03prog{Kind: "expr", E: e})
	}
	return progs
}

// multiName: a block whose specs declare several names (iota advances once per name in yaegi)
func (g *c03gen) multiName() *c03prog {
	r := g.r
	p := &c03prog{Kind: "const-global", Paren: []bool{true}}
	if r.bool() {
		p.Kind = "const-local"
	}
	env := &c03env{iota: true, cdecl: true}
	save := *g
	g.typed, g.floats, g.cmp = false, false, false
	defer func() { g.typed, g.floats, g.cmp = save.typed, save.floats, save.cmp }()
	next := 1
	var grp []c03spec
	n := 2 + r.intn(3)
	width := 2 + r.intn(2)
	for si := 0; si < n; si++ {
		sp := c03spec{}
		for j := 0; j < width; j++ {
			sp.Names = append(sp.Names, next)
			next++
			sp.Exprs = append(sp.Exprs, g.gen(env, gkind{U: "int"}, 2))
		}
		grp = append(grp, sp)
	}
	p.Groups = [][]c03spec{grp}
	return p
}

// ---------------------------------------------------------------- representableConst / convertConst (function level)

type c03cval struct {
	Z *big.Int
	Q *big.Rat
	S *string
	B *bool
}

func (c c03cval) coq() string {
	switch {
	case c.Z != nil:
		return "(CInt " + coqBigZ(c.Z) + ")"
	case c.Q != nil:
		return "(CRat " + coqQ(c.Q) + ")"
	case c.S != nil:
		return "(CStr " + coqBytes(*c.S) + ")"
	}
	return "(CBool " + coqBool(*c.B) + ")"
}

func (c c03cval) value() constant.Value {
	switch {
	case c.Z != nil:
		return constant.Make(c.Z)
	case c.Q != nil:
		return constant.Make(c.Q)
	case c.S != nil:
		return constant.MakeString(*c.S)
	}
	return constant.MakeBool(*c.B)
}

var c03ReflectTypes = map[string]reflect.Type{
	"int": reflect.TypeOf(int(0)), "int8": reflect.TypeOf(int8(0)), "int16": reflect.TypeOf(int16(0)), "int32": reflect.TypeOf(int32(0)), "int64": reflect.TypeOf(int64(0)),
	"uint": reflect.TypeOf(uint(0)), "uint8": reflect.TypeOf(uint8(0)), "uint16": reflect.TypeOf(uint16(0)), "uint32": reflect.TypeOf(uint32(0)), "uint64": reflect.TypeOf(uint64(0)), "uintptr": reflect.TypeOf(uintptr(0)),
	"float32": reflect.TypeOf(float32(0)), "float64": reflect.TypeOf(float64(0)), "string": reflect.TypeOf(""), "bool": reflect.TypeOf(true),
}

// goRepresentable: the specification's "representable" computed independently of both models.
func goRepresentable(c c03cval, t string) bool {
	switch {
	case isIntT(t):
		var z *big.Int
		switch {
		case c.Z != nil:
			z = c.Z
		case c.Q != nil && c.Q.IsInt():
			z = c.Q.Num()
		default:
			return false
		}
		n := bitsOf(t)
		if isUintT(t) {
			return z.Sign() >= 0 && z.BitLen() <= n
		}
		lo := new(big.Int).Neg(new(big.Int).Lsh(big.NewInt(1), uint(n-1)))
		hi := new(big.Int).Sub(new(big.Int).Lsh(big.NewInt(1), uint(n-1)), big.NewInt(1))
		return z.Cmp(lo) >= 0 && z.Cmp(hi) <= 0
	case isFloatT(t):
		var q *big.Rat
		switch {
		case c.Z != nil:
			q = new(big.Rat).SetInt(c.Z)
		case c.Q != nil:
			q = c.Q
		default:
			return false
		}
		if t == "float32" {
			f, _ := q.Float32()
			return !math.IsInf(float64(f), 0)
		}
		f, _ := q.Float64()
		return !math.IsInf(f, 0)
	case t == "string":
		return c.S != nil
	}
	return c.B != nil
}

func reflectToVal(v reflect.Value) (c03val, bool) {
	name := v.Type().Kind().String()
	cv := c03val{T: name}
	switch {
	case isIntT(name) && !isUintT(name):
		cv.Z = big.NewInt(v.Int())
	case isUintT(name):
		cv.Z = new(big.Int).SetUint64(v.Uint())
	case isFloatT(name):
		f := v.Float()
		if math.IsInf(f, 0) || math.IsNaN(f) {
			return cv, false
		}
		if f == 0 && math.Signbit(f) {
			cv.NZ = true
		} else {
			cv.Q = new(big.Rat).SetFloat64(f)
		}
	case name == "string":
		s := v.String()
		cv.S = &s
	case name == "bool":
		b := v.Bool()
		cv.B = &b
	default:
		return cv, false
	}
	return cv, true
}

func c03ReprGrid() []c03cval {
	var l []c03cval
	z := func(x *big.Int) { l = append(l, c03cval{Z: x}) }
	for _, k := range []int{7, 8, 15, 16, 31, 32, 63, 64, 100} {
		p := new(big.Int).Lsh(big.NewInt(1), uint(k))
		for _, d := range []int64{-1, 0, 1} {
			v := new(big.Int).Add(p, big.NewInt(d))
			z(v)
			z(new(big.Int).Neg(v))
		}
	}
	for _, v := range []int64{0, 1, -1, 2, 100, 200, -200, 255, 256, 300} {
		z(big.NewInt(v))
	}
	for _, fl := range []string{"0.5", "1.5", "-1.5", "255.0", "256.0", "-1.0", "-128.0", "-129.0", "127.0", "128.0", "4294967296.0", "18446744073709551616.0", "18446744073709551615.0", "1e39", "-1e39", "3.4028235e38",
		"340282356779733661637539395458142568448", "340282356779733661637539395458142568447", "1e309", "-1e309", "1.7976931348623157e308", "1e-50", "1e-400", "-1e-400", "0.1", "0.0"} {
		q, _ := new(big.Rat).SetString(fl)
		l = append(l, c03cval{Q: q})
	}
	// the rounding constants of c03Rounding
	for _, k := range c02Konsts() {
		if k.Val.IsInt() {
			l = append(l, c03cval{Z: new(big.Int).Set(k.Val.Num())})
		}
		l = append(l, c03cval{Q: k.Val})
	}
	for _, s := range []string{"", "a", "héllo"} {
		s := s
		l = append(l, c03cval{S: &s})
	}
	for _, b := range []bool{true, false} {
		b := b
		l = append(l, c03cval{B: &b})
	}
	return l
}

// c03IntKonstsAroundFloatMax: integer-kind constants (literals, shift expressions, and through them
// named untyped integer constants) around the overflow thresholds of the floating-point types: the
// largest integer that still rounds to the largest finite float32, the threshold itself
// (a tie that rounds to 2^128: not representable), powers of two beyond it, and their
// negations.  An integer constant of any magnitude must be refused by a float destination it
// overflows, in every implicit and explicit conversion context.
func c03IntKonstsAroundFloatMax() []c02Konst {
	pow := func(k uint) *big.Int { return new(big.Int).Lsh(big.NewInt(1), k) }
	var ks []c02Konst
	add := func(name string, z *big.Int, shiftExpr string) {
		k := c02Konst{Name: "integer around " + name, Val: new(big.Rat).SetInt(z), Exprs: []string{z.String()}}
		if shiftExpr != "" {
			k.Exprs = append(k.Exprs, shiftExpr)
		}
		ks = append(ks, k)
	}
	t32 := new(big.Int).Sub(pow(128), pow(103))
	add("the float32 threshold - 1", new(big.Int).Sub(t32, big.NewInt(1)), "1<<128 - 1<<103 - 1")
	add("the float32 threshold", t32, "1<<128 - 1<<103")
	add("2^128", pow(128), "1 << 128")
	add("2^128 + 1", new(big.Int).Add(pow(128), big.NewInt(1)), "1<<128 + 1")
	add("2^200", pow(200), "1 << 200")
	add("-2^128", new(big.Int).Neg(pow(128)), "-1 << 128")
	add("-2^200", new(big.Int).Neg(pow(200)), "-(1 << 200)")
	add("2^500", pow(500), "1 << 500")
	// (integer constants beyond 512 bits are refused by the Go type checker as such: the float64
	// threshold cannot be reached by an integer-kind constant)
	return ks
}

// ---------------------------------------------------------------- rounding to floating-point types (enumerated)

// c03Rounding: constants chosen for float32 / float64 rounding (the list of harness/c02_const.go:
// midpoints between adjacent floats and the midpoints perturbed by less and by more than half a
// float64 ulp, integers above 2^24 / 2^53, values around the largest finite floats and around the
// smallest denormals), in several spellings (decimal literal, hexadecimal floating-point literal,
// constant expression), reaching a float32 / float64 destination through every declaration form:
// typed constant, conversion, typed variable, printed conversion, conversion of a named untyped
// constant, typed constant blocks with implicit repetition.
func c03Rounding(thorough bool) []*c03prog {
	var progs []*c03prog
	mk := func(sp string) *cx {
		x, err := parser.ParseExpr(sp)
		if err != nil {
			panic("c03Rounding: " + sp + ": " + err.Error())
		}
		e, err := fromAST(x)
		if err != nil {
			panic("c03Rounding: " + sp + ": " + err.Error())
		}
		return e
	}
	isLit := func(e *cx) bool {
		for e.K == "un" && (e.Op == "-" || e.Op == "+") {
			e = e.A
		}
		return e.K == "int" || e.K == "float"
	}
	one := func(kind, dt string, e *cx) *c03prog {
		return &c03prog{Kind: kind, Groups: [][]c03spec{{{Names: []int{1}, Type: dt, Exprs: []*cx{e}}}}, Paren: []bool{false}}
	}
	conv := func(t string, e *cx) *cx { return &cx{K: "conv", T: t, A: e} }
	form := func(f int, t string, e *cx) *c03prog {
		switch f {
		case 0:
			return one("const-global", t, e)
		case 1:
			return one("const-local", "", conv(t, e))
		case 2:
			return &c03prog{Kind: "var", VarT: t, E: e}
		case 3:
			return &c03prog{Kind: "expr", E: conv(t, e)}
		case 4:
			return one("const-local", t, e)
		case 5:
			return one("const-global", "", conv(t, e))
		case 6:
			return &c03prog{Kind: "var", E: conv(t, e)}
		}
		// a named untyped constant, then its conversions
		kind := "const-global"
		if f == 8 {
			kind = "const-local"
		}
		return &c03prog{Kind: kind, Hide: map[int]bool{1: true}, Paren: []bool{false, false, false},
			Groups: [][]c03spec{
				{{Names: []int{1}, Exprs: []*cx{e}}},
				{{Names: []int{2}, Type: t, Exprs: []*cx{{K: "ref", Ref: 1}}}},
				{{Names: []int{3}, Exprs: []*cx{conv(t, &cx{K: "ref", Ref: 1})}}}}}
	}
	litForms := []int{0, 1, 2, 3, 4, 5, 6, 7, 8}
	exprForms := []int{3, 6, 7, 8, 0, 2} // the last two hand the declared type down the expression (region decl-type-propagation)
	rot := 0
	for _, t := range []string{"float32", "float64"} {
		var blockLits []*cx
		for ki, k := range append(c02Konsts(), c03IntKonstsAroundFloatMax()...) {
			if len(k.Exprs) == 0 {
				continue
			}
			finite := true
			if t == "float32" {
				f, _ := k.Val.Float32()
				finite = !math.IsInf(float64(f), 0)
			} else {
				f, _ := k.Val.Float64()
				finite = !math.IsInf(f, 0)
			}
			if t == "float32" && finite {
				// a typed declaration of an expression reaches float32 through float64 in yaegi
				// (convertConstantValue): when that overflows the model stops (infinity), see below
				f64, _ := k.Val.Float64()
				finite = !math.IsInf(float64(float32(f64)), 0)
			}
			sensitive := t == "float32" && c02DoubleRoundingDiffers(k.Val) || strings.HasPrefix(k.Name, "integer around")
			for si, sp := range k.Exprs {
				e := mk(sp)
				forms := exprForms
				if isLit(e) {
					forms = litForms
					if finite && si == 0 {
						blockLits = append(blockLits, e)
					}
				}
				switch {
				case thorough || sensitive:
					for _, f := range forms {
						if (f == 0 || f == 2) && !isLit(e) && !finite {
							continue // yaegi leaves an infinity in the typed declaration of an expression: outside the model
						}
						progs = append(progs, form(f, t, e))
					}
				case si == ki%len(k.Exprs):
					for j := 0; j < 2; j++ {
						f := forms[rot%len(forms)]
						rot++
						if (f == 0 || f == 2) && !isLit(e) && !finite {
							continue
						}
						progs = append(progs, form(f, t, e))
					}
				}
			}
		}
		// typed constant blocks: explicit type, conversion, implicit repetition
		for i, n := 0, 0; i < len(blockLits); i, n = i+5, n+1 {
			j := i + 5
			if j > len(blockLits) {
				j = len(blockLits)
			}
			var grp []c03spec
			name := 1
			for m, e := range blockLits[i:j] {
				switch m % 3 {
				case 0:
					grp = append(grp, c03spec{Names: []int{name}, Type: t, Exprs: []*cx{e}}, c03spec{Names: []int{name + 1}})
					name += 2
				case 1:
					grp = append(grp, c03spec{Names: []int{name}, Exprs: []*cx{conv(t, e)}})
					name++
				default:
					grp = append(grp, c03spec{Names: []int{name}, Type: t, Exprs: []*cx{e}})
					name++
				}
			}
			kind := "const-global"
			if n%2 == 1 {
				kind = "const-local"
			}
			progs = append(progs, &c03prog{Kind: kind, Groups: [][]c03spec{grp}, Paren: []bool{true}})
		}
	}
	return progs
}

// ---------------------------------------------------------------- typed destinations x expression shapes (enumerated)

// c03Shapes crosses every integer destination type with the width boundaries (its own minimum and
// maximum, one beyond each, and the int64 / uint64 boundaries 2^63-1, 2^63, 2^64-1, 2^64 for every
// type), the syntactic shape of the constant expression that denotes the value (bare literal,
// unary, doubly negated, binary, parenthesised binary, shift, iota block with implicit repetition)
// and the declaration context (typed constant at package level and in a function, typed variable,
// converted and printed, converted constant).  Which path of yaegi checks the value depends on
// the shape: a literal or a unary expression of one goes through representableConst, a binary
// expression takes the declared type from the pre-order and is only looked at by
// convertConstantValue when it is used (regions decl-type-propagation, conv-requantized).
func c03Shapes() []*c03prog {
	var progs []*c03prog
	pow := func(k int) *big.Int { return new(big.Int).Lsh(big.NewInt(1), uint(k)) }
	one := big.NewInt(1)
	lit := func(z *big.Int) *cx {
		a := new(big.Int).Abs(z)
		e := &cx{K: "int", Z: a, Lit: a.String()}
		if z.Sign() < 0 {
			return &cx{K: "un", Op: "-", A: e}
		}
		return e
	}
	bin := func(op string, a, c *cx) *cx { return &cx{K: "bin", Op: op, A: a, C: c} }
	small := func(n int64) *cx { return &cx{K: "int", Z: big.NewInt(n), Lit: fmt.Sprint(n)} }
	// shapes of an expression denoting v
	shapes := func(v *big.Int) map[string]*cx {
		m := map[string]*cx{
			"literal": lit(v),
			"unary":   &cx{K: "un", Op: "+", A: lit(v)},
			"negneg":  &cx{K: "un", Op: "-", A: lit(new(big.Int).Neg(v))},
			"binary":  bin("+", lit(new(big.Int).Sub(v, one)), small(1)),
			"paren":   &cx{K: "paren", A: bin("-", lit(new(big.Int).Add(v, big.NewInt(3))), small(3))},
		}
		// shift: v = ±2^k or ±2^k - 1
		abs := new(big.Int).Abs(v)
		sign := small(1)
		if v.Sign() < 0 {
			sign = &cx{K: "un", Op: "-", A: small(1)}
		}
		if abs.Sign() > 0 && new(big.Int).And(abs, new(big.Int).Sub(abs, one)).Sign() == 0 {
			m["shift"] = bin("<<", sign, small(int64(abs.BitLen()-1)))
		} else {
			p1 := new(big.Int).Add(v, one)
			ap := new(big.Int).Abs(p1)
			if ap.Sign() > 0 && new(big.Int).And(ap, new(big.Int).Sub(ap, one)).Sign() == 0 {
				s1 := small(1)
				var sg *cx = s1
				if p1.Sign() < 0 {
					sg = &cx{K: "un", Op: "-", A: small(1)}
				}
				m["shift"] = bin("-", bin("<<", sg, small(int64(ap.BitLen()-1))), small(1))
			}
		}
		return m
	}
	order := []string{"literal", "unary", "negneg", "binary", "paren", "shift"}
	for _, t := range c03IntTypes {
		n := bitsOf(t)
		var min, max *big.Int
		if isUintT(t) {
			min, max = big.NewInt(0), new(big.Int).Sub(pow(n), one)
		} else {
			min, max = new(big.Int).Neg(pow(n-1)), new(big.Int).Sub(pow(n-1), one)
		}
		seen := map[string]bool{}
		var vals []*big.Int
		for _, v := range []*big.Int{max, new(big.Int).Add(max, one), min, new(big.Int).Sub(min, one),
			new(big.Int).Sub(pow(63), one), pow(63), new(big.Int).Sub(pow(64), one), pow(64)} {
			if !seen[v.String()] {
				seen[v.String()] = true
				vals = append(vals, v)
			}
		}
		for _, v := range vals {
			sh := shapes(v)
			for _, name := range order {
				e, ok := sh[name]
				if !ok {
					continue
				}
				spec := func(kind, dt string, x *cx) *c03prog {
					return &c03prog{Kind: kind, Groups: [][]c03spec{{{Names: []int{1}, Type: dt, Exprs: []*cx{x}}}}, Paren: []bool{false}}
				}
				conv := &cx{K: "conv", T: t, A: e}
				progs = append(progs, spec("const-global", t, e), &c03prog{Kind: "expr", E: conv})
				if name == "unary" || name == "negneg" {
					continue // same path as the bare literal: two contexts are enough
				}
				progs = append(progs,
					spec("const-local", t, e),
					&c03prog{Kind: "var", VarT: t, E: e},
					spec("const-global", "", conv))
			}
			// iota block: the third spec repeats the expression of the first and reaches v
			for _, kind := range []string{"const-global", "const-local"} {
				e := bin("+", lit(new(big.Int).Sub(v, big.NewInt(2))), &cx{K: "iota"})
				progs = append(progs, &c03prog{Kind: kind, Paren: []bool{true}, Hide: map[int]bool{1: true, 2: true},
					Groups: [][]c03spec{{{Names: []int{1}, Type: t, Exprs: []*cx{e}}, {Names: []int{2}}, {Names: []int{3}}}}})
			}
		}
	}
	return progs
}

func runC03(args []string) error {
	fs := flag.NewFlagSet("c03", flag.ExitOnError)
	out := fs.String("out", "/verif/build/C03", "output directory")
	tier := fs.String("tier", "quick", "quick|thorough")
	seed := fs.Uint64("seed", envSeed(), "seed")
	dump := fs.Bool("dump", false, "print every case (debugging)")
	single := fs.Bool("single", false, "debugging: one declaration per program")
	maxDepth := fs.Int("depth", 5, "maximal expression depth")
	count := fs.Int("n", 0, "number of main-stream cases (0 = tier default)")
	srcFile := fs.String("src", "", "debugging: analyse one program (Go source file) and print what yaegi and the reference say")
	fs.Parse(args)
	if *srcFile != "" {
		b, err := os.ReadFile(*srcFile)
		if err != nil {
			return err
		}
		ref, err := c03Reference(string(b))
		if err != nil {
			return err
		}
		facts := c03Analyze(ref)
		impl := c03RunYaegi(string(b))
		fmt.Printf("region: %q\ndiscard: %q\nfeatures: %v\nyaegi: %s %s\nreference: %s %s\ncoq: %s\n", c03Region(facts), facts.Discard, facts.Feats, impl.String(), impl.Note, ref.Out.String(), ref.Out.Note, ref.Prog.coq())
		return nil
	}
	if err := os.MkdirAll(*out, 0o755); err != nil {
		return err
	}
	sm := newSummary("C03")
	distinct := distinctSet{}
	nMain, nRegion := 1300, 40
	if *tier == "thorough" {
		nMain, nRegion = 80000, 1500
	}
	if *count > 0 {
		nMain = *count
	}
	if _, err := (c03Importer{}).Import("fmt"); err != nil {
		return fmt.Errorf("reference importer: %v", err)
	}

	// region labels (see c03Region): typed-overflow-wrap signed-bitlen typed-divzero float-negzero const-compare
	// decl-type-propagation multipass-propagation conv-requantized quo-no-unify float-shift iota-multi
	streamCount := map[string]int{}
	want := func(region string) bool {
		if region == "" {
			return streamCount[""] < nMain
		}
		return streamCount[region] < nRegion
	}
	var cases []*c03case
	seen := map[string]bool{}
	// candidates are checked by the reference in parallel, then filed in their stream in generation order
	type cand struct {
		p   *c03prog
		src string
		ref *c03ref
		err error
	}
	prepare := func(ps []*c03prog) []*cand {
		cs := make([]*cand, len(ps))
		for i, p := range ps {
			cs[i] = &cand{p: p, src: p.source()}
		}
		parallelMap(len(cs), 0, func(i int) {
			cs[i].ref, cs[i].err = c03Reference(cs[i].src)
		})
		return cs
	}
	// admit applies the exclusion rules and files the case in its stream
	admit := func(stream string, c *cand) error {
		p, src, ref := c.p, c.src, c.ref
		if seen[src] {
			return nil
		}
		seen[src] = true
		if c.err != nil {
			return fmt.Errorf("reference: %v\n%s", c.err, src)
		}
		if ref.Out.Class == "rejected" && refErrorClass(ref.Errs[0]) == "" {
			sm.count("discarded:ill-typed")
			if *dump {
				fmt.Fprintf(os.Stderr, "DISCARD %s\n%s\n", ref.Errs[0], src)
			}
			return nil
		}
		if !ref.Exact || ref.MaxBit > 3000 {
			sm.count("discarded:inexact")
			return nil
		}
		facts := c03Analyze(ref)
		region := c03Region(facts)
		if v, t, ok := c03LiteralForm(ref.Prog); ok {
			// yaegi checks these forms with representableConst: no infinity can arise, and the only
			// defect is the bound of the narrow signed types
			facts.Discard = ""
			region = ""
			if signedBitlenZone(v, t) {
				region = "signed-bitlen"
			}
		}
		if stream == "rounding" {
			// constants meet a float type only through representableConst / convertConst (or, for a typed
			// declaration of an expression, through convertConstantValue): no machine arithmetic on floats
			facts.Discard = ""
		}
		if facts.Discard != "" {
			sm.count("discarded:unmodelled")
			return nil
		}
		if stream != "boundary" && stream != "rounding" && stream != "shapes" {
			if !want(region) {
				return nil
			}
			streamCount[region]++
		}
		cases = append(cases, &c03case{Stream: stream, Prog: p, Src: src, Ref: ref, Region: region})
		return nil
	}

	// enumerated boundary literals of every integer width, float limits, zero divisors, shift counts
	for _, c := range prepare(c03Boundary()) {
		if err := admit("boundary", c); err != nil {
			return err
		}
	}
	for _, c := range prepare(c03Shapes()) {
		if err := admit("shapes", c); err != nil {
			return err
		}
	}
	for _, c := range prepare(c03Rounding(*tier == "thorough")) {
		if err := admit("rounding", c); err != nil {
			return err
		}
	}
	nBoundary := len(cases)
	// seeded streams: the main stream (no feature of a known finding) and one small stream per region
	g := &c03gen{r: c03Rng(*seed), cmp: true, typed: true, floats: true, bigLits: true, maxShift: 210, single: *single}
	for attempts := 0; streamCount[""] < nMain && attempts < 40*nMain; {
		var batch []*c03prog
		for len(batch) < 512 {
			attempts++
			if attempts%40 == 39 {
				batch = append(batch, g.multiName())
			} else {
				batch = append(batch, g.program(1+g.r.intn(*maxDepth)))
			}
		}
		for _, c := range prepare(batch) {
			if streamCount[""] >= nMain {
				break
			}
			if err := admit("seeded", c); err != nil {
				return err
			}
		}
	}
	// ---- the enlarged proved fragment (harness/c03float.go): untyped int / rune / float trees, typed destinations
	nFrag, nFragFull := 3400, 1000
	if *tier == "thorough" {
		nFrag, nFragFull = 60000, 30000
	}
	fst := c03fragStats{sm}
	fg := &c03gen{r: c03Rng(*seed ^ 0x9e3779b97f4a7c15), floats: true, bigLits: true, maxShift: 210, extreme: true}
	fcs := fg.c03FloatFrag(nFrag, 6, fst)
	exacts := make([]*c03exact, len(fcs))
	exErrs := make([]error, len(fcs))
	parallelMap(len(fcs), 0, func(i int) { exacts[i], exErrs[i] = c03ExactRef(fcs[i].tree) })
	exOK := func(ex *c03exact) bool {
		if ex.Rejected && fragRejectClass(ex.Err) == "" {
			sm.count("discarded:ill-typed")
			return false
		}
		if !ex.Exact || ex.MaxBit > 3000 {
			sm.count("discarded:inexact")
			return false
		}
		return true
	}
	// exact level: every tree
	var glines []string
	var gIndex []map[string]any
	seenTree := map[string]bool{}
	for i, ex := range exacts {
		if exErrs[i] != nil {
			return fmt.Errorf("exact reference: %v\n%s", exErrs[i], fcs[i].tree.src())
		}
		ts := ex.Tree.src()
		if seenTree[ts] {
			continue
		}
		seenTree[ts] = true
		if !exOK(ex) {
			continue
		}
		fragMeasure(sm, ex)
		glines = append(glines, fmt.Sprintf("%s, %s)", ex.Tree.coq(), ex.coq()))
		res := "rejected: " + ex.Err
		if !ex.Rejected {
			if ex.Q != nil {
				res = "untyped float " + ex.Q.RatString()
			} else {
				res = "untyped " + ex.Kind + " " + ex.Z.String()
			}
		}
		gIndex = append(gIndex, map[string]any{"kind": "exact value of an untyped tree (const K = e)", "source": ts, "reference": res})
	}
	// program level: the first nFragFull of them are also run by yaegi (printed expression, conversion, typed variable)
	var fprogs []*c03prog
	for _, fc := range fcs[:nFragFull] {
		fprogs = append(fprogs, fc.p)
	}
	for i, c := range prepare(fprogs) {
		ex := exacts[i]
		if c.err != nil {
			return fmt.Errorf("reference: %v\n%s", c.err, c.src)
		}
		if seen[c.src] {
			continue
		}
		seen[c.src] = true
		ref := c.ref
		if ref.Out.Class == "rejected" && fragRejectClass(ref.Errs[0]) == "" {
			sm.count("discarded:ill-typed")
			if *dump {
				fmt.Fprintf(os.Stderr, "DISCARD %v\n%s\n", ref.Errs, c.src)
			}
			continue
		}
		if !ref.Exact || ref.MaxBit > 3000 || !ex.Exact || ex.MaxBit > 3000 || ex.Rejected && fragRejectClass(ex.Err) == "" {
			sm.count("discarded:inexact")
			continue
		}
		// the untyped tree is folded by go/constant in yaegi and meets a type only through
		// representableConst / convertConst: no machine arithmetic on floats, no infinity
		facts := c03Analyze(ref)
		region := c03Region(facts)
		stream := "floatfrag"
		if v, t, ok := c03LiteralForm(ref.Prog); ok {
			region = ""
			if signedBitlenZone(v, t) {
				region = "signed-bitlen"
			}
		}
		if ref.Prog.E.K == "conv" || ref.Prog.Kind == "var" {
			stream = "floatdest"
			t := ref.Prog.VarT
			if ref.Prog.E.K == "conv" {
				t = ref.Prog.E.T
			}
			if !ex.Rejected {
				v := ex.Q
				if v == nil {
					v = new(big.Rat).SetInt(ex.Z)
				}
				if signedBitlenZone(v, t) {
					region = "signed-bitlen"
				}
			}
		}
		// a negative constant that is not zero and rounds to zero in its floating-point destination
		// (float64 for a printed untyped constant) becomes -0 in yaegi: region float-negzero
		if !ex.Rejected && ex.Q != nil && ex.Q.Sign() < 0 {
			dest := ""
			switch {
			case ref.Prog.Kind == "var":
				dest = ref.Prog.VarT
			case ref.Prog.E.K == "conv":
				dest = ref.Prog.E.T
			default:
				dest = "float64"
			}
			zero := false
			switch dest {
			case "float64":
				f, _ := ex.Q.Float64()
				zero = f == 0
			case "float32":
				f, _ := ex.Q.Float32()
				zero = f == 0
			}
			if zero {
				region = "float-negzero"
			}
		}
		if !ex.Rejected && ex.Q != nil && ex.Q.Sign() != 0 {
			if f, _ := ex.Q.Float64(); f == 0 {
				sm.count("frag:program-result:below-denormal")
			} else if math.IsInf(f, 0) {
				sm.count("frag:program-result:above-maxfloat64")
			}
		}
		cases = append(cases, &c03case{Stream: stream, Prog: c.p, Src: c.src, Ref: ref, Region: region})
	}

	parallelMap(len(cases), 0, func(i int) {
		cases[i].Impl = c03RunYaegi(cases[i].Src)
	})

	var lines []string
	nontrivial := 0
	for i, c := range cases {
		id := i + 1
		in := map[string]any{"stream": c.Stream, "kind": c.Ref.Prog.Kind, "source": c.Src}
		sm.CaseIndex[fmt.Sprint(id)] = map[string]any{"source": c.Src, "region": c.Region, "yaegi": c.Impl.String(), "yaegi_note": c.Impl.Note, "reference": c.Ref.Out.String(), "ref_note": c.Ref.Out.Note}
		lines = append(lines, fmt.Sprintf("(%d%%N, %s, %s, %s)", id, c.Ref.Prog.coq(), c.Impl.coq(), c.Ref.Out.coq()))
		sm.Evaluations++
		sm.ImplComparisons++
		sm.RefComparisons++
		sm.count("stream:" + c.Stream)
		sm.count("kind:" + c.Ref.Prog.Kind)
		sm.count("ref:" + c.Ref.Out.Class)
		sm.count("impl:" + c.Impl.Class)
		if c.Region != "" {
			sm.count("region:" + c.Region)
		} else {
			sm.count("region:(none)")
		}
		if strings.ContainsAny(c.Src[strings.Index(c.Src, "\"fmt\"")+5:strings.Index(c.Src, "fmt.Printf")], "+-*/%&|^<>!") {
			distinct.add(c.Src)
			nontrivial++
		}
		if len(sm.Samples) < 6 && i >= nBoundary && (i-nBoundary)%9 == 0 {
			sm.Samples = append(sm.Samples, in)
		}
		if c.Impl.String() != c.Ref.Out.String() {
			sm.RefMismatches = append(sm.RefMismatches, refMismatch{ID: id, Region: c.Region, Input: in, Impl: c.Impl.String() + " " + c.Impl.Note, Ref: c.Ref.Out.String() + " " + c.Ref.Out.Note})
		}
		if *dump {
			fmt.Fprintf(os.Stderr, "CASE %d [%s]\n%s  yaegi: %s %s\n  ref:   %s %s\n", id, c.Region, c.Src, c.Impl.String(), c.Impl.Note, c.Ref.Out.String(), c.Ref.Out.Note)
		}
	}

	hdr := "From Verif Require Import Const.Model Const.Cases.\n"
	per := (len(lines) + 15) / 16
	if per < 100 {
		per = 100
	}
	if per > 400 {
		per = 400
	}
	for i, k := 0, 0; i < len(lines); i, k = i+per, k+1 {
		j := i + per
		if j > len(lines) {
			j = len(lines)
		}
		body := fmt.Sprintf("Definition cases : list prog_case := [\n%s\n].\nDefinition MY := Eval vm_compute in prog_mis_y cases.\nPrint MY.\nDefinition MG := Eval vm_compute in prog_mis_g cases.\nPrint MG.\n", strings.Join(lines[i:j], ";\n"))
		name := fmt.Sprintf("cases_prog_%d.v", k)
		sm.CasesFiles = append(sm.CasesFiles, name)
		if err := os.WriteFile(filepath.Join(*out, name), []byte(hdr+body), 0o644); err != nil {
			return err
		}
	}

	// ---- function level: representableConst and convertConst on the boundary grid (exhaustive)
	var rlines []string
	rid := len(cases)
	for _, c := range c03ReprGrid() {
		for _, t := range c03Types {
			rid++
			rt := c03ReflectTypes[t]
			implRepr := interp.VerifRepresentableConst(c.value(), rt)
			v, cerr, panicked := interp.VerifConvertConst(c.value(), rt)
			conv := c03out{Class: "printed"}
			switch {
			case panicked:
				conv = c03out{Class: "host-panic"}
			case cerr != nil:
				conv = c03out{Class: "rejected"}
			default:
				cv, ok := reflectToVal(v)
				if !ok {
					conv = c03out{Class: "other"} // infinity: outside the model
				} else {
					conv.Vals = []c03val{cv}
				}
			}
			refRepr := goRepresentable(c, t)
			in := map[string]any{"kind": "representableConst", "constant": c.value().ExactString(), "type": t}
			sm.CaseIndex[fmt.Sprint(rid)] = in
			rlines = append(rlines, fmt.Sprintf("(%d%%N, %s, %s, %s, %s, %s)", rid, c.coq(), coqBT(t), coqBool(implRepr), conv.coq(), coqBool(refRepr)))
			sm.Evaluations++
			sm.ImplComparisons++
			sm.RefComparisons++
			sm.count("function:representableConst")
			if implRepr != refRepr {
				region := ""
				if c.Z != nil && signedBitlenZone(new(big.Rat).SetInt(c.Z), t) || c.Q != nil && signedBitlenZone(c.Q, t) {
					region = "signed-bitlen"
				}
				sm.RefMismatches = append(sm.RefMismatches, refMismatch{ID: rid, Region: region, Input: in, Impl: implRepr, Ref: refRepr})
			}
		}
	}
	for i, k := 0, 0; i < len(rlines); i, k = i+450, k+1 {
		j := i + 450
		if j > len(rlines) {
			j = len(rlines)
		}
		body := fmt.Sprintf("Definition cases : list repr_case := [\n%s\n].\nDefinition MY := Eval vm_compute in repr_mis_y cases.\nPrint MY.\nDefinition MG := Eval vm_compute in repr_mis_g cases.\nPrint MG.\n", strings.Join(rlines[i:j], ";\n"))
		name := fmt.Sprintf("cases_repr_%d.v", k)
		sm.CasesFiles = append(sm.CasesFiles, name)
		if err := os.WriteFile(filepath.Join(*out, name), []byte(hdr+body), 0o644); err != nil {
			return err
		}
	}

	// ---- exact level: G.eval (and Y.eval) against the exact go/constant value of every tree of the fragment
	for i := range glines {
		rid++
		glines[i] = fmt.Sprintf("(%d%%N, ", rid) + glines[i]
		sm.CaseIndex[fmt.Sprint(rid)] = gIndex[i]
		sm.Evaluations++
		sm.RefComparisons++
		sm.count("function:exact-untyped-tree")
	}
	for i, k := 0, 0; i < len(glines); i, k = i+300, k+1 {
		j := i + 300
		if j > len(glines) {
			j = len(glines)
		}
		body := fmt.Sprintf("Definition cases : list geval_case := [\n%s\n].\nDefinition MY := Eval vm_compute in geval_mis_y cases.\nPrint MY.\nDefinition MG := Eval vm_compute in geval_mis_g cases.\nPrint MG.\n", strings.Join(glines[i:j], ";\n"))
		name := fmt.Sprintf("cases_geval_%d.v", k)
		sm.CasesFiles = append(sm.CasesFiles, name)
		if err := os.WriteFile(filepath.Join(*out, name), []byte(hdr+body), 0o644); err != nil {
			return err
		}
	}

	sm.DistinctNontriv = len(distinct)
	sm.Rule = "programs: enumerated boundary literals of every integer width, float limits, zero divisors and shift counts in every declaration form, plus seeded constant-expression programs (const groups at package level and in functions with iota and implicit repetition, var declarations, printed expressions; trees of seed-chosen depth over integer literals up to 2^200, runes, decimal floats, strings, booleans, every operator, conversions to every basic type, len); function level: representableConst and convertConst on a grid of boundary constants x every basic type (exhaustive over the grid). distinct = distinct source texts; non-trivial = the program contains at least one operator"
	sm.Notes = append(sm.Notes, fmt.Sprintf("%d boundary programs, %d seeded programs (%d in the main stream), %d function-level cases; %d of the programs are non-trivial; enlarged proved fragment: %d untyped int/rune/float trees checked exactly against go/constant (kind and value), each also run by yaegi in a printed expression, a conversion or a typed variable", nBoundary, len(cases)-nBoundary, streamCount[""], len(rlines), nontrivial, len(glines)))
	_ = sort.Strings
	_ = utf8.RuneLen
	return sm.write(*out)
}
