package main

import (
	"bytes"
	"flag"
	"fmt"
	"go/ast"
	"go/constant"
	"go/importer"
	"go/parser"
	"go/token"
	"go/types"
	"math"
	"math/big"
	"os"
	"path/filepath"
	"reflect"
	"sort"
	"strconv"
	"strings"
	"sync"
	"unicode/utf8"

	"github.com/traefik/yaegi/interp"
	"github.com/traefik/yaegi/stdlib"
)

// C03: constant expressions.
//   impl  = yaegi evaluating a tiny program that prints constants with %T and %v (interp.Eval)
//   ref   = go/types + go/constant on the same source (accept/reject, exact value, type)
//   Y, G  = coq/Const/YaegiConst.v, coq/Const/ConstSem.v evaluated by coqc on the cases files written here
//
// One AST type (cx) with two printers: Go source and Gallina term. The Gallina term is printed from
// the tree that go/parser returns for the printed source, so that model and implementation see the
// same tree (parentheses are nodes: yaegi copies type and value at a parenExpr).

func init() {
	register("c03", "C03 constant expressions: generate cases, run yaegi and the go/types reference", runC03)
}

// ---------------------------------------------------------------- AST

type cx struct {
	K    string   // int rune float str bool iota ref paren un bin conv len
	Z    *big.Int // int, rune
	Q    *big.Rat // float
	S    string   // str
	B    bool     // bool
	Ref  int      // ref
	Op   string   // un, bin
	T    string   // conv
	A, C *cx      // operands
	Lit  string   // source text of a literal (generator side)
}

var c03Types = []string{"int", "int8", "int16", "int32", "int64", "uint", "uint8", "uint16", "uint32", "uint64", "uintptr", "float32", "float64", "string", "bool"}
var c03IntTypes = c03Types[:11]

func coqBT(t string) string {
	return "T" + strings.ToUpper(t[:1]) + t[1:]
}

func isIntT(t string) bool   { return strings.HasPrefix(t, "int") || strings.HasPrefix(t, "uint") }
func isUintT(t string) bool  { return strings.HasPrefix(t, "uint") }
func isFloatT(t string) bool { return strings.HasPrefix(t, "float") }
func bitsOf(t string) int {
	switch t {
	case "int8", "uint8":
		return 8
	case "int16", "uint16":
		return 16
	case "int32", "uint32":
		return 32
	}
	return 64
}

func coqBigZ(z *big.Int) string { return "(" + z.String() + ")%Z" }

func coqQ(q *big.Rat) string {
	return "(Qmake (" + q.Num().String() + ")%Z (" + q.Denom().String() + ")%positive)"
}

func coqBytes(s string) string {
	safe := true
	for i := 0; i < len(s); i++ {
		if s[i] < 0x20 || s[i] > 0x7e || s[i] == '"' {
			safe = false
		}
	}
	if safe {
		return coqStr(s)
	}
	var it []string
	for i := 0; i < len(s); i++ {
		it = append(it, strconv.Itoa(int(s[i])))
	}
	return "(sb [" + strings.Join(it, "; ") + "])"
}

var c03UnOps = map[string]string{"+": "UPos", "-": "UNeg", "^": "UXor", "!": "UNot"}
var c03BinOps = map[string]string{"+": "BAdd", "-": "BSub", "*": "BMul", "/": "BQuo", "%": "BRem", "&": "BAnd", "|": "BOr", "^": "BXor", "&^": "BAndNot",
	"<<": "BShl", ">>": "BShr", "==": "BEq", "!=": "BNe", "<": "BLt", "<=": "BLe", ">": "BGt", ">=": "BGe", "&&": "BLand", "||": "BLor"}

func (e *cx) coq() string {
	switch e.K {
	case "int":
		return "(EInt " + coqBigZ(e.Z) + ")"
	case "rune":
		return "(ERune " + coqBigZ(e.Z) + ")"
	case "float":
		return "(EFloat " + coqQ(e.Q) + ")"
	case "str":
		return "(EStr " + coqBytes(e.S) + ")"
	case "bool":
		return "(EBool " + coqBool(e.B) + ")"
	case "iota":
		return "EIota"
	case "ref":
		return fmt.Sprintf("(ERef %d%%N)", e.Ref)
	case "paren":
		return "(EParen " + e.A.coq() + ")"
	case "un":
		return "(EUn " + c03UnOps[e.Op] + " " + e.A.coq() + ")"
	case "bin":
		return "(EBin " + c03BinOps[e.Op] + " " + e.A.coq() + " " + e.C.coq() + ")"
	case "conv":
		return "(EConv " + coqBT(e.T) + " " + e.A.coq() + ")"
	case "len":
		return "(ELen " + e.A.coq() + ")"
	}
	panic("cx.coq: " + e.K)
}

func binPrec(op string) int {
	switch op {
	case "*", "/", "%", "<<", ">>", "&", "&^":
		return 5
	case "+", "-", "|", "^":
		return 4
	case "==", "!=", "<", "<=", ">", ">=":
		return 3
	case "&&":
		return 2
	}
	return 1
}

// src prints the expression as Go source, adding the parentheses that precedence requires.
func (e *cx) src() string {
	switch e.K {
	case "int", "rune", "float", "str":
		return e.Lit
	case "bool":
		if e.B {
			return "true"
		}
		return "false"
	case "iota":
		return "iota"
	case "ref":
		return fmt.Sprintf("c%d", e.Ref)
	case "paren":
		return "(" + e.A.src() + ")"
	case "un":
		a := e.A.src()
		if e.A.K == "bin" || e.A.K == "un" {
			a = "(" + a + ")"
		}
		return e.Op + a
	case "bin":
		a, c := e.A.src(), e.C.src()
		p := binPrec(e.Op)
		if e.A.K == "bin" && binPrec(e.A.Op) < p {
			a = "(" + a + ")"
		}
		if e.C.K == "bin" && binPrec(e.C.Op) <= p {
			c = "(" + c + ")"
		}
		return a + " " + e.Op + " " + c
	case "conv":
		return e.T + "(" + e.A.src() + ")"
	case "len":
		return "len(" + e.A.src() + ")"
	}
	panic("cx.src: " + e.K)
}

// fromAST converts the tree go/parser built for the printed source back into a cx.
func fromAST(x ast.Expr) (*cx, error) {
	switch a := x.(type) {
	case *ast.BasicLit:
		switch a.Kind {
		case token.INT:
			v := constant.MakeFromLiteral(a.Value, token.INT, 0)
			z, ok := constant.Val(v).(*big.Int)
			if !ok {
				i, _ := constant.Int64Val(v)
				z = big.NewInt(i)
			}
			return &cx{K: "int", Z: z, Lit: a.Value}, nil
		case token.CHAR:
			r, _, _, err := strconv.UnquoteChar(a.Value[1:len(a.Value)-1], '\'')
			if err != nil {
				return nil, err
			}
			return &cx{K: "rune", Z: big.NewInt(int64(r)), Lit: a.Value}, nil
		case token.FLOAT:
			q, ok := new(big.Rat).SetString(a.Value)
			if !ok {
				return nil, fmt.Errorf("float literal %s", a.Value)
			}
			return &cx{K: "float", Q: q, Lit: a.Value}, nil
		case token.STRING:
			s, err := strconv.Unquote(a.Value)
			if err != nil {
				return nil, err
			}
			return &cx{K: "str", S: s, Lit: a.Value}, nil
		}
	case *ast.Ident:
		switch {
		case a.Name == "true" || a.Name == "false":
			return &cx{K: "bool", B: a.Name == "true"}, nil
		case a.Name == "iota":
			return &cx{K: "iota"}, nil
		case strings.HasPrefix(a.Name, "c"):
			n, err := strconv.Atoi(a.Name[1:])
			if err != nil {
				return nil, err
			}
			return &cx{K: "ref", Ref: n}, nil
		}
	case *ast.ParenExpr:
		c, err := fromAST(a.X)
		if err != nil {
			return nil, err
		}
		return &cx{K: "paren", A: c}, nil
	case *ast.UnaryExpr:
		c, err := fromAST(a.X)
		if err != nil {
			return nil, err
		}
		return &cx{K: "un", Op: a.Op.String(), A: c}, nil
	case *ast.BinaryExpr:
		l, err := fromAST(a.X)
		if err != nil {
			return nil, err
		}
		r, err := fromAST(a.Y)
		if err != nil {
			return nil, err
		}
		return &cx{K: "bin", Op: a.Op.String(), A: l, C: r}, nil
	case *ast.CallExpr:
		if id, ok := a.Fun.(*ast.Ident); ok && len(a.Args) == 1 {
			c, err := fromAST(a.Args[0])
			if err != nil {
				return nil, err
			}
			if id.Name == "len" {
				return &cx{K: "len", A: c}, nil
			}
			return &cx{K: "conv", T: id.Name, A: c}, nil
		}
	}
	return nil, fmt.Errorf("unsupported syntax %T", x)
}

// ---------------------------------------------------------------- programs

type c03spec struct {
	Names []int // 0 = _
	Type  string
	Exprs []*cx
}

type c03prog struct {
	Kind   string // const-global const-local var expr
	Groups [][]c03spec
	Paren  []bool // group printed as const ( ... )
	VarT   string
	E      *cx
}

func (p *c03prog) shown() []int {
	var l []int
	for _, g := range p.Groups {
		for _, s := range g {
			for _, n := range s.Names {
				if n != 0 {
					l = append(l, n)
				}
			}
		}
	}
	return l
}

func (p *c03prog) source() string {
	var b strings.Builder
	b.WriteString("package main\n\nimport \"fmt\"\n\n")
	decls := func(indent string) {
		for gi, g := range p.Groups {
			specSrc := func(s c03spec) string {
				var names []string
				for _, n := range s.Names {
					if n == 0 {
						names = append(names, "_")
					} else {
						names = append(names, fmt.Sprintf("c%d", n))
					}
				}
				l := strings.Join(names, ", ")
				if len(s.Exprs) > 0 {
					if s.Type != "" {
						l += " " + s.Type
					}
					var es []string
					for _, e := range s.Exprs {
						es = append(es, e.src())
					}
					l += " = " + strings.Join(es, ", ")
				}
				return l
			}
			if p.Paren[gi] {
				b.WriteString(indent + "const (\n")
				for _, s := range g {
					b.WriteString(indent + "\t" + specSrc(s) + "\n")
				}
				b.WriteString(indent + ")\n")
			} else {
				b.WriteString(indent + "const " + specSrc(g[0]) + "\n")
			}
		}
	}
	switch p.Kind {
	case "const-global":
		decls("")
		b.WriteString("\nfunc main() {\n")
	case "const-local":
		b.WriteString("func main() {\n")
		decls("\t")
	case "var":
		b.WriteString("func main() {\n")
		if p.VarT != "" {
			b.WriteString("\tvar v " + p.VarT + " = " + p.E.src() + "\n")
		} else {
			b.WriteString("\tvar v = " + p.E.src() + "\n")
		}
		b.WriteString("\tfmt.Printf(\"%T|%v\\n\", v, v)\n")
	case "expr":
		b.WriteString("func main() {\n")
		b.WriteString("\tfmt.Printf(\"%T|%v\\n\", " + p.E.src() + ", " + p.E.src() + ")\n")
	}
	for _, n := range p.shown() {
		fmt.Fprintf(&b, "\tfmt.Printf(\"%%T|%%v\\n\", c%d, c%d)\n", n, n)
	}
	b.WriteString("}\n")
	return b.String()
}

// ---------------------------------------------------------------- observations

type c03val struct {
	T string
	// exactly one of
	Z *big.Int
	Q *big.Rat
	S *string
	B *bool
	NZ bool // the floating-point value -0
}

func (v c03val) coq() string {
	switch {
	case v.NZ:
		return "(" + coqBT(v.T) + ", ONZ)"
	case v.Z != nil:
		return "(" + coqBT(v.T) + ", OI " + coqBigZ(v.Z) + ")"
	case v.Q != nil:
		return "(" + coqBT(v.T) + ", OF " + coqQ(v.Q) + ")"
	case v.S != nil:
		return "(" + coqBT(v.T) + ", OS " + coqBytes(*v.S) + ")"
	default:
		return "(" + coqBT(v.T) + ", OB " + coqBool(*v.B) + ")"
	}
}

func (v c03val) String() string {
	switch {
	case v.NZ:
		return v.T + "|-0"
	case v.Z != nil:
		return v.T + "|" + v.Z.String()
	case v.Q != nil:
		return v.T + "|" + v.Q.RatString()
	case v.S != nil:
		return v.T + "|" + strconv.Quote(*v.S)
	default:
		return v.T + "|" + fmt.Sprint(*v.B)
	}
}

type c03out struct {
	Class string // printed rejected host-panic other
	Vals  []c03val
	Note  string
}

func (o c03out) coq() string {
	switch o.Class {
	case "printed":
		var it []string
		for _, v := range o.Vals {
			it = append(it, v.coq())
		}
		return "(Printed [" + strings.Join(it, "; ") + "])"
	case "rejected":
		return "Rejected"
	case "host-panic":
		return "HostPanic"
	}
	return "Unmodelled"
}

func (o c03out) String() string {
	if o.Class != "printed" {
		if o.Class == "other" {
			return "other:" + o.Note
		}
		return o.Class
	}
	var it []string
	for _, v := range o.Vals {
		it = append(it, v.String())
	}
	return strings.Join(it, "; ")
}

func isBasicName(t string) bool {
	for _, x := range c03Types {
		if x == t {
			return true
		}
	}
	return false
}

// parsePrinted parses the lines "type|value" printed by the program.
func parsePrinted(stdout string) ([]c03val, error) {
	var vals []c03val
	for _, l := range strings.Split(strings.TrimSuffix(stdout, "\n"), "\n") {
		i := strings.IndexByte(l, '|')
		if i < 0 {
			return nil, fmt.Errorf("line %q", l)
		}
		t, v := l[:i], l[i+1:]
		if !isBasicName(t) {
			return nil, fmt.Errorf("type %q", t)
		}
		cv := c03val{T: t}
		switch {
		case isIntT(t):
			z, ok := new(big.Int).SetString(v, 10)
			if !ok {
				return nil, fmt.Errorf("int %q", v)
			}
			cv.Z = z
		case isFloatT(t):
			bs := 64
			if t == "float32" {
				bs = 32
			}
			f, err := strconv.ParseFloat(v, bs)
			if err != nil || math.IsInf(f, 0) || math.IsNaN(f) {
				return nil, fmt.Errorf("float %q", v)
			}
			if f == 0 && math.Signbit(f) {
				cv.NZ = true
			} else {
				cv.Q = new(big.Rat).SetFloat64(f)
			}
		case t == "string":
			s := v
			cv.S = &s
		default:
			bv := v == "true"
			if v != "true" && v != "false" {
				return nil, fmt.Errorf("bool %q", v)
			}
			cv.B = &bv
		}
		vals = append(vals, cv)
	}
	return vals, nil
}

// c03RunYaegi evaluates the program with interp.Eval (the plain API: a panic inside the
// interpreter is a crash of the host).
func c03RunYaegi(src string) (o c03out) {
	var stdout, stderr bytes.Buffer
	defer func() {
		if r := recover(); r != nil {
			o = c03out{Class: "host-panic", Note: firstLine(fmt.Sprint(r))}
		}
	}()
	i := interp.New(interp.Options{Stdout: &stdout, Stderr: &stderr})
	if err := i.Use(stdlib.Symbols); err != nil {
		return c03out{Class: "other", Note: "use: " + err.Error()}
	}
	_, err := i.Eval(src)
	if err != nil {
		if stdout.Len() > 0 {
			return c03out{Class: "other", Note: "error after output: " + firstLine(err.Error())}
		}
		return c03out{Class: "rejected", Note: firstLine(err.Error())}
	}
	vals, perr := parsePrinted(stdout.String())
	if perr != nil {
		return c03out{Class: "other", Note: "output: " + perr.Error() + ": " + firstLine(stdout.String())}
	}
	return c03out{Class: "printed", Vals: vals}
}

// ---------------------------------------------------------------- reference: go/types + go/constant

var (
	c03ImpOnce sync.Once
	c03FmtPkg  *types.Package
	c03ImpErr  error
)

type c03Importer struct{}

func (c03Importer) Import(path string) (*types.Package, error) {
	c03ImpOnce.Do(func() {
		c03FmtPkg, c03ImpErr = importer.ForCompiler(token.NewFileSet(), "source", nil).Import("fmt")
	})
	if path != "fmt" {
		return nil, fmt.Errorf("unexpected import %q", path)
	}
	return c03FmtPkg, c03ImpErr
}

type c03ref struct {
	Out    c03out
	Errs   []string
	Info   *types.Info
	File   *ast.File
	Prog   *c03progModel
	Exact  bool // every constant value met stayed in go/constant's exact (rational) regime
	MaxBit int
}

// c03progModel is the program as parsed back from its source (what the Coq cases are printed from).
type c03progModel struct {
	Kind   string
	Groups [][]c03spec
	VarT   string
	E      *cx
	// ast expressions, parallel to Groups/E, for the region analysis
	GroupX [][][]ast.Expr
	EX     ast.Expr
}

func constToVal(t types.Type, v constant.Value) (c03val, error) {
	b, ok := t.Underlying().(*types.Basic)
	if !ok {
		return c03val{}, fmt.Errorf("type %v", t)
	}
	name := b.Name()
	if name == "byte" {
		name = "uint8"
	}
	if name == "rune" {
		name = "int32"
	}
	cv := c03val{T: name}
	switch {
	case b.Info()&types.IsInteger != 0:
		x := constant.ToInt(v)
		if x.Kind() != constant.Int {
			return cv, fmt.Errorf("not an integer %v", v)
		}
		switch z := constant.Val(x).(type) {
		case *big.Int:
			cv.Z = z
		case int64:
			cv.Z = big.NewInt(z)
		}
	case b.Info()&types.IsFloat != 0:
		x := constant.ToFloat(v)
		var f float64
		if name == "float32" {
			f32, _ := constant.Float32Val(x)
			f = float64(f32)
		} else {
			f, _ = constant.Float64Val(x)
		}
		if math.IsInf(f, 0) {
			return cv, fmt.Errorf("infinite")
		}
		cv.Q = new(big.Rat).SetFloat64(f)
	case b.Info()&types.IsString != 0:
		s := constant.StringVal(v)
		cv.S = &s
	case b.Info()&types.IsBoolean != 0:
		bv := constant.BoolVal(v)
		cv.B = &bv
	default:
		return cv, fmt.Errorf("kind %v", t)
	}
	return cv, nil
}

// c03Reference type-checks the program; when it is accepted the printed operands are computed from
// the constant values go/types recorded.
func c03Reference(src string) (*c03ref, error) {
	fset := token.NewFileSet()
	f, err := parser.ParseFile(fset, "main.go", src, 0)
	if err != nil {
		return nil, err
	}
	r := &c03ref{File: f, Exact: true}
	info := &types.Info{Types: map[ast.Expr]types.TypeAndValue{}, Defs: map[*ast.Ident]types.Object{}, Uses: map[*ast.Ident]types.Object{}}
	conf := types.Config{Importer: c03Importer{}, Error: func(err error) { r.Errs = append(r.Errs, err.Error()) }}
	conf.Check("main", fset, []*ast.File{f}, info)
	r.Info = info
	for _, tv := range info.Types {
		if tv.Value == nil {
			continue
		}
		switch x := constant.Val(tv.Value).(type) {
		case *big.Float:
			r.Exact = false
		case *big.Rat:
			if n := x.Num().BitLen(); n > r.MaxBit {
				r.MaxBit = n
			}
			if n := x.Denom().BitLen(); n > r.MaxBit {
				r.MaxBit = n
			}
		case *big.Int:
			if n := x.BitLen(); n > r.MaxBit {
				r.MaxBit = n
			}
		}
	}
	// the program as parsed
	pm := &c03progModel{}
	r.Prog = pm
	var mainFn *ast.FuncDecl
	addGroup := func(gd *ast.GenDecl) error {
		var g []c03spec
		var gx [][]ast.Expr
		for _, sp := range gd.Specs {
			vs := sp.(*ast.ValueSpec)
			s := c03spec{}
			for _, n := range vs.Names {
				if n.Name == "_" {
					s.Names = append(s.Names, 0)
				} else {
					k, err := strconv.Atoi(n.Name[1:])
					if err != nil {
						return err
					}
					s.Names = append(s.Names, k)
				}
			}
			if vs.Type != nil {
				s.Type = vs.Type.(*ast.Ident).Name
			}
			var xs []ast.Expr
			for _, v := range vs.Values {
				e, err := fromAST(v)
				if err != nil {
					return err
				}
				s.Exprs = append(s.Exprs, e)
				xs = append(xs, v)
			}
			g = append(g, s)
			gx = append(gx, xs)
		}
		pm.Groups = append(pm.Groups, g)
		pm.GroupX = append(pm.GroupX, gx)
		return nil
	}
	for _, d := range f.Decls {
		switch x := d.(type) {
		case *ast.GenDecl:
			if x.Tok == token.CONST {
				pm.Kind = "const-global"
				if err := addGroup(x); err != nil {
					return nil, err
				}
			}
		case *ast.FuncDecl:
			mainFn = x
		}
	}
	var printed []ast.Expr // first operand of every Printf
	for _, st := range mainFn.Body.List {
		switch x := st.(type) {
		case *ast.DeclStmt:
			gd := x.Decl.(*ast.GenDecl)
			if gd.Tok == token.CONST {
				pm.Kind = "const-local"
				if err := addGroup(gd); err != nil {
					return nil, err
				}
			} else {
				pm.Kind = "var"
				vs := gd.Specs[0].(*ast.ValueSpec)
				if vs.Type != nil {
					pm.VarT = vs.Type.(*ast.Ident).Name
				}
				e, err := fromAST(vs.Values[0])
				if err != nil {
					return nil, err
				}
				pm.E, pm.EX = e, vs.Values[0]
			}
		case *ast.ExprStmt:
			call := x.X.(*ast.CallExpr)
			printed = append(printed, call.Args[1])
		}
	}
	if pm.Kind == "" {
		pm.Kind = "expr"
		e, err := fromAST(printed[0])
		if err != nil {
			return nil, err
		}
		pm.E, pm.EX = e, printed[0]
	}
	if len(r.Errs) > 0 {
		r.Out = c03out{Class: "rejected", Note: r.Errs[0]}
		return r, nil
	}
	for _, px := range printed {
		tv, ok := info.Types[px]
		if !ok {
			return nil, fmt.Errorf("no type recorded for a printed operand")
		}
		t := tv.Type
		var v constant.Value
		if pm.Kind == "var" {
			// the variable holds the constant converted to its type
			v = info.Types[pm.EX].Value
		} else {
			v = tv.Value
		}
		if v == nil {
			return nil, fmt.Errorf("printed operand is not constant")
		}
		t = types.Default(t)
		cv, err := constToVal(t, v)
		if err != nil {
			return nil, err
		}
		r.Out.Vals = append(r.Out.Vals, cv)
	}
	r.Out.Class = "printed"
	return r, nil
}

// refErrorClass: is the first error one of the constant-semantics rejections the property talks about?
func refErrorClass(msg string) string {
	switch {
	case strings.Contains(msg, "division by zero"):
		return "divzero"
	case strings.Contains(msg, "overflows"):
		return "overflow"
	case strings.Contains(msg, "truncated"):
		return "truncated"
	case strings.Contains(msg, "shift count"):
		return "shiftcount"
	case strings.Contains(msg, "cannot convert") && strings.Contains(msg, "constant"):
		return "notrepresentable"
	case strings.Contains(msg, "cannot use") && strings.Contains(msg, "constant"):
		return "notrepresentable"
	}
	return ""
}

// ---------------------------------------------------------------- Gallina rendering of programs

func coqSpec(s c03spec) string {
	var names []string
	for _, n := range s.Names {
		names = append(names, fmt.Sprintf("%d%%N", n))
	}
	var es []string
	for _, e := range s.Exprs {
		es = append(es, e.coq())
	}
	return fmt.Sprintf("{| sp_names := [%s]; sp_type := %s; sp_exprs := [%s] |}", strings.Join(names, "; "), coqOpt(s.Type != "", coqBTsafe(s.Type)), strings.Join(es, "; "))
}

func coqBTsafe(t string) string {
	if t == "" {
		return "TInt"
	}
	return coqBT(t)
}

func (p *c03progModel) coq() string {
	switch p.Kind {
	case "const-global", "const-local":
		var gs []string
		var shown []string
		for _, g := range p.Groups {
			var ss []string
			for _, s := range g {
				ss = append(ss, coqSpec(s))
				for _, n := range s.Names {
					if n != 0 {
						shown = append(shown, fmt.Sprintf("%d%%N", n))
					}
				}
			}
			gs = append(gs, "["+strings.Join(ss, "; ")+"]")
		}
		return fmt.Sprintf("(PConst %s [%s] [%s])", coqBool(p.Kind == "const-global"), strings.Join(gs, "; "), strings.Join(shown, "; "))
	case "var":
		return fmt.Sprintf("(PVar %s %s)", coqOpt(p.VarT != "", coqBTsafe(p.VarT)), p.E.coq())
	}
	return "(PExpr " + p.E.coq() + ")"
}

// ---------------------------------------------------------------- generator

type gkind struct {
	U string // int rune float string bool ("" when typed)
	T string // basic type name when typed
}

func (k gkind) String() string {
	if k.T != "" {
		return k.T
	}
	return "untyped " + k.U
}

type c03env struct {
	consts []struct {
		id int
		k  gkind
	}
	iota  bool
	cdecl bool // inside a constant declaration: len allowed
}

type c03gen struct {
	r *rng
	// feature switches of the stream being generated
	cmp      bool // comparisons, && and || allowed
	typed    bool // typed operands allowed
	floats   bool
	bigLits  bool
	maxShift int
	single   bool // debugging: one declaration per program
}

func (g *c03gen) intLit() *cx {
	r := g.r
	var z *big.Int
	switch c := r.intn(100); {
	case c < 45:
		z = big.NewInt(int64(r.intn(20)))
	case c < 60:
		z = big.NewInt(int64(r.intn(300)))
	case c < 75 || !g.bigLits:
		k := []int{7, 8, 15, 16, 31, 32, 63, 64}[r.intn(8)]
		if !g.bigLits && k > 32 {
			k = 16
		}
		z = new(big.Int).Lsh(big.NewInt(1), uint(k))
		z.Add(z, big.NewInt(int64(r.intn(3)-1)))
	case c < 90:
		z = new(big.Int).SetUint64(r.next() >> uint(r.intn(64)))
	default:
		n := 65 + r.intn(136)
		z = big.NewInt(1)
		for z.BitLen() < n {
			z.Lsh(z, 32)
			z.Or(z, big.NewInt(int64(r.next()&0xffffffff)))
		}
		z.Rsh(z, uint(z.BitLen()-n))
	}
	lit := z.String()
	switch r.intn(12) {
	case 0:
		lit = "0x" + z.Text(16)
	case 1:
		if z.Sign() > 0 {
			lit = "0o" + z.Text(8)
		}
	case 2:
		lit = "0b" + z.Text(2)
	}
	return &cx{K: "int", Z: z, Lit: lit}
}

var c03Runes = []string{"'a'", "'A'", "'z'", "'0'", "' '", "'~'", "'\\n'", "'\\x00'", "'\\x7f'", "'\\u00e9'", "'\\u4e16'", "'\\U0001F600'", "'é'", "'世'", "'\\''", "'\\\\'"}

func (g *c03gen) runeLit() *cx {
	l := g.r.pick(c03Runes)
	v, _, _, _ := strconv.UnquoteChar(l[1:len(l)-1], '\'')
	return &cx{K: "rune", Z: big.NewInt(int64(v)), Lit: l}
}

func (g *c03gen) floatLit() *cx {
	r := g.r
	var lit string
	switch r.intn(8) {
	case 0:
		lit = fmt.Sprintf("%d.0", r.intn(20))
	case 1:
		lit = fmt.Sprintf("%d.%d", r.intn(100), r.intn(1000))
	case 2:
		lit = fmt.Sprintf("%d.5", r.intn(1000))
	case 3:
		lit = fmt.Sprintf("0.%d", 1+r.intn(99))
	case 4:
		lit = fmt.Sprintf("%de%d", 1+r.intn(9), r.intn(25))
	case 5:
		lit = fmt.Sprintf("%d.%de-%d", r.intn(10), r.intn(100), 1+r.intn(12))
	case 6:
		lit = fmt.Sprintf("%d.25", r.intn(64))
	default:
		lit = fmt.Sprintf("%d.%d", r.intn(10), r.intn(10))
	}
	q, _ := new(big.Rat).SetString(lit)
	return &cx{K: "float", Q: q, Lit: lit}
}

var c03Strs = []string{"", "a", "abc", "hello world", "x y", "é", "世界", "go", "0", "A-Z", "q~"}

func (g *c03gen) strLit() *cx {
	s := g.r.pick(c03Strs)
	return &cx{K: "str", S: s, Lit: strconv.Quote(s)}
}

func (g *c03gen) refOf(env *c03env, k gkind) *cx {
	var ids []int
	for _, c := range env.consts {
		if c.k == k {
			ids = append(ids, c.id)
		}
	}
	if len(ids) == 0 {
		return nil
	}
	return &cx{K: "ref", Ref: ids[g.r.intn(len(ids))]}
}

func isLeafCx(e *cx) bool {
	switch e.K {
	case "int", "rune", "float", "str", "bool", "iota", "ref":
		return true
	case "paren":
		return isLeafCx(e.A)
	}
	return false
}

// paren wraps e in parentheses unless e is a literal or an identifier: yaegi's fixUntyped writes
// the frame type at the index of a parenthesised literal (index 0, never allocated) and panics
// with an index out of range when the scope has no slot yet; that path is not generated.
func paren(e *cx) *cx {
	if isLeafCx(e) {
		return e
	}
	return &cx{K: "paren", A: e}
}

func (g *c03gen) maybeParen(e *cx) *cx {
	if g.r.chance(12) {
		return &cx{K: "paren", A: e}
	}
	return e
}

func (g *c03gen) shiftCount() *cx {
	r := g.r
	n := r.intn(12)
	switch c := r.intn(10); {
	case c < 2:
		n = r.intn(70)
	case c < 3:
		n = r.intn(g.maxShift + 1)
	}
	lit := &cx{K: "int", Z: big.NewInt(int64(n)), Lit: strconv.Itoa(n)}
	switch c := r.intn(20); {
	case c == 0 && g.floats:
		return &cx{K: "float", Q: new(big.Rat).SetInt64(int64(n)), Lit: fmt.Sprintf("%d.0", n)}
	case c == 1 && g.typed:
		return &cx{K: "conv", T: g.r.pick([]string{"uint", "uint8", "int", "uint64"}), A: lit}
	}
	return lit
}

var c03IntOps = []string{"+", "-", "*", "/", "%", "&", "|", "^", "&^"}
var c03FloatOps = []string{"+", "-", "*", "/"}
var c03CmpOps = []string{"==", "!=", "<", "<=", ">", ">="}

// gen returns an expression whose Go kind is k.
func (g *c03gen) gen(env *c03env, k gkind, depth int) *cx {
	r := g.r
	leaf := depth <= 0 || r.chance(22)
	if k.T == "" {
		switch k.U {
		case "int":
			if leaf {
				switch c := r.intn(10); {
				case c < 2 && env.iota:
					return &cx{K: "iota"}
				case c < 4:
					if e := g.refOf(env, k); e != nil {
						return e
					}
				}
				return g.intLit()
			}
			switch c := r.intn(100); {
			case c < 55:
				return g.maybeParen(&cx{K: "bin", Op: r.pick(c03IntOps), A: g.gen(env, k, depth-1), C: g.gen(env, k, depth-1)})
			case c < 70:
				return &cx{K: "un", Op: r.pick([]string{"-", "+", "^", "-"}), A: g.gen(env, k, depth-1)}
			case c < 90:
				l := g.gen(env, k, depth-1)
				if g.floats && r.chance(6) {
					n := r.intn(50)
					l = &cx{K: "float", Q: new(big.Rat).SetInt64(int64(n)), Lit: fmt.Sprintf("%d.0", n)}
				}
				return g.maybeParen(&cx{K: "bin", Op: r.pick([]string{"<<", "<<", ">>"}), A: l, C: g.shiftCount()})
			default:
				return paren(g.gen(env, k, depth-1))
			}
		case "rune":
			if leaf {
				if r.chance(20) {
					if e := g.refOf(env, k); e != nil {
						return e
					}
				}
				return g.runeLit()
			}
			switch c := r.intn(100); {
			case c < 60:
				ka, kc := k, k
				switch r.intn(3) {
				case 0:
					ka = gkind{U: "int"}
				case 1:
					kc = gkind{U: "int"}
				}
				return g.maybeParen(&cx{K: "bin", Op: r.pick(c03IntOps), A: g.gen(env, ka, depth-1), C: g.gen(env, kc, depth-1)})
			case c < 75:
				return &cx{K: "un", Op: r.pick([]string{"-", "+", "^"}), A: g.gen(env, k, depth-1)}
			case c < 90:
				return g.maybeParen(&cx{K: "bin", Op: r.pick([]string{"<<", ">>"}), A: g.gen(env, k, depth-1), C: g.shiftCount()})
			default:
				return paren(g.gen(env, k, depth-1))
			}
		case "float":
			if leaf {
				if r.chance(20) {
					if e := g.refOf(env, k); e != nil {
						return e
					}
				}
				return g.floatLit()
			}
			switch c := r.intn(100); {
			case c < 70:
				ka, kc := k, k
				switch r.intn(5) {
				case 0:
					ka = gkind{U: "int"}
				case 1:
					kc = gkind{U: "int"}
				case 2:
					ka = gkind{U: "rune"}
				}
				return g.maybeParen(&cx{K: "bin", Op: r.pick(c03FloatOps), A: g.gen(env, ka, depth-1), C: g.gen(env, kc, depth-1)})
			case c < 85:
				return &cx{K: "un", Op: r.pick([]string{"-", "+"}), A: g.gen(env, k, depth-1)}
			default:
				return paren(g.gen(env, k, depth-1))
			}
		case "string":
			if leaf {
				if r.chance(30) {
					if e := g.refOf(env, k); e != nil {
						return e
					}
				}
				return g.strLit()
			}
			if r.chance(85) {
				return g.maybeParen(&cx{K: "bin", Op: "+", A: g.gen(env, k, depth-1), C: g.gen(env, k, depth-1)})
			}
			return paren(g.gen(env, k, depth-1))
		case "bool":
			if leaf || !g.cmp && r.chance(50) {
				if r.chance(30) {
					if e := g.refOf(env, k); e != nil {
						return e
					}
				}
				return &cx{K: "bool", B: r.bool()}
			}
			switch c := r.intn(100); {
			case c < 30 || !g.cmp:
				return &cx{K: "un", Op: "!", A: g.gen(env, k, depth-1)}
			case c < 75:
				ok := g.operandKind()
				return g.maybeParen(&cx{K: "bin", Op: r.pick(c03CmpOps), A: g.gen(env, ok, depth-1), C: g.gen(env, ok, depth-1)})
			case c < 95:
				return g.maybeParen(&cx{K: "bin", Op: r.pick([]string{"&&", "||"}), A: g.gen(env, k, depth-1), C: g.gen(env, k, depth-1)})
			default:
				return paren(g.gen(env, k, depth-1))
			}
		}
	}
	// typed
	t := k.T
	switch {
	case isIntT(t):
		if leaf {
			if r.chance(25) {
				if e := g.refOf(env, k); e != nil {
					return e
				}
			}
			if t == "int" && env.cdecl && r.chance(15) {
				return &cx{K: "len", A: g.gen(env, gkind{U: "string"}, 1)}
			}
			return &cx{K: "conv", T: t, A: g.smallFor(t)}
		}
		switch c := r.intn(100); {
		case c < 25:
			// conversion of an arbitrary numeric constant expression
			var src gkind
			switch r.intn(6) {
			case 0:
				src = gkind{U: "rune"}
			case 1:
				src = gkind{T: r.pick(c03IntTypes)}
			case 2:
				if g.floats {
					src = gkind{T: r.pick([]string{"float32", "float64"})}
				} else {
					src = gkind{U: "int"}
				}
			default:
				src = gkind{U: "int"}
			}
			return &cx{K: "conv", T: t, A: g.gen(env, src, depth-1)}
		case c < 65:
			ka, kc := k, k
			switch r.intn(4) {
			case 0:
				ka = gkind{U: "int"}
			case 1:
				kc = gkind{U: "int"}
			}
			return g.maybeParen(&cx{K: "bin", Op: r.pick(c03IntOps), A: g.gen(env, ka, depth-1), C: g.gen(env, kc, depth-1)})
		case c < 75:
			return &cx{K: "un", Op: r.pick([]string{"-", "+", "^"}), A: g.gen(env, k, depth-1)}
		case c < 90:
			return g.maybeParen(&cx{K: "bin", Op: r.pick([]string{"<<", ">>"}), A: g.gen(env, k, depth-1), C: g.shiftCount()})
		default:
			return paren(g.gen(env, k, depth-1))
		}
	case isFloatT(t):
		if leaf {
			if r.chance(25) {
				if e := g.refOf(env, k); e != nil {
					return e
				}
			}
			if r.bool() {
				return &cx{K: "conv", T: t, A: g.floatLit()}
			}
			return &cx{K: "conv", T: t, A: g.smallFor("int16")}
		}
		switch c := r.intn(100); {
		case c < 25:
			var src gkind
			switch r.intn(4) {
			case 0:
				src = gkind{U: "int"}
			case 1:
				src = gkind{T: r.pick(c03IntTypes)}
			case 2:
				src = gkind{T: r.pick([]string{"float32", "float64"})}
			default:
				src = gkind{U: "float"}
			}
			return &cx{K: "conv", T: t, A: g.gen(env, src, depth-1)}
		case c < 75:
			ka, kc := k, k
			switch r.intn(5) {
			case 0:
				ka = gkind{U: "int"}
			case 1:
				kc = gkind{U: "float"}
			}
			return g.maybeParen(&cx{K: "bin", Op: r.pick(c03FloatOps), A: g.gen(env, ka, depth-1), C: g.gen(env, kc, depth-1)})
		case c < 88:
			return &cx{K: "un", Op: r.pick([]string{"-", "+"}), A: g.gen(env, k, depth-1)}
		default:
			return paren(g.gen(env, k, depth-1))
		}
	case t == "string":
		if leaf || r.chance(40) {
			switch r.intn(3) {
			case 0:
				// string(rune): printable or invalid code points only (the output is line based)
				cps := []int64{65, 97, 233, 0x4e16, 0x1F600, 126, 48, -1, 0x110000, 0xD800}
				z := big.NewInt(cps[r.intn(len(cps))])
				if z.Sign() < 0 {
					return &cx{K: "conv", T: t, A: &cx{K: "un", Op: "-", A: &cx{K: "int", Z: new(big.Int).Neg(z), Lit: new(big.Int).Neg(z).String()}}}
				}
				return &cx{K: "conv", T: t, A: &cx{K: "int", Z: z, Lit: z.String()}}
			case 1:
				return &cx{K: "conv", T: t, A: &cx{K: "rune", Z: big.NewInt('x'), Lit: "'x'"}}
			}
			return &cx{K: "conv", T: t, A: g.gen(env, gkind{U: "string"}, depth-1)}
		}
		ka, kc := k, k
		switch r.intn(3) {
		case 0:
			ka = gkind{U: "string"}
		case 1:
			kc = gkind{U: "string"}
		}
		return g.maybeParen(&cx{K: "bin", Op: "+", A: g.gen(env, ka, depth-1), C: g.gen(env, kc, depth-1)})
	default: // bool
		if leaf || r.chance(50) {
			return &cx{K: "conv", T: t, A: g.gen(env, gkind{U: "bool"}, depth-1)}
		}
		return &cx{K: "un", Op: "!", A: g.gen(env, k, depth-1)}
	}
}

// smallFor returns an untyped integer literal (possibly negated) that fits type t most of the time.
func (g *c03gen) smallFor(t string) *cx {
	r := g.r
	bits := bitsOf(t)
	var z *big.Int
	switch c := r.intn(10); {
	case c < 6:
		z = big.NewInt(int64(r.intn(12)))
	case c < 8:
		z = big.NewInt(int64(r.intn(128)))
	default:
		// near the bounds
		z = new(big.Int).Lsh(big.NewInt(1), uint(bits-1))
		if isUintT(t) {
			z.Lsh(z, 1)
		}
		z.Sub(z, big.NewInt(int64(1+r.intn(3))))
	}
	e := &cx{K: "int", Z: z, Lit: z.String()}
	if !isUintT(t) && r.chance(25) {
		return &cx{K: "un", Op: "-", A: e}
	}
	return e
}

func (g *c03gen) operandKind() gkind {
	r := g.r
	switch c := r.intn(10); {
	case c < 4:
		return gkind{U: "int"}
	case c < 5:
		return gkind{U: "rune"}
	case c < 6 && g.floats:
		return gkind{U: "float"}
	case c < 7:
		return gkind{U: "string"}
	case c < 9 && g.typed:
		return gkind{T: r.pick(c03IntTypes)}
	}
	return gkind{U: "int"}
}

func (g *c03gen) anyKind() gkind {
	r := g.r
	switch c := r.intn(100); {
	case c < 30:
		return gkind{U: "int"}
	case c < 38:
		return gkind{U: "rune"}
	case c < 52 && g.floats:
		return gkind{U: "float"}
	case c < 58:
		return gkind{U: "string"}
	case c < 64:
		return gkind{U: "bool"}
	case !g.typed:
		return gkind{U: "int"}
	case c < 88:
		return gkind{T: r.pick(c03IntTypes)}
	case c < 94 && g.floats:
		return gkind{T: r.pick([]string{"float32", "float64"})}
	case c < 97:
		return gkind{T: "string"}
	case c < 99:
		return gkind{T: "bool"}
	}
	return gkind{T: "int"}
}

// declaredType picks an explicit type for a declaration whose initialiser has kind k ("" = none).
func (g *c03gen) declaredType(k gkind) string {
	r := g.r
	if !g.typed || r.chance(65) {
		return ""
	}
	if k.T != "" {
		return k.T
	}
	switch k.U {
	case "int", "rune":
		if r.chance(15) && g.floats {
			return r.pick([]string{"float32", "float64"})
		}
		return r.pick(c03IntTypes)
	case "float":
		if r.chance(20) {
			return r.pick(c03IntTypes)
		}
		return r.pick([]string{"float32", "float64"})
	case "string":
		return "string"
	}
	return "bool"
}

func (g *c03gen) program(depth int) *c03prog {
	r := g.r
	env := &c03env{}
	switch c := r.intn(100); {
	case c < 24:
		// outside constant declarations comparisons, && and || are computed at run time: not generated
		save := g.cmp
		g.cmp = false
		defer func() { g.cmp = save }()
		k := g.anyKind()
		if c < 12 {
			return &c03prog{Kind: "expr", E: g.gen(env, k, depth)}
		}
		return &c03prog{Kind: "var", VarT: g.declaredType(k), E: g.gen(env, k, depth)}
	}
	p := &c03prog{Kind: "const-global"}
	if r.chance(35) {
		p.Kind = "const-local"
	}
	env.cdecl = true
	next := 1
	ngroups := 1 + r.intn(3)
	if g.single {
		ngroups = 1
	}
	for gi := 0; gi < ngroups; gi++ {
		if r.chance(55) || g.single {
			// single declaration
			k := g.anyKind()
			dt := g.declaredType(k)
			e := g.gen(env, k, depth)
			p.Groups = append(p.Groups, []c03spec{{Names: []int{next}, Type: dt, Exprs: []*cx{e}}})
			p.Paren = append(p.Paren, r.chance(15))
			env.consts = append(env.consts, struct {
				id int
				k  gkind
			}{next, declKind(k, dt)})
			next++
			continue
		}
		// a block with iota and implicit repetition
		n := 2 + r.intn(5)
		var grp []c03spec
		var prevK gkind
		var prevT string
		havePrev := false
		env.iota = true
		for si := 0; si < n; si++ {
			blank := si > 0 && r.chance(12)
			name := next
			if blank {
				name = 0
			} else {
				next++
			}
			if havePrev && r.chance(55) {
				grp = append(grp, c03spec{Names: []int{name}})
				if !blank {
					env.consts = append(env.consts, struct {
						id int
						k  gkind
					}{name, declKind(prevK, prevT)})
				}
				continue
			}
			k := g.anyKind()
			if r.chance(50) {
				k = gkind{U: "int"}
			}
			dt := g.declaredType(k)
			d := depth - 1
			if d < 1 {
				d = 1
			}
			e := g.gen(env, k, d)
			grp = append(grp, c03spec{Names: []int{name}, Type: dt, Exprs: []*cx{e}})
			if !blank {
				env.consts = append(env.consts, struct {
					id int
					k  gkind
				}{name, declKind(k, dt)})
			}
			prevK, prevT, havePrev = k, dt, true
		}
		env.iota = false
		p.Groups = append(p.Groups, grp)
		p.Paren = append(p.Paren, true)
	}
	return p
}

func declKind(k gkind, dt string) gkind {
	if dt != "" {
		return gkind{T: dt}
	}
	return k
}

// ---------------------------------------------------------------- region analysis

type c03facts struct {
	Discard string          // non-empty: the case is outside the modelled region and is not generated
	Feats   map[string]bool // input features that select a known-finding region
}

func isTypedFloat(t types.Type) bool {
	b, ok := t.(*types.Basic)
	return ok && (b.Kind() == types.Float32 || b.Kind() == types.Float64)
}

func isTypedInt(t types.Type) bool {
	b, ok := t.(*types.Basic)
	return ok && b.Info()&types.IsInteger != 0 && b.Info()&types.IsUntyped == 0
}

func isUntypedT(t types.Type) bool {
	b, ok := t.(*types.Basic)
	return ok && b.Info()&types.IsUntyped != 0
}

func constIsZero(v constant.Value) bool {
	if v == nil {
		return false
	}
	switch v.Kind() {
	case constant.Int, constant.Float:
		return constant.Sign(v) == 0
	}
	return false
}

func stripParens(x ast.Expr) ast.Expr {
	for {
		p, ok := x.(*ast.ParenExpr)
		if !ok {
			return x
		}
		x = p.X
	}
}

// requantized: a conversion to a floating-point type whose operand is a binary expression with a
// value that is not an integer of the int64 range. In a constant declaration yaegi visits the
// operand again with the target type already set and then converts its go/constant value through
// Int64Val(ToInt(v)): the conversion yields 0 (or the low 64 bits).
func requantized(info *types.Info, x ast.Expr) bool {
	call, ok := x.(*ast.CallExpr)
	if !ok || len(call.Args) != 1 {
		return false
	}
	tv := info.Types[call]
	if tv.Type == nil || !isTypedFloat(tv.Type) {
		return false
	}
	if _, ok := stripParens(call.Args[0]).(*ast.BinaryExpr); !ok {
		return false
	}
	av := info.Types[call.Args[0]].Value
	if av == nil {
		return true
	}
	iv := constant.ToInt(av)
	if iv.Kind() != constant.Int {
		return true
	}
	_, exact := constant.Int64Val(iv)
	return !exact
}

// c03Analyze looks at the parsed program and at the facts go/types recorded for every
// subexpression, and returns the input features that put a case into a known-finding region
// or outside the modelled region.
func c03Analyze(ref *c03ref) c03facts {
	f := c03facts{Feats: map[string]bool{}}
	pm := ref.Prog
	info := ref.Info
	isConstDecl := pm.Kind == "const-global" || pm.Kind == "const-local"
	var roots []ast.Expr
	for _, g := range pm.GroupX {
		for _, s := range g {
			roots = append(roots, s...)
		}
	}
	if pm.EX != nil {
		roots = append(roots, pm.EX)
	}
	for _, root := range roots {
		ast.Inspect(root, func(n ast.Node) bool {
			switch x := n.(type) {
			case *ast.CallExpr:
				if isConstDecl && requantized(info, x) {
					f.Feats["conv-requantized"] = true
				}
			case *ast.BinaryExpr:
				ty := info.Types[x.Y]
				switch x.Op {
				case token.QUO, token.REM:
					if isConstDecl {
						ast.Inspect(x.Y, func(m ast.Node) bool {
							if e, ok := m.(ast.Expr); ok && requantized(info, e) {
								f.Discard = "divisor containing a requantized float conversion (infinity)"
							}
							return true
						})
					}
					if constIsZero(ty.Value) && ty.Type != nil {
						switch {
						case isTypedFloat(ty.Type):
							f.Discard = "typed float division by zero (infinity)"
						case isTypedInt(ty.Type):
							f.Feats["typed-divzero"] = true
						}
					}
				case token.EQL, token.NEQ, token.LSS, token.LEQ, token.GTR, token.GEQ, token.LAND, token.LOR:
					if isConstDecl {
						f.Feats["cmp"] = true
					}
				}
			}
			return true
		})
	}
	// infinities are outside the model: yaegi's machine arithmetic on typed floats yields +Inf/-Inf
	// where Go rejects an overflow or a division by zero
	usesFloat, uses32 := false, false
	for _, root := range roots {
		ast.Inspect(root, func(n ast.Node) bool {
			if x, ok := n.(ast.Expr); ok {
				if tv, ok := info.Types[x]; ok && tv.Type != nil && isTypedFloat(tv.Type) {
					usesFloat = true
					if tv.Type.(*types.Basic).Kind() == types.Float32 {
						uses32 = true
					}
					if tv.Value != nil {
						fv, _ := constant.Float64Val(constant.ToFloat(tv.Value))
						lim := 1e300
						if tv.Type.(*types.Basic).Kind() == types.Float32 {
							lim = 1e30
						}
						if math.Abs(fv) > lim {
							f.Discard = "typed float of huge magnitude (near infinity)"
						}
					}
				}
			}
			return true
		})
	}
	for _, g := range pm.Groups {
		for _, sp := range g {
			if isFloatT(sp.Type) {
				usesFloat = true
				uses32 = uses32 || sp.Type == "float32"
			}
		}
	}
	if isFloatT(pm.VarT) {
		usesFloat = true
		uses32 = uses32 || pm.VarT == "float32"
	}
	// yaegi's typing differs from Go's inside the defect regions: a subexpression that is an exact
	// big integer for Go may be machine float arithmetic for yaegi; keep magnitudes far from the
	// largest finite float whenever a float type occurs in the program
	if uses32 && ref.MaxBit > 95 || usesFloat && ref.MaxBit > 900 {
		f.Discard = "float types next to constants of huge magnitude (near infinity)"
	}
	for _, e := range ref.Errs {
		switch refErrorClass(e) {
		case "overflow":
			if strings.Contains(e, "float32") || strings.Contains(e, "float64") {
				f.Discard = "floating-point overflow (infinity)"
			}
		case "divzero":
			if usesFloat {
				f.Discard = "division by zero next to floating-point types (infinity)"
			}
		}
	}
	return f
}

// c03Region maps the features of a case to the region label of a known finding ("" = main stream).
func c03Region(f c03facts) string {
	switch {
	case f.Feats["cmp"]:
		return "const-compare"
	case f.Feats["typed-divzero"]:
		return "typed-divzero"
	}
	return ""
}

// c03Rng: newRng(seed+1) is newRng(seed) advanced by one step (the state is linear in the seed);
// the generator therefore starts from the first *output* of that stream, which is mixed.
func c03Rng(seed uint64) *rng { return &rng{newRng(seed).next() ^ seed<<32} }

// ---------------------------------------------------------------- driver

type c03case struct {
	Stream string
	Prog   *c03prog
	Src    string
	Ref    *c03ref
	Impl   c03out
	Region string
}

func runC03(args []string) error {
	fs := flag.NewFlagSet("c03", flag.ExitOnError)
	out := fs.String("out", "/verif/build/C03", "output directory")
	tier := fs.String("tier", "quick", "quick|thorough")
	seed := fs.Uint64("seed", envSeed(), "seed")
	dump := fs.Bool("dump", false, "print every case (debugging)")
	single := fs.Bool("single", false, "debugging: one declaration per program")
	maxDepth := fs.Int("depth", 5, "maximal expression depth")
	count := fs.Int("n", 0, "number of main-stream cases (0 = tier default)")
	fs.Parse(args)
	if err := os.MkdirAll(*out, 0o755); err != nil {
		return err
	}
	sm := newSummary("C03")
	distinct := distinctSet{}
	nMain := 2600
	if *tier == "thorough" {
		nMain = 60000
	}
	if _, err := (c03Importer{}).Import("fmt"); err != nil {
		return fmt.Errorf("reference importer: %v", err)
	}

	if *count > 0 {
		nMain = *count
	}
	g := &c03gen{r: c03Rng(*seed), cmp: true, typed: true, floats: true, bigLits: true, maxShift: 210, single: *single}
	var cases []*c03case
	seen := map[string]bool{}
	discarded := 0
	for len(cases) < nMain {
		depth := 1 + g.r.intn(*maxDepth)
		p := g.program(depth)
		src := p.source()
		if seen[src] {
			continue
		}
		seen[src] = true
		ref, err := c03Reference(src)
		if err != nil {
			return fmt.Errorf("reference: %v\n%s", err, src)
		}
		if ref.Out.Class == "rejected" && refErrorClass(ref.Errs[0]) == "" {
			discarded++
			sm.count("discarded:ill-typed")
			if *dump {
				fmt.Fprintf(os.Stderr, "DISCARD %s\n%s\n", ref.Errs[0], src)
			}
			continue
		}
		if !ref.Exact || ref.MaxBit > 3000 {
			sm.count("discarded:inexact")
			continue
		}
		facts := c03Analyze(ref)
		if facts.Discard != "" {
			sm.count("discarded:unmodelled")
			continue
		}
		cases = append(cases, &c03case{Stream: "main", Prog: p, Src: src, Ref: ref, Region: c03Region(facts)})
	}
	parallelMap(len(cases), 0, func(i int) {
		cases[i].Impl = c03RunYaegi(cases[i].Src)
	})

	var lines []string
	for i, c := range cases {
		id := i + 1
		in := map[string]any{"stream": c.Stream, "kind": c.Ref.Prog.Kind, "source": c.Src}
		sm.CaseIndex[fmt.Sprint(id)] = map[string]any{"source": c.Src, "yaegi": c.Impl.String(), "yaegi_note": c.Impl.Note, "reference": c.Ref.Out.String(), "ref_note": c.Ref.Out.Note}
		lines = append(lines, fmt.Sprintf("(%d%%N, %s, %s, %s)", id, c.Ref.Prog.coq(), c.Impl.coq(), c.Ref.Out.coq()))
		sm.Evaluations++
		sm.ImplComparisons++
		sm.RefComparisons++
		sm.count("kind:" + c.Ref.Prog.Kind)
		sm.count("ref:" + c.Ref.Out.Class)
		sm.count("impl:" + c.Impl.Class)
		if c.Region != "" {
			sm.count("region:" + c.Region)
		}
		distinct.add(c.Src)
		if len(sm.Samples) < 6 && i%7 == 0 {
			sm.Samples = append(sm.Samples, in)
		}
		if c.Impl.String() != c.Ref.Out.String() {
			sm.RefMismatches = append(sm.RefMismatches, refMismatch{ID: id, Region: c.Region, Input: in, Impl: c.Impl.String() + " " + c.Impl.Note, Ref: c.Ref.Out.String() + " " + c.Ref.Out.Note})
		}
		if *dump {
			fmt.Fprintf(os.Stderr, "CASE %d\n%s  yaegi: %s %s\n  ref:   %s %s\n", id, c.Src, c.Impl.String(), c.Impl.Note, c.Ref.Out.String(), c.Ref.Out.Note)
		}
	}

	hdr := "From Verif Require Import Const.Model Const.Cases.\n"
	per := 170
	for i, k := 0, 0; i < len(lines); i, k = i+per, k+1 {
		j := i + per
		if j > len(lines) {
			j = len(lines)
		}
		body := fmt.Sprintf("Definition cases : list prog_case := [\n%s\n].\nDefinition MY := Eval vm_compute in prog_mis_y cases.\nPrint MY.\nDefinition MG := Eval vm_compute in prog_mis_g cases.\nPrint MG.\n", strings.Join(lines[i:j], ";\n"))
		name := fmt.Sprintf("cases_prog_%d.v", k)
		sm.CasesFiles = append(sm.CasesFiles, name)
		if err := os.WriteFile(filepath.Join(*out, name), []byte(hdr+body), 0o644); err != nil {
			return err
		}
	}
	sm.DistinctNontriv = len(distinct)
	sm.Rule = "seeded constant-expression programs; distinct = distinct source texts"
	_ = sort.Strings
	_ = reflect.TypeOf
	_ = utf8.RuneLen
	return sm.write(*out)
}
