package main

import (
	"fmt"
	"sort"
	"strings"
)

// C06, run-time fault "failed type assertion": operand static type x dynamic value x target class
// (concrete type, script interface with fewer / equal / more methods than the dynamic type, with
// the same number but other names, host interface, empty interface) x single-value and comma-ok
// forms. One program per (static type, dynamic value); every cell is a function that recovers and
// reports "ok", the comma-ok result, or the panic; compared line by line with compiled Go.

type c06AType struct {
	name    string
	methods []string // method set (all methods have their own fixed signature)
	iface   bool
	host    bool
}

var c06ATypes = map[string]c06AType{
	"A": {"A", []string{"M"}, false, false}, "AB": {"AB", []string{"M", "N"}, false, false},
	"ABC": {"ABC", []string{"M", "N", "P"}, false, false}, "X": {"X", []string{"Q"}, false, false},
	"MQ": {"MQ", []string{"M", "Q"}, false, false}, "Str": {"Str", []string{"String"}, false, false},
	"Err": {"Err", []string{"Error"}, false, false}, "int": {"int", nil, false, false},
	"string": {"string", nil, false, false}, "*A": {"*A", []string{"M"}, false, false},
	"IM": {"IM", []string{"M"}, true, false}, "IMN": {"IMN", []string{"M", "N"}, true, false},
	"IMNP": {"IMNP", []string{"M", "N", "P"}, true, false}, "IQ": {"IQ", []string{"Q"}, true, false},
	"IMQ":          {"IMQ", []string{"M", "Q"}, true, false},
	"fmt.Stringer": {"fmt.Stringer", []string{"String"}, true, true}, "error": {"error", []string{"Error"}, true, true},
	"interface{}": {"interface{}", nil, true, false},
}

var c06ATargets = []string{"A", "AB", "X", "MQ", "int", "string", "*A", "Str", "Err", "IM", "IMN", "IMNP", "IQ", "IMQ", "fmt.Stringer", "error", "interface{}"}

// operands: static type, dynamic value expression ("" = nil interface), dynamic type
var c06AOperands = []struct{ static, value, dyn string }{
	{"interface{}", "A{}", "A"}, {"interface{}", "AB{}", "AB"}, {"interface{}", "ABC{}", "ABC"}, {"interface{}", "X{}", "X"},
	{"interface{}", "MQ{}", "MQ"}, {"interface{}", "Str{}", "Str"}, {"interface{}", "Err{}", "Err"}, {"interface{}", "5", "int"},
	{"interface{}", "\"s\"", "string"}, {"interface{}", "&A{}", "*A"}, {"interface{}", "", ""},
	{"IM", "A{}", "A"}, {"IM", "AB{}", "AB"}, {"IM", "ABC{}", "ABC"}, {"IM", "MQ{}", "MQ"}, {"IM", "&A{}", "*A"}, {"IM", "", ""},
	{"IMN", "AB{}", "AB"}, {"IMN", "ABC{}", "ABC"}, {"IMN", "", ""},
	{"IQ", "X{}", "X"}, {"IQ", "MQ{}", "MQ"},
	{"fmt.Stringer", "Str{}", "Str"}, {"fmt.Stringer", "", ""},
	{"error", "Err{}", "Err"}, {"error", "errors.New(\"h\")", "host"}, {"error", "", ""},
}

func c06AHas(set []string, m string) bool {
	for _, x := range set {
		if x == m {
			return true
		}
	}
	return false
}

func c06ASubset(a, b []string) bool {
	for _, m := range a {
		if !c06AHas(b, m) {
			return false
		}
	}
	return true
}

type c06ACell struct {
	ID                         string
	Static, Value, Dyn, Target string
	CommaOk                    bool
	Class                      string // relation of the target to the dynamic type, for the distribution and the regions
}

type c06AProg struct {
	Src   string
	Cells []c06ACell
}

const c06AssertHead = `package main

import (
	"errors"
	"fmt"
)

var _ = errors.New

type A struct{ fa int }

func (a A) M() int { return 1 }

type AB struct{ fab int }

func (a AB) M() int { return 1 }
func (a AB) N() int { return 2 }

type ABC struct{ fabc int }

func (a ABC) M() int { return 1 }
func (a ABC) N() int { return 2 }
func (a ABC) P() int { return 3 }

type X struct{ fx int }

func (a X) Q() int { return 4 }

type MQ struct{ fmq int }

func (a MQ) M() int { return 1 }
func (a MQ) Q() int { return 4 }

type Str struct{ fstr int }

func (a Str) String() string { return "str" }

type Err struct{ ferr int }

func (a Err) Error() string { return "err" }

type IM interface{ M() int }
type IMN interface {
	M() int
	N() int
}
type IMNP interface {
	M() int
	N() int
	P() int
}
type IQ interface{ Q() int }
type IMQ interface {
	M() int
	Q() int
}

func report(id string, f func() string) {
	defer func() {
		if e := recover(); e != nil {
			fmt.Println(id, "panic:", e)
		}
	}()
	fmt.Println(id, f())
}
`

func c06AssertPrograms() []c06AProg {
	var progs []c06AProg
	for oi, op := range c06AOperands {
		st := c06ATypes[op.static]
		var b strings.Builder
		b.WriteString(c06AssertHead)
		b.WriteString("\nfunc main() {\n")
		var cells []c06ACell
		for ti, tn := range c06ATargets {
			t := c06ATypes[tn]
			// a concrete target must implement the static type of the operand (else: impossible assertion)
			if !t.iface && !c06ASubset(st.methods, t.methods) {
				continue
			}
			if tn == op.static {
				// x.(S) with S the static type: legal, kept (succeeds unless nil)
			}
			var dynMethods []string
			if op.dyn != "" && op.dyn != "host" {
				dynMethods = c06ATypes[op.dyn].methods
			} else if op.dyn == "host" {
				dynMethods = []string{"Error"}
			}
			class := ""
			switch {
			case op.dyn == "":
				class = "nil-operand"
			case !t.iface && tn == op.dyn:
				class = "concrete-same"
			case !t.iface:
				class = "concrete-other"
			case tn == "interface{}":
				class = "empty-iface"
			case t.host && c06ASubset(t.methods, dynMethods):
				class = "host-iface-implemented"
			case t.host:
				class = "host-iface-missing"
			case c06ASubset(t.methods, dynMethods) && len(t.methods) == len(dynMethods):
				class = "iface-equal"
			case c06ASubset(t.methods, dynMethods):
				class = "iface-fewer"
			case len(t.methods) > len(dynMethods):
				class = "iface-more-missing"
			case len(t.methods) == len(dynMethods):
				class = "iface-samecount-missing"
			default:
				class = "iface-fewer-missing"
			}
			for _, ok := range []bool{false, true} {
				id := fmt.Sprintf("o%02dt%02d", oi, ti)
				if ok {
					id += "k"
				}
				cells = append(cells, c06ACell{ID: id, Static: op.static, Value: op.value, Dyn: op.dyn, Target: tn, CommaOk: ok, Class: class})
				decl := "var x " + op.static
				if op.value != "" {
					decl += " = " + op.value
				}
				if ok {
					fmt.Fprintf(&b, "\treport(%q, func() string {\n\t\t%s\n\t\tv, ok := x.(%s)\n\t\t_ = v\n\t\treturn fmt.Sprint(ok)\n\t})\n", id, decl, tn)
				} else {
					fmt.Fprintf(&b, "\treport(%q, func() string {\n\t\t%s\n\t\tv := x.(%s)\n\t\t_ = v\n\t\treturn \"ok\"\n\t})\n", id, decl, tn)
				}
			}
		}
		b.WriteString("}\n")
		progs = append(progs, c06AProg{Src: b.String(), Cells: cells})
	}
	return progs
}

// c06AssertLines maps cell id -> canonical result
func c06AssertLines(stdout string) map[string]string {
	res := map[string]string{}
	for _, l := range strings.Split(stdout, "\n") {
		f := strings.SplitN(l, " ", 2)
		if len(f) != 2 {
			continue
		}
		r := f[1]
		if strings.HasPrefix(r, "panic: ") {
			r = "panic:" + classifyPanic(strings.TrimPrefix(strings.TrimPrefix(r, "panic: "), "runtime error: "))
		}
		res[f[0]] = r
	}
	return res
}

func c06SortedCellKeys(m map[string]int) []string {
	ks := make([]string, 0, len(m))
	for k := range m {
		ks = append(ks, k)
	}
	sort.Strings(ks)
	return ks
}
