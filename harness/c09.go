package main

import (
	"bufio"
	"bytes"
	"context"
	"encoding/json"
	"errors"
	"flag"
	"fmt"
	"os"
	"os/exec"
	"path/filepath"
	"reflect"
	"regexp"
	"runtime"
	"sort"
	"strconv"
	"strings"
	"sync"
	"sync/atomic"
	"testing/fstest"
	"time"

	"github.com/traefik/yaegi/interp"
	"github.com/traefik/yaegi/stdlib"
)

// C09: cancellation stops all interpreted activity promptly.
//   impl  = real yaegi; the step hook (interp.VerifStepHook, -tags verif) parks the interpreter
//           before operation k, the context is cancelled, EvalWithContext must return, the
//           goroutines are released and what they still do is counted
//   Y, G  = coq/Cancel/Model.v (run-id gate machine) / the contract; evaluated by coqc on cases_*.v
//   ref   = the contract itself (there is no other implementation to ask)
//
// Runs are executed in child processes (sub-command c09-worker), one case at a time per child, so
// that the process-global hook, runtime.NumGoroutine and the goroutine dump are unambiguous.

func init() {
	register("c09", "C09 cancellation: every cancellation point of the program templates, against the run-id gate model", runC09)
	register("c09-worker", "internal: run C09/C10 jobs from a file, one at a time", runC09Worker)
}

// ---------------------------------------------------------------- jobs and results (parent <-> worker)

type c09job struct {
	ID     int               `json:"id"`
	Kind   string            `json:"kind"` // park | expired | revival | stale | hist
	Src    string            `json:"src"`
	Pre    []c09step         `json:"pre,omitempty"`     // earlier evaluations on the same interpreter
	Posts  []c09step         `json:"posts,omitempty"`   // evaluations by the host between the cancel and the release
	ParkIn string            `json:"park_in,omitempty"` // "" = in the step hook before operation k; "native" = inside the k-th call of host.Tick
	Files  map[string]string `json:"files,omitempty"`   // source files visible to the interpreter (GOPATH "." on a MapFS)
	K      int               `json:"k"`                 // park before operation k (0 = cancel when nothing moves any more)
	Procs  int               `json:"procs,omitempty"`   // GOMAXPROCS for this job (0 = leave)
	Entry  string            `json:"entry,omitempty"`   // "" = EvalWithContext | path = EvalPathWithContext (source as a file) | exec = Compile + ExecuteWithContext
	Hold   bool              `json:"hold,omitempty"`    // callers of host.Wait stay inside that native call until EvalWithContext has returned
	Single bool              `json:"single,omitempty"`  // one interpreted goroutine: it cannot finish while it is parked
	Hist   []c10ev           `json:"hist,omitempty"`
	Warm   bool              `json:"warm,omitempty"` // C10: every definition is executed once before the history
	Virgin bool              `json:"virgin,omitempty"` // C10: the definitions are loaded by a plain Eval, before the interpreter's first *WithContext call
	Threads int              `json:"threads,omitempty"` // histories: bound of interpreted goroutines of each cancelled run
}

const c09entryPath = "src/entry/main.go"

// c09enter runs src under ctx through one of the three cancellable entry points.
func c09enter(ip *interp.Interpreter, ctx context.Context, entry, src string) error {
	return c09enterAt(ip, ctx, entry, src, c09entryPath)
}

func c09enterAt(ip *interp.Interpreter, ctx context.Context, entry, src, path string) error {
	switch entry {
	case "exec":
		prog, err := ip.Compile(src)
		if err != nil {
			return err
		}
		_, err = ip.ExecuteWithContext(ctx, prog)
		return err
	case "path":
		_, err := ip.EvalPathWithContext(ctx, path)
		return err
	}
	_, err := ip.EvalWithContext(ctx, src)
	return err
}

// one evaluation on the interpreter under test
type c09step struct {
	How string `json:"how"` // evalctx (EvalWithContext, background) | execctx (Compile + ExecuteWithContext, background) | evalpathctx | eval | evalpath | import
	// | cancel:<entry>:<k> (histories: a cancelled evaluation of its own, parked before operation k, observed like the job's own run;
	// entry as in c09job.Entry, Src = the source, or the path of the file for entry "path")
	Src string `json:"src"` // source, path, or import path
}

func c09doStep(ip *interp.Interpreter, st c09step) error {
	var err error
	switch st.How {
	case "evalctx":
		_, err = ip.EvalWithContext(context.Background(), st.Src)
	case "execctx":
		var prog *interp.Program
		if prog, err = ip.Compile(st.Src); err == nil {
			_, err = ip.ExecuteWithContext(context.Background(), prog)
		}
	case "evalpathctx":
		_, err = ip.EvalPathWithContext(context.Background(), st.Src)
	case "eval":
		_, err = ip.Eval(st.Src)
	case "evalpath":
		_, err = ip.EvalPath(st.Src)
	case "import":
		_, err = ip.Eval("import \"" + st.Src + "\"")
	default:
		err = fmt.Errorf("unknown step %q", st.How)
	}
	return err
}

type c09res struct {
	ID           int      `json:"id"`
	Err          string   `json:"err,omitempty"` // harness-level failure (compile error of a template, ...)
	Completed    bool     `json:"completed"`     // the program ended before operation k
	Stalled      bool     `json:"stalled"`       // cancelled because nothing moved any more
	Ret          bool     `json:"ret"`           // EvalWithContext returned the context's error
	RetErr       string   `json:"ret_err,omitempty"`
	LatencyMs    float64  `json:"latency_ms"`
	ExitMs       float64  `json:"exit_ms"`
	WallMs       float64  `json:"wall_ms"`
	TotalOps     int      `json:"total_ops"`
	TicksBefore  []int    `json:"ticks_before"`
	TicksAfter   []int    `json:"ticks_after"`
	MaxOpsAfter  int      `json:"max_ops_after"`
	OthersMaxOps int      `json:"others_max_ops_after"` // the same without the evaluation's own goroutine
	OthersTicks  []int    `json:"others_ticks_after"`
	EvalGOps     int      `json:"eval_goroutine_ops_after"`
	OpsAfter     int      `json:"ops_after"`
	Parked       int      `json:"parked"`
	Leftover     int      `json:"leftover"`
	HostBlocked  int      `json:"host_blocked"`
	LeftStacks   string   `json:"left_stacks,omitempty"`
	Skipped      bool     `json:"skipped,omitempty"` // not run: the worker slice had already produced many run-aways
	Runaway      bool     `json:"runaway,omitempty"` // interpreted goroutines kept running after the cancellation; the worker is replaced
	Slow         string   `json:"slow,omitempty"`    // latency-only remarks (never an alarm below the large bound)
	Uses         []c10use `json:"uses,omitempty"`
	HistEvents   []c10ev  `json:"hist_events,omitempty"` // history as executed (expired contexts resolved)
	HistStep     int      `json:"hist_step,omitempty"`   // C09 histories: the observations are those of this earlier cancelled run (1-based index into Pre), the first one that broke the contract
	HistRuns     []string `json:"hist_runs,omitempty"`   // C09 histories: the earlier cancelled runs that kept the contract
}

// ---------------------------------------------------------------- one run under the hook

type c09run struct {
	ip        *interp.Interpreter
	mu        sync.Mutex
	k         int
	n         int
	released  bool
	returned  bool
	parkedG   map[uint64]bool
	after     map[uint64]int
	pass      map[uint64]bool // goroutines of the harness evaluating synchronously: not counted, never parked
	parkedCh  chan struct{}
	parkOnce  sync.Once
	releaseCh chan struct{}
	ticksB    []int
	ticksA    []int
	lastMove  int64  // unix nano of the last hook call
	parkFID   uint64 // run id of the frame of the first parked operation
	gen0      uint64 // run id of the first operation of the run under test
	gen0set   bool
	evalG     uint64   // the goroutine of the evaluation itself (it executes the first operation)
	ticksAG   []uint64 // goroutine of each tick of ticksA
	posting   bool     // the host is evaluating something else on the interpreter (after the cancel)
	nativeK   int      // > 0: park inside the nativeK-th call of host.Tick instead of in the hook
	tickCalls int
}

var c09cur atomic.Pointer[c09run]

var c09gidBuf = sync.Pool{New: func() any { b := make([]byte, 64); return &b }}

func c09gid() uint64 {
	bp := c09gidBuf.Get().(*[]byte)
	b := (*bp)[:runtime.Stack(*bp, false)]
	// "goroutine 123 ["
	b = bytes.TrimPrefix(b, []byte("goroutine "))
	i := bytes.IndexByte(b, ' ')
	var id uint64
	if i > 0 {
		id, _ = strconv.ParseUint(string(b[:i]), 10, 64)
	}
	c09gidBuf.Put(bp)
	return id
}

func c09hook(ip *interp.Interpreter, fid uint64) {
	r := c09cur.Load()
	if r == nil || r.ip != ip {
		return
	}
	g := c09gid()
	r.mu.Lock()
	if r.pass[g] {
		r.mu.Unlock()
		return
	}
	if !r.gen0set {
		r.gen0, r.gen0set, r.evalG = fid, true, g
	}
	if r.posting && fid != r.gen0 {
		// an operation of the host's further evaluation (new run id): neither parked nor counted
		r.mu.Unlock()
		return
	}
	r.n++
	atomic.StoreInt64(&r.lastMove, time.Now().UnixNano())
	if r.released {
		r.after[g]++
		r.mu.Unlock()
		return
	}
	if r.nativeK == 0 && r.k > 0 && r.n >= r.k {
		if len(r.parkedG) == 0 {
			r.parkFID = fid
		}
		r.parkedG[g] = true
		r.mu.Unlock()
		r.parkOnce.Do(func() { close(r.parkedCh) })
		<-r.releaseCh
		r.mu.Lock()
		r.after[g]++
		r.mu.Unlock()
		return
	}
	r.mu.Unlock()
}

func (r *c09run) tick(n int) {
	r.mu.Lock()
	if r.nativeK > 0 && !r.released {
		r.tickCalls++
		if r.tickCalls >= r.nativeK {
			// the goroutine stays inside this native call until the release; the tick is recorded when the call returns
			r.parkedG[c09gid()] = true
			r.mu.Unlock()
			r.parkOnce.Do(func() { close(r.parkedCh) })
			<-r.releaseCh
			r.mu.Lock()
		}
	}
	if r.returned {
		if len(r.ticksA) < 64 { // enough to show a run-away; the verdict needs no more
			r.ticksA = append(r.ticksA, n)
			r.ticksAG = append(r.ticksAG, c09gid())
		}
	} else {
		r.ticksB = append(r.ticksB, n)
	}
	r.mu.Unlock()
}

func c09newRun(ip *interp.Interpreter, k int) *c09run {
	return &c09run{ip: ip, k: k, parkedG: map[uint64]bool{}, after: map[uint64]int{}, pass: map[uint64]bool{},
		parkedCh: make(chan struct{}), releaseCh: make(chan struct{}), lastMove: time.Now().UnixNano()}
}

func (r *c09run) release() {
	r.mu.Lock()
	if !r.released {
		r.released = true
		close(r.releaseCh)
	}
	r.mu.Unlock()
}

// host package seen by the scripts
var c09tickTarget atomic.Pointer[c09run]

func c09HostTick(n int) {
	if r := c09tickTarget.Load(); r != nil {
		r.tick(n)
	}
}
func c09HostTickRet(n int) int { c09HostTick(n); return n }
func c09HostDelay()            { time.Sleep(3 * time.Millisecond) }

// c09hold, when set, keeps the callers of host.Wait inside that native call until the channel is closed
var c09hold atomic.Pointer[chan struct{}]

func c09HostWait() {
	if h := c09hold.Load(); h != nil {
		<-*h
		return
	}
	time.Sleep(3 * time.Millisecond)
}

func c09newInterp(files map[string]string) *interp.Interpreter {
	opt := interp.Options{Stdout: &bytes.Buffer{}, Stderr: &bytes.Buffer{}}
	if len(files) > 0 {
		mfs := fstest.MapFS{}
		for name, src := range files {
			mfs[name] = &fstest.MapFile{Data: []byte(src)}
		}
		opt.GoPath, opt.SourcecodeFilesystem = ".", mfs
	}
	ip := interp.New(opt)
	ex := interp.Exports{}
	for _, p := range []string{"sync/sync", "sync/atomic/atomic", "errors/errors"} {
		if v, ok := stdlib.Symbols[p]; ok {
			ex[p] = v
		}
	}
	ex["host/host"] = map[string]reflect.Value{
		"Tick":    reflect.ValueOf(c09HostTick),
		"TickRet": reflect.ValueOf(c09HostTickRet),
		"Delay":   reflect.ValueOf(c09HostDelay),
		"Wait":    reflect.ValueOf(c09HostWait),
	}
	if err := ip.Use(ex); err != nil {
		panic(err)
	}
	return ip
}

// ---------------------------------------------------------------- goroutine dump

type c09g struct {
	id    uint64
	state string
	stack string
}

var c09hdr = regexp.MustCompile(`^goroutine (\d+) \[([^\],]+)`)

func c09dump() []c09g {
	buf := make([]byte, 1<<16)
	for {
		n := runtime.Stack(buf, true)
		if n < len(buf) {
			buf = buf[:n]
			break
		}
		buf = make([]byte, 2*len(buf))
	}
	var gs []c09g
	for _, blk := range strings.Split(string(buf), "\n\n") {
		m := c09hdr.FindStringSubmatch(blk)
		if m == nil {
			continue
		}
		id, _ := strconv.ParseUint(m[1], 10, 64)
		gs = append(gs, c09g{id, m[2], blk})
	}
	return gs
}

func c09waiting(state string) bool {
	for _, p := range []string{"select", "chan receive", "chan send", "semacquire", "sync."} {
		if strings.HasPrefix(state, p) {
			return true
		}
	}
	return false
}

func c09hostBlocked(g c09g) bool {
	for _, p := range []string{"sync.(*WaitGroup).Wait", "sync.(*Mutex).Lock", "sync.(*RWMutex).", "sync.(*Cond).Wait", "sync.runtime_Semacquire"} {
		if strings.Contains(g.stack, p) {
			return true
		}
	}
	return false
}

// c09settle waits until every goroutine created since `before` has exited or sits in a wait state
// that a closed channel cannot end (closing a channel makes its waiters runnable at once, so a
// goroutine still in [select] / [chan receive] after stop() is not waiting on that channel).
// Returns the goroutines left, split into host-blocked ones and the others.
func c09settle(before map[uint64]bool, bound time.Duration, runaway func() bool) (left, hostBlocked []c09g, took time.Duration, timedOut bool) {
	t0 := time.Now()
	var prev string
	stable := 0
	sleep := 50 * time.Microsecond
	for {
		var extras []c09g
		allWaiting := true
		var sig []string
		for _, g := range c09dump() {
			if before[g.id] {
				continue
			}
			if !strings.Contains(g.stack, "yaegi/interp.") { // run-time helpers (GC workers, timers), the harness itself
				continue
			}
			extras = append(extras, g)
			if !c09waiting(g.state) {
				allWaiting = false
			}
			sig = append(sig, fmt.Sprint(g.id, g.state))
		}
		if len(extras) == 0 {
			return nil, nil, time.Since(t0), false
		}
		s := strings.Join(sig, ";")
		if allWaiting && s == prev {
			stable++
		} else {
			stable = 0
		}
		prev = s
		if stable >= 3 || time.Since(t0) > bound || (runaway != nil && runaway()) {
			for _, g := range extras {
				if c09hostBlocked(g) {
					hostBlocked = append(hostBlocked, g)
				} else {
					left = append(left, g)
				}
			}
			return left, hostBlocked, time.Since(t0), stable < 3
		}
		time.Sleep(sleep)
		if sleep < 4*time.Millisecond {
			sleep *= 2
		}
	}
}

// c09parkedOrGone waits until the run has parked a goroutine (true) or no interpreted goroutine
// created since `before` is left (false). No timing decides: only the bound ends the wait.
func c09parkedOrGone(r *c09run, before map[uint64]bool, bound time.Duration) bool {
	t0 := time.Now()
	sleep := 50 * time.Microsecond
	for {
		select {
		case <-r.parkedCh:
			return true
		default:
		}
		n := 0
		for _, g := range c09dump() {
			if !before[g.id] && strings.Contains(g.stack, "yaegi/interp.") {
				n++
			}
		}
		if n == 0 || time.Since(t0) > bound {
			select {
			case <-r.parkedCh:
				return true
			default:
			}
			return false
		}
		time.Sleep(sleep)
		if sleep < 2*time.Millisecond {
			sleep *= 2
		}
	}
}

// c09allWaiting reports whether there are interpreted goroutines created since `before` and all of them
// sit in a wait state (channel operation, select, semaphore).
func c09allWaiting(before map[uint64]bool) bool {
	n := 0
	for _, g := range c09dump() {
		if before[g.id] || !strings.Contains(g.stack, "yaegi/interp.") {
			continue
		}
		if !c09waiting(g.state) {
			return false
		}
		n++
	}
	return n > 0
}

func c09ids() map[uint64]bool {
	m := map[uint64]bool{}
	for _, g := range c09dump() {
		m[g.id] = true
	}
	return m
}

// ---------------------------------------------------------------- worker

const (
	c09ReturnBound = 10 * time.Second // EvalWithContext must return the context's error within this (never close on a loaded machine)
	c09SlowNote    = 5 * time.Second  // latencies above this are remarked upon
	c09ExitBound   = 20 * time.Second
	c09StallQuiet  = 60 * time.Millisecond
	c09RunawayOps  = 20000 // interpreted operations after the release that prove a run-away (the finite region templates need < 200)
)

func c09runJob(j c09job) (res c09res) {
	res.ID = j.ID
	defer func() {
		if p := recover(); p != nil {
			res.Err = fmt.Sprint("host panic: ", p)
		}
		c09cur.Store(nil)
		c09tickTarget.Store(nil)
	}()
	if j.Kind == "hist" {
		return c10runHist(j)
	}
	if j.Procs > 0 {
		defer runtime.GOMAXPROCS(runtime.GOMAXPROCS(j.Procs))
	}
	before := c09ids()
	files := j.Files
	if j.Entry == "path" {
		files = map[string]string{c09entryPath: j.Src}
		for k, v := range j.Files {
			files[k] = v
		}
	}
	ip := c09newInterp(files)
	if j.Hold {
		hold := make(chan struct{})
		c09hold.Store(&hold)
		defer func() {
			if c09hold.Swap(nil) != nil {
				close(hold)
			}
		}()
	}
	var histRuns []string
	for i, p := range j.Pre {
		if strings.HasPrefix(p.How, "cancel:") {
			// an earlier cancelled evaluation of the history: the same run under the hook, the same observations
			f := strings.SplitN(p.How, ":", 3)
			k, _ := strconv.Atoi(f[2])
			sr := c09cancelRun(ip, before, c09job{ID: j.ID, Kind: "park", Src: p.Src, K: k, Entry: f[1], Single: j.Single}, p.Src)
			c09cur.Store(nil)
			c09tickTarget.Store(nil)
			if sr.Err != "" || !sr.Completed && (!sr.Ret || sr.MaxOpsAfter > 1 || sr.Leftover > 0 || sr.Runaway || len(sr.TicksAfter) > j.Threads) {
				sr.HistStep, sr.HistRuns = i+1, histRuns
				return sr
			}
			histRuns = append(histRuns, fmt.Sprintf("step %d %s: completed=%v standstill=%v latency %.1f ms, exit %.1f ms, ticks before %d after %d", i+1, p.How, sr.Completed, sr.Stalled, sr.LatencyMs, sr.ExitMs, len(sr.TicksBefore), len(sr.TicksAfter)))
			continue
		}
		if err := c09doStep(ip, p); err != nil {
			res.Err = "pre: " + err.Error()
			return
		}
	}
	res = c09cancelRun(ip, before, j, c09entryPath)
	res.HistRuns = histRuns
	return
}

// c09cancelRun is one evaluation under the hook on ip: parked, cancelled, released, observed.
func c09cancelRun(ip *interp.Interpreter, before map[uint64]bool, j c09job, path string) (res c09res) {
	res.ID = j.ID
	r := c09newRun(ip, j.K)
	if j.ParkIn == "native" {
		r.nativeK = j.K
	}
	c09tickTarget.Store(r)
	c09cur.Store(r)
	ctx, cancel := context.WithCancel(context.Background())
	defer cancel()
	if j.Kind == "expired" {
		cancel()
	}
	type evalRes struct {
		err error
		at  time.Time
	}
	errc := make(chan evalRes, 1)
	go func() {
		err := c09enterAt(ip, ctx, j.Entry, j.Src, path)
		errc <- evalRes{err, time.Now()}
	}()
	var er evalRes
	got := false
	if j.Kind != "expired" {
		// wait for the park, the end of the program, or a standstill (everything blocked)
		tick := time.NewTicker(5 * time.Millisecond)
		tw := time.Now()
	wait:
		for {
			select {
			case <-r.parkedCh:
				break wait
			case er = <-errc:
				got = true
				break wait
			case <-tick.C:
				r.mu.Lock()
				n := r.n
				r.mu.Unlock()
				if time.Since(tw) > 10*time.Second { // neither k operations nor a standstill: cancel wherever it is
					res.Stalled = true
					break wait
				}
				if n > 0 && time.Since(time.Unix(0, atomic.LoadInt64(&r.lastMove))) > c09StallQuiet {
					select {
					case er = <-errc: // nothing moves because the program has ended
						got = true
					default:
						res.Stalled = true
					}
					break wait
				}
			}
		}
		tick.Stop()
		if got {
			// the program ended before operation k: not a cancellation case
			res.Completed = true
			r.mu.Lock()
			res.TotalOps = r.n
			r.mu.Unlock()
			if er.err != nil {
				res.Err = "program failed: " + er.err.Error()
			}
			r.release()
			c09settle(before, c09ExitBound, nil)
			return
		}
	}
	t0 := time.Now()
	cancel()
	select {
	case er = <-errc:
		res.LatencyMs = float64(er.at.Sub(t0).Microseconds()) / 1000
	case <-time.After(c09ReturnBound):
		res.RetErr = "the call did not return within " + c09ReturnBound.String() + " after the cancellation"
		res.Runaway = true // its goroutine is stuck in this process: the worker is replaced, and the slice gives up after a few
	}
	if er.err != nil {
		res.Ret = errors.Is(er.err, context.Canceled)
		if !res.Ret {
			res.RetErr = er.err.Error()
		}
	} else if res.RetErr == "" {
		if !j.Single || res.Stalled || j.Kind == "expired" {
			// the evaluation ended by itself while the context was being cancelled (its main goroutine had
			// nothing left to do): EvalWithContext may return either result; not a cancellation case
			res.Completed = true
			r.mu.Lock()
			r.returned = true
			res.TotalOps = r.n
			r.mu.Unlock()
			r.release()
			c09settle(before, c09ExitBound, nil)
			return
		}
		res.RetErr = "EvalWithContext returned nil error"
	}
	if res.LatencyMs > float64(c09SlowNote.Milliseconds()) {
		res.Slow = fmt.Sprintf("EvalWithContext took %.0f ms to return", res.LatencyMs)
	}
	r.mu.Lock()
	r.returned = true
	r.mu.Unlock()
	if h := c09hold.Swap(nil); h != nil {
		close(*h) // the native calls held back may return now
	}
	if j.Kind == "expired" {
		// the evaluation goroutine is either parked before its first operation or will never execute one
		c09parkedOrGone(r, before, c09ExitBound)
	}
	if len(j.Posts) > 0 {
		// the host goes on using the interpreter while goroutines of the cancelled run are still parked
		// (before an operation or inside a native call)
		r.mu.Lock()
		r.posting = true
		r.mu.Unlock()
		for _, p := range j.Posts {
			if err := c09doStep(ip, p); err != nil {
				res.Err = "next evaluation (" + p.How + "): " + err.Error()
			}
		}
		r.mu.Lock()
		r.posting = false
		r.mu.Unlock()
	}
	r.mu.Lock()
	res.Parked = len(r.parkedG)
	r.mu.Unlock()
	r.release()
	runaway := func() bool {
		r.mu.Lock()
		defer r.mu.Unlock()
		n := 0
		for _, c := range r.after {
			n += c
		}
		return n > c09RunawayOps
	}
	left, hb, took, timedOut := c09settle(before, c09ExitBound, runaway)
	res.ExitMs = float64(took.Microseconds()) / 1000
	res.Leftover, res.HostBlocked = len(left), len(hb)
	if timedOut {
		if runaway() {
			res.Runaway = true
		} else {
			res.Slow += fmt.Sprintf(" goroutines still moving after %s", c09ExitBound)
		}
	}
	for i, g := range left {
		if i < 2 {
			res.LeftStacks += c09short(g.stack) + "\n"
		}
	}
	r.mu.Lock()
	res.TotalOps = r.n
	res.TicksBefore = append([]int{}, r.ticksB...)
	res.TicksAfter = append([]int{}, r.ticksA...)
	for g, c := range r.after {
		res.OpsAfter += c
		if c > res.MaxOpsAfter {
			res.MaxOpsAfter = c
		}
		if g == r.evalG {
			res.EvalGOps = c
		} else if c > res.OthersMaxOps {
			res.OthersMaxOps = c
		}
	}
	res.OthersTicks = []int{}
	for i, n := range r.ticksA {
		if r.ticksAG[i] != r.evalG {
			res.OthersTicks = append(res.OthersTicks, n)
		}
	}
	r.mu.Unlock()
	return
}

func c09short(stack string) string {
	ls := strings.Split(stack, "\n")
	var keep []string
	for _, l := range ls {
		if strings.HasPrefix(l, "\t") {
			continue
		}
		keep = append(keep, l)
		if len(keep) > 8 {
			break
		}
	}
	return strings.Join(keep, " | ")
}

func runC09Worker(args []string) error {
	fs := flag.NewFlagSet("c09-worker", flag.ExitOnError)
	in := fs.String("jobs", "", "jobs file (JSON lines)")
	out := fs.String("out", "", "results file (JSON lines)")
	fs.Parse(args)
	interp.VerifStepHook = c09hook
	f, err := os.Open(*in)
	if err != nil {
		return err
	}
	defer f.Close()
	of, err := os.Create(*out)
	if err != nil {
		return err
	}
	defer of.Close()
	w := bufio.NewWriter(of)
	defer w.Flush()
	sc := bufio.NewScanner(f)
	sc.Buffer(make([]byte, 1<<20), 1<<24)
	enc := json.NewEncoder(w)
	for sc.Scan() {
		var j c09job
		if err := json.Unmarshal(sc.Bytes(), &j); err != nil {
			return err
		}
		tj := time.Now()
		res := c09runJob(j)
		res.WallMs = float64(time.Since(tj).Microseconds()) / 1000
		if err := enc.Encode(res); err != nil {
			return err
		}
		w.Flush()
		if res.Runaway {
			// goroutines of that case still spin in this process: leave the rest to a fresh worker
			of.Sync()
			os.Exit(0)
		}
	}
	return sc.Err()
}

// c09dispatch runs the jobs in `workers` child processes and returns the results by job id.
// A child that dies (a panic in an interpreted goroutine kills the process) loses its remaining
// jobs; they are reported with Err set.
func c09dispatch(jobs []c09job, workers int, dir string) (map[int]c09res, error) {
	if workers <= 0 {
		workers = runtime.NumCPU()
	}
	if workers > len(jobs) {
		workers = len(jobs)
	}
	res := map[int]c09res{}
	if len(jobs) == 0 {
		return res, nil
	}
	self, err := os.Executable()
	if err != nil {
		return nil, err
	}
	tmp, err := os.MkdirTemp("", "vh-c09-*")
	if err != nil {
		return nil, err
	}
	defer os.RemoveAll(tmp)
	var mu sync.Mutex
	var wg sync.WaitGroup
	for w := 0; w < workers; w++ {
		var mine []c09job
		for i := w; i < len(jobs); i += workers {
			mine = append(mine, jobs[i])
		}
		wg.Add(1)
		go func(w int, mine []c09job) {
			defer wg.Done()
			runaways := 0
			for round := 0; len(mine) > 0; round++ {
				if runaways >= 6 {
					// the gate is evidently broken: the cases reported so far say so; do not spin through the rest
					mu.Lock()
					for _, j := range mine {
						res[j.ID] = c09res{ID: j.ID, Skipped: true}
					}
					mu.Unlock()
					return
				}
				jf := filepath.Join(tmp, fmt.Sprintf("jobs%d_%d.jsonl", w, round))
				rf := filepath.Join(tmp, fmt.Sprintf("res%d_%d.jsonl", w, round))
				var b bytes.Buffer
				enc := json.NewEncoder(&b)
				for _, j := range mine {
					enc.Encode(j)
				}
				if err := os.WriteFile(jf, b.Bytes(), 0o644); err != nil {
					return
				}
				ctx, cancel := context.WithTimeout(context.Background(), 40*time.Minute)
				cmd := exec.CommandContext(ctx, self, "c09-worker", "-jobs", jf, "-out", rf)
				var errb bytes.Buffer
				cmd.Stderr = &errb
				runErr := cmd.Run()
				cancel()
				got := map[int]bool{}
				if f, err := os.Open(rf); err == nil {
					sc := bufio.NewScanner(f)
					sc.Buffer(make([]byte, 1<<20), 1<<26)
					for sc.Scan() {
						var r c09res
						if json.Unmarshal(sc.Bytes(), &r) == nil && r.ID != 0 {
							if r.Runaway {
								runaways++
							}
							mu.Lock()
							res[r.ID] = r
							mu.Unlock()
							got[r.ID] = true
						}
					}
					f.Close()
				}
				var rest []c09job
				for _, j := range mine {
					if !got[j.ID] {
						rest = append(rest, j)
					}
				}
				if len(rest) > 0 && len(rest) == len(mine) || (len(rest) > 0 && runErr != nil) {
					// the worker died on the first job it did not answer (a panic in an interpreted goroutine kills the process)
					j := rest[0]
					mu.Lock()
					res[j.ID] = c09res{ID: j.ID, Err: "worker died on this job: " + firstLine(fmt.Sprint(runErr)) + ": " + c09headTail(errb.String(), 700, 900)}
					mu.Unlock()
					rest = rest[1:]
				}
				mine = rest
			}
		}(w, mine)
	}
	wg.Wait()
	return res, nil
}

func c09headTail(s string, h, t int) string {
	if len(s) <= h+t {
		return s
	}
	return s[:h] + " [...] " + s[len(s)-t:]
}

func c09tail(s string, n int) string {
	if len(s) > n {
		return s[len(s)-n:]
	}
	return s
}

// ---------------------------------------------------------------- program templates (DESIGN.md Appendix D.4)

type c09tmpl struct {
	Name     string
	Class    string // single | conc
	Region   string // "" = main stream, else the known-finding region this template aims at
	Kind     string // job kind
	Src      string
	Pre      []c09step
	Posts    []c09step
	ParkIn   string
	Files    map[string]string
	KMin     int                 // first cancellation point (default 1)
	Hold     bool                // host.Wait holds its callers until the cancelled call has returned
	Others   bool                // observe the goroutines other than the evaluation's own one
	Threads  int                 // conc: upper bound of interpreted goroutines
	CoqF     string              // single: function table
	Park     *c09parkArgs        // single: the scenario (SPark ...) of Cancel/Cases.v
	CoqScen  func(tb int) string // single: any other scenario
	KMax     int                 // cancellation points 1..KMax (0 = only the standstill point)
	Stall    bool                // add the standstill cancellation point (k = 0)
	Infinite bool
	Hist     bool   // a history of cancelled evaluations on one interpreter (Pre holds the earlier ones); one job, k = KMax
	Entry    string // Hist: the entry point of the last cancelled evaluation
}

func c09hdrSrc(body string) string {
	if strings.Contains(body, "sync.") {
		return "package main\n\nimport (\n\t\"host\"\n\t\"sync\"\n)\n\n"
	}
	return "package main\n\nimport \"host\"\n\n"
}

// c09repl turns a one-file main package into REPL-style evaluations: imports, the declarations with main
// renamed run, and the statement that starts it.
func c09repl(src string) (pre []c09step, run string) {
	pre = append(pre, c09step{"evalctx", "import \"host\""})
	if strings.Contains(src, "\"sync\"") {
		pre = append(pre, c09step{"evalctx", "import \"sync\""})
	}
	body := src
	if i := strings.Index(body, "\nfunc "); i >= 0 {
		j := strings.Index(body, "\ntype ")
		if j >= 0 && j < i {
			i = j
		}
		body = body[i+1:]
	}
	body = strings.Replace(body, "func main() {", "func run() {", 1)
	pre = append(pre, c09step{"evalctx", body})
	return pre, "run()"
}

type c09parkArgs struct {
	Pre     string
	T0      int
	Phases  string
	Blocked bool
	Post    string
	Order   string
}

func (a *c09parkArgs) scen(tb int) string {
	return fmt.Sprintf("(SPark %s %d %s %s %s %s %d)", a.Pre, a.T0, a.Phases, coqBool(a.Blocked), a.Post, a.Order, tb)
}

// c09posts draws 1..3 further evaluations and renders them as actions of the model: every one of
// them refreshes the root frame's run id (Execute; importSrc does it once more), an EvalWithContext
// also installs a new cancellation channel. Their programs are empty (function 999 does not exist).
func c09posts(r *rng, t0 int) (steps []c09step, post, order string) {
	n := 1 + r.intn(3)
	var acts, ord []string
	next := t0 + 1
	for i := 0; i < n; i++ {
		switch r.intn(3) {
		case 0:
			steps = append(steps, c09step{"eval", "1+1"})
			acts = append(acts, "AExecute [PRoot 999]")
			ord = append(ord, fmt.Sprint(next))
			next++
		case 1:
			steps = append(steps, c09step{"evalctx", "2+2"})
			acts = append(acts, "ABegin", "AExecute [PRoot 999]")
			ord = append(ord, fmt.Sprint(next))
			next++
		default:
			steps = append(steps, c09step{"import", "pkgx"})
			acts = append(acts, "AExecute [PRoot 999]", "AExecute [PRoot 999]")
			ord = append(ord, fmt.Sprint(next), fmt.Sprint(next+1))
			next += 2
		}
	}
	ord = append(ord, fmt.Sprint(t0))
	return steps, coqList(acts), coqList(ord)
}

var c09pkgx = map[string]string{"src/pkgx/x.go": "package pkgx\n\nvar X = mk()\n\nvar Y int\n\nfunc mk() int { return 41 }\n\nfunc init() { Y = 7 }\n"}

func c09ticksBody(ids []int) (goSrc, coq string) {
	var g, c []string
	for _, id := range ids {
		g = append(g, fmt.Sprintf("host.Tick(%d)", id))
		c = append(c, "Nop", fmt.Sprintf("Tick %d", id))
	}
	return strings.Join(g, "; "), strings.Join(c, "; ")
}

func c09templates(r *rng, thorough bool) []c09tmpl {
	var ts []c09tmpl
	kS := 150
	kC := 120
	kB := 40 // cancellation points of the blocking-construct grid
	if thorough {
		kS, kC, kB = 400, 400, 60
	}
	mainOnly := "[PRoot 0; PFun 1]"
	// ---- single-threaded, main stream
	a, b := 1+r.intn(9), 11+r.intn(9)
	ts = append(ts, c09tmpl{Name: "busy-loop", Class: "single", Kind: "park", KMax: kS, Infinite: true,
		Src:  fmt.Sprintf("package main\n\nimport \"host\"\n\nfunc main() {\n\tfor {\n\t\thost.Tick(%d)\n\t}\n}\n", a),
		CoqF: fmt.Sprintf("[ []; [Nop; Tick %d; Jmp 0] ]", a),
		Park: &c09parkArgs{"[]", 0, mainOnly, false, "[]", "[0]"}})
	depth := 2 + r.intn(3)
	{
		var fs []string
		fs = append(fs, "[]", fmt.Sprintf("[Nop; Call %d; Jmp 0]", 2+depth))
		fs = append(fs, "[Nop; Ret]") // rec(0) = F[2]
		for n := 1; n <= depth; n++ {
			fs = append(fs, fmt.Sprintf("[Nop; Tick %d; Nop; Call %d; Nop; Tick %d; Ret]", n, 2+n-1, 100+n))
		}
		ts = append(ts, c09tmpl{Name: "recursion", Class: "single", Kind: "park", KMax: kS + 60, Infinite: true,
			Src:  fmt.Sprintf("package main\n\nimport \"host\"\n\nfunc rec(n int) {\n\tif n == 0 {\n\t\treturn\n\t}\n\thost.Tick(n)\n\trec(n - 1)\n\thost.Tick(100 + n)\n}\n\nfunc main() {\n\tfor {\n\t\trec(%d)\n\t}\n}\n", depth),
			CoqF: "[ " + strings.Join(fs, "; ") + " ]",
			Park: &c09parkArgs{"[]", 0, mainOnly, false, "[]", "[0]"}})
	}
	ts = append(ts, c09tmpl{Name: "closure-loop", Class: "single", Kind: "park", KMax: kS, Infinite: true,
		Src:  fmt.Sprintf("package main\n\nimport \"host\"\n\nfunc main() {\n\tn := 0\n\tf := func() {\n\t\tn++\n\t\thost.Tick(%d)\n\t}\n\tfor {\n\t\tf()\n\t\thost.Tick(%d)\n\t}\n}\n", a, b),
		CoqF: fmt.Sprintf("[ []; [Nop; MkClos 0 2; Nop; CallClos 0; Nop; Tick %d; Jmp 2]; [Nop; Tick %d; Ret] ]", b, a),
		Park: &c09parkArgs{"[]", 0, mainOnly, false, "[]", "[0]"}})
	ts = append(ts, c09tmpl{Name: "method-iface", Class: "single", Kind: "park", KMax: kS, Infinite: true,
		Src:  fmt.Sprintf("package main\n\nimport \"host\"\n\ntype T struct{ n int }\n\nfunc (t *T) M() {\n\tt.n++\n\thost.Tick(%d)\n}\n\ntype I interface{ M() }\n\nfunc main() {\n\tvar i I = &T{}\n\tfor {\n\t\ti.M()\n\t\thost.Tick(%d)\n\t}\n}\n", a, b),
		CoqF: fmt.Sprintf("[ []; [Nop; Call 2; Nop; Tick %d; Jmp 0]; [Nop; Tick %d; Ret] ]", b, a),
		Park: &c09parkArgs{"[]", 0, mainOnly, false, "[]", "[0]"}})
	ts = append(ts, c09tmpl{Name: "closure-factory", Class: "single", Kind: "park", KMax: kS, Infinite: true,
		Src:  fmt.Sprintf("package main\n\nimport \"host\"\n\nfunc mk(id int) func() {\n\treturn func() { host.Tick(id) }\n}\n\nfunc main() {\n\tf, g := mk(%d), mk(%d)\n\tfor {\n\t\tf()\n\t\tg()\n\t}\n}\n", a, b),
		CoqF: fmt.Sprintf("[ []; [Nop; Call 2; Nop; Call 3; Nop; CallClos 0; Nop; CallClos 1; Jmp 4]; [Nop; MkClos 0 4; Ret]; [Nop; MkClos 1 5; Ret]; [Nop; Tick %d; Ret]; [Nop; Tick %d; Ret] ]", a, b),
		Park: &c09parkArgs{"[]", 0, mainOnly, false, "[]", "[0]"}})
	ts = append(ts, c09tmpl{Name: "repl-statements", Class: "single", Kind: "park", KMax: 14,
		Pre:  []c09step{{"evalctx", "import \"host\""}},
		Src:  "host.Tick(1); host.Tick(2); host.Tick(3); host.Tick(4); host.Tick(5); host.Tick(6)\n",
		CoqF: "[ [Nop; Tick 1; Nop; Tick 2; Nop; Tick 3; Nop; Tick 4; Nop; Tick 5; Nop; Tick 6]; [Nop]; [] ]",
		Park: &c09parkArgs{"(session [PRoot 2] ++ alone 0 4)", 1, "[PRoot 0]", false, "[]", "[1]"}})
	ts = append(ts, c09tmpl{Name: "blocked-named-second-eval", Class: "single", Kind: "stale", Stall: true,
		Pre:  []c09step{{"evalctx", "var ch = make(chan int)\nfunc blk() int { return <-ch }\n"}},
		Src:  "blk()",
		CoqF: "[ [Nop]; [Nop; Block true; Ret]; [Nop; Call 1] ]",
		Park: &c09parkArgs{"(session [PRoot 0] ++ alone 0 8)", 1, "[PRoot 2]", true, "[]", "[1]"}})

	// ---- single-threaded: the witnesses of the repaired init-list defect (fix: interp.run takes the root frame's
	// run id), kept in the main stream as corpus cases: cancel inside init(), inside package variable initialisation
	n2, n3 := 1+r.intn(3), 1+r.intn(3)
	{
		var i2, i3 []int
		for i := 0; i < n2; i++ {
			i2 = append(i2, 2)
		}
		for i := 0; i < n3; i++ {
			i3 = append(i3, 3)
		}
		g2, c2 := c09ticksBody(i2)
		g3, c3 := c09ticksBody(i3)
		ts = append(ts, c09tmpl{Name: "init-list", Class: "single", Kind: "park", KMax: 24,
			Src:  fmt.Sprintf("package main\n\nimport \"host\"\n\nfunc init() {\n\tfor {\n\t\thost.Tick(1)\n\t}\n}\n\nfunc init() { %s }\n\nfunc main() { %s }\n", g2, g3),
			CoqF: fmt.Sprintf("[ []; [Nop; Tick 1; Jmp 0]; [%s]; [%s] ]", c2, c3),
			Park: &c09parkArgs{"[]", 0, "[PRoot 0; PFun 1; PFun 2; PFun 3]", false, "[]", "[0]"}})
		ts = append(ts, c09tmpl{Name: "init-then-main", Class: "single", Kind: "park", KMax: 16,
			Src:  fmt.Sprintf("package main\n\nimport \"host\"\n\nfunc init() {\n\tfor {\n\t\thost.Tick(1)\n\t}\n}\n\nfunc main() { %s }\n", g3),
			CoqF: fmt.Sprintf("[ []; [Nop; Tick 1; Jmp 0]; [%s] ]", c3),
			Park: &c09parkArgs{"[]", 0, "[PRoot 0; PFun 1; PFun 2]", false, "[]", "[0]"}})
		ts = append(ts, c09tmpl{Name: "package-vars", Class: "single", Kind: "park", KMax: 4,
			Src:  fmt.Sprintf("package main\n\nimport \"host\"\n\nvar a = host.TickRet(5)\nvar b = host.TickRet(6)\n\nfunc main() { %s }\n", g3),
			CoqF: fmt.Sprintf("[ []; [Nop; Tick 5; Nop; Nop; Tick 6; Nop]; [%s] ]", c3),
			Park: &c09parkArgs{"[]", 0, "[PRoot 0; PRoot 1; PFun 2]", false, "[]", "[0]"}})
	}
	// ---- single-threaded, known-finding regions
	ts = append(ts, c09tmpl{Name: "repl-next-eval", Class: "single", Region: "root-revival", Kind: "revival", KMax: 12,
		Pre:   []c09step{{"evalctx", "import \"host\""}},
		Src:   "host.Tick(1); host.Tick(2); host.Tick(3); host.Tick(4); host.Tick(5); host.Tick(6)\n",
		Posts: []c09step{{"eval", "1+1"}},
		CoqF:  "[ [Nop; Tick 1; Nop; Tick 2; Nop; Tick 3; Nop; Tick 4; Nop; Tick 5; Nop; Tick 6]; [Nop]; [] ]",
		Park:  &c09parkArgs{"(session [PRoot 2] ++ alone 0 4)", 1, "[PRoot 0]", false, "[AExecute [PRoot 1]]", "[2; 1]"}})
	ts = append(ts, c09tmpl{Name: "expired-context", Class: "single", Region: "expired", Kind: "expired", KMax: 1,
		Src:     "package main\n\nimport \"host\"\n\nfunc main() { host.Tick(1); host.Tick(2); host.Tick(3) }\n",
		CoqF:    "[ []; [Nop; Tick 1; Nop; Tick 2; Nop; Tick 3] ]",
		CoqScen: func(int) string { return "(SExpired [PRoot 0; PFun 1])" }})
	ts = append(ts, c09tmpl{Name: "blocked-literal-second-eval", Class: "single", Region: "stale-done", Kind: "stale", Stall: true,
		Pre:  []c09step{{"evalctx", "var ch = make(chan int)\nvar blk = func() int { return <-ch }\n"}},
		Src:  "blk()",
		CoqF: "[ [Nop; MkClos 0 1]; [Nop; Block true; Ret]; [Nop; CallClos 0] ]",
		Park: &c09parkArgs{"(session [PRoot 0] ++ alone 0 8)", 1, "[PRoot 2]", true, "[]", "[1]"}})

	// ---- concurrent, main stream
	conc := func(name string, threads, kmax int, infinite bool, body string) {
		// the standstill point only where the program can come to one (kmax == 0)
		ts = append(ts, c09tmpl{Name: name, Class: "conc", Kind: "park", Threads: threads, KMax: kmax, Stall: kmax == 0, Infinite: infinite,
			Src: c09hdrSrc(body) + body})
	}
	conc("goroutine-tree", 7, kC, true, `func leaf(id int) {
	for {
		host.Tick(id)
	}
}

func mid(id int) {
	go leaf(id*10 + 1)
	go leaf(id*10 + 2)
	for {
		host.Tick(id)
	}
}

func main() {
	go mid(1)
	go mid(2)
	for {
		host.Tick(0)
	}
}
`)
	buf := r.intn(4)
	conc("pipeline", 4, kC, true, fmt.Sprintf(`func gen(out chan<- int) {
	for i := 0; ; i++ {
		out <- i
	}
}

func stage(in <-chan int, out chan<- int) {
	for v := range in {
		out <- v + 1
	}
}

func main() {
	a := make(chan int)
	b := make(chan int, %d)
	c := make(chan int)
	go gen(a)
	go stage(a, b)
	go stage(b, c)
	for v := range c {
		host.Tick(v %% 5)
	}
}
`, buf))
	nw := 2 + r.intn(3)
	conc("worker-pool", nw+1, kC+50, false, fmt.Sprintf(`func worker(id int, jobs <-chan int, res chan<- int, wg *sync.WaitGroup) {
	for j := range jobs {
		host.Tick(id)
		res <- j * 2
	}
	wg.Done()
}

func main() {
	jobs := make(chan int, 4)
	res := make(chan int, 32)
	var wg sync.WaitGroup
	for w := 1; w <= %d; w++ {
		wg.Add(1)
		go worker(w, jobs, res, &wg)
	}
	for j := 0; j < 8; j++ {
		jobs <- j
	}
	close(jobs)
	wg.Wait()
	close(res)
	s := 0
	for v := range res {
		s += v
	}
	host.Tick(s %% 7)
}
`, nw))
	conc("mutex-counter", 4, kC+50, false, `func inc(mu *sync.Mutex, c *int, n int, done chan bool) {
	for i := 0; i < n; i++ {
		mu.Lock()
		*c = *c + 1
		host.Tick(1)
		mu.Unlock()
	}
	done <- true
}

func main() {
	var mu sync.Mutex
	c := 0
	done := make(chan bool)
	for g := 0; g < 3; g++ {
		go inc(&mu, &c, 4, done)
	}
	for g := 0; g < 3; g++ {
		<-done
	}
	host.Tick(c)
}
`)
	conc("producer-consumer", 3, kC+40, false, fmt.Sprintf(`func produce(ch chan<- int, n int) {
	for i := 0; i < n; i++ {
		ch <- i
	}
	close(ch)
}

func consume(ch <-chan int, done chan<- int) {
	s := 0
	for v := range ch {
		host.Tick(v %% 3)
		s += v
	}
	done <- s
}

func main() {
	ch := make(chan int, %d)
	done := make(chan int)
	go produce(ch, 10)
	go consume(ch, done)
	host.Tick(<-done %% 7)
}
`, buf))
	conc("select-private-channels", 4, kC, true, `func worker(id int, in <-chan int, out chan<- int) {
	for v := range in {
		out <- v*10 + id
	}
}

func main() {
	in1, in2, in3 := make(chan int), make(chan int), make(chan int)
	out1, out2, out3 := make(chan int), make(chan int), make(chan int)
	go worker(1, in1, out1)
	go worker(2, in2, out2)
	go worker(3, in3, out3)
	n := 0
	for {
		select {
		case in1 <- n:
		case in2 <- n:
		case in3 <- n:
		case v := <-out1:
			host.Tick(v % 10)
		case v := <-out2:
			host.Tick(v % 10)
		case v := <-out3:
			host.Tick(v % 10)
		}
		n++
	}
}
`)
	// corpus case: the witness of the repaired literal-slot defect (fix abe7a69: getFunc no longer writes the
	// literal's slot back when a call returns): go func(){...}() in a loop; before the repair the go statement in
	// flight could call the nil function and kill the host process
	ts = append(ts, c09tmpl{Name: "goroutine-literals", Class: "conc", Kind: "park", Threads: 4, KMax: kC, Infinite: true,
		Src: c09hdrSrc("") + `func main() {
	for i := 1; i <= 3; i++ {
		go func(id int) {
			for {
				host.Tick(id)
			}
		}(i)
	}
	select {}
}
`})
	// every blocking construct x where it sits; a ticking goroutine keeps operations coming so that
	// every k is reached while the construct is (almost always) already blocked
	constructs := []struct{ name, decl, stmt string }{
		{"send", "ch := make(chan int)", "ch <- 1"},
		{"recv", "ch := make(chan int)", "v := <-ch\n\thost.Tick(v)"},
		{"recv2", "ch := make(chan int)", "v, ok := <-ch\n\tif ok {\n\t\thost.Tick(v)\n\t}"},
		{"select", "ch := make(chan int)\n\tch2 := make(chan int)", "select {\n\tcase v := <-ch:\n\t\thost.Tick(v)\n\tcase ch2 <- 1:\n\t\thost.Tick(2)\n\t}"},
		{"range", "ch := make(chan int)", "for v := range ch {\n\t\thost.Tick(v)\n\t}"},
	}
	wheres := []string{"main", "go-func", "callee", "literal"}
	for ci, c := range constructs {
		for wi, w := range wheres {
			if !thorough && (ci+wi+int(r.s%4))%2 == 1 { // quick: half of the grid, chosen by the seed
				continue
			}
			params := "ch chan int"
			args := "ch"
			if c.name == "select" {
				params, args = "ch chan int, ch2 chan int", "ch, ch2"
			}
			var body string
			switch w {
			case "main":
				body = fmt.Sprintf("func main() {\n\t%s\n\tgo ticker()\n\t%s\n\thost.Tick(99)\n}\n", c.decl, c.stmt)
			case "go-func":
				body = fmt.Sprintf("func blocked(%s) {\n\t%s\n\thost.Tick(99)\n}\n\nfunc main() {\n\t%s\n\tgo blocked(%s)\n\tticker()\n}\n", params, c.stmt, c.decl, args)
			case "callee":
				body = fmt.Sprintf("func blocked(%s) {\n\t%s\n\thost.Tick(99)\n}\n\nfunc outer(%s) {\n\tblocked(%s)\n\thost.Tick(98)\n}\n\nfunc main() {\n\t%s\n\tgo ticker()\n\touter(%s)\n\thost.Tick(97)\n}\n", params, c.stmt, params, args, c.decl, args)
			case "literal":
				body = fmt.Sprintf("func main() {\n\t%s\n\tf := func() {\n\t\t%s\n\t\thost.Tick(99)\n\t}\n\tgo ticker()\n\tf()\n\thost.Tick(97)\n}\n", c.decl, strings.ReplaceAll(c.stmt, "\n\t", "\n\t\t"))
			}
			conc("blocked-"+c.name+"-"+w, 2, kB, true, "func ticker() {\n\tfor {\n\t\thost.Tick(9)\n\t}\n}\n\n"+body)
			// the same with a second goroutine that blocks too: cancelled at the standstill
			conc("standstill-"+c.name+"-"+w, 2, 0, true, "func ticker() {\n\tselect {}\n}\n\n"+body)
		}
	}
	// nothing but blocked goroutines: only the standstill cancellation point
	conc("all-blocked", 4, 0, true, `func main() {
	a, b, c := make(chan int), make(chan int), make(chan int)
	go func() { a <- 1 }()
	go func() { v, ok := <-b; _, _ = v, ok }()
	go func() {
		for range c {
		}
	}()
	select {
	case <-make(chan int):
	case make(chan int) <- 1:
	}
}
`)

	// ---- the main goroutine sits in native blocking code when the cancel comes (WaitGroup.Wait on workers that
	// will never call Done, a second Mutex.Lock, a host function that does not return yet): the call must return
	// the context error all the same (it may not wait for the interpreted goroutines), the other goroutines
	// stop, the main goroutine stays in its native call (not counted) or leaves it later and stops
	for _, stall := range []bool{true, false} {
		kmax, suffix := 0, "-standstill"
		if !stall {
			kmax, suffix = 30, ""
		}
		tk := "func ticker() {\n\tselect {}\n}\n\n"
		if !stall {
			tk = "func ticker() {\n\tfor {\n\t\thost.Tick(9)\n\t}\n}\n\n"
		}
		conc("native-main-waitgroup"+suffix, 5, kmax, true, tk+`func worker(ch chan int, wg *sync.WaitGroup) {
	<-ch
	wg.Done()
}

func main() {
	ch := make(chan int)
	var wg sync.WaitGroup
	for i := 0; i < 3; i++ {
		wg.Add(1)
		go worker(ch, &wg)
	}
	go ticker()
	host.Tick(1)
	wg.Wait()
	host.Tick(2)
}
`)
		conc("native-main-mutex"+suffix, 2, kmax, true, tk+`func main() {
	var mu sync.Mutex
	go ticker()
	mu.Lock()
	host.Tick(1)
	mu.Lock()
	host.Tick(2)
}
`)
		conc("native-main-hostcall"+suffix, 2, kmax, true, tk+`func main() {
	go ticker()
	host.Tick(1)
	host.Wait()
	host.Tick(2)
}
`)
		ts[len(ts)-1].Hold = true
	}

	// ---- the host goes on using the interpreter after the cancel, BEFORE the goroutines of the cancelled run
	// are released: 1..3 further evaluations (plain Eval, EvalWithContext, import of a source package), with the
	// goroutines parked before an operation or inside a native call (host.Tick). The programs are loaded REPL
	// style (declarations first, then the statement run()), because any later Eval runs a package's main again.
	// Frames keep their generation, so no goroutine may come back to life: for the goroutines started by the
	// program that is the main stream. The evaluation's own goroutine has the root frame at the bottom of its
	// stack; the next Execute refreshes that frame and the goroutine executes the (two) operations that end
	// the statement run() after the call has returned: region "root-revival", predicted exactly by Y
	// (single-goroutine programs), left out of the observation otherwise.
	kN := 40
	if thorough {
		kN = 120
	}
	base := len(ts)
	for i := 0; i < base; i++ {
		t := ts[i]
		if t.Kind != "park" || t.KMax == 0 || t.Region != "" || len(t.Posts) > 0 || len(t.Pre) > 0 {
			continue
		}
		if t.Park != nil && t.Park.Phases != mainOnly {
			continue
		}
		v := t
		v.Name = t.Name + "+next-evals"
		if v.KMax > kN {
			v.KMax = kN
		}
		v.Stall = false
		v.Files = c09pkgx
		v.Pre, v.Src = c09repl(t.Src)
		var post, order string
		v.Posts, post, order = c09posts(r, 0)
		if r.bool() {
			v.ParkIn = "native"
		} else {
			v.KMin = 2 // operation 1 is the call run() itself, in the root frame
		}
		if t.Park != nil {
			if !strings.HasPrefix(t.CoqF, "[ []; ") {
				continue
			}
			v.CoqF = "[ [Call 1; Nop; Nop]; " + strings.TrimPrefix(t.CoqF, "[ []; ")
			v.Park = &c09parkArgs{"[]", 0, "[PRoot 0]", false, post, order}
			v.Region = "root-revival"
		} else {
			v.Others = true
		}
		ts = append(ts, v)
	}

	// ---- sessions: the blocking code is loaded by {Eval, EvalPath, import, EvalWithContext} before or after the
	// interpreter's first *WithContext call, then run under a context and cancelled while blocked.
	// send / receive / two-value receive read interp.cancelChan when their code is GENERATED: loaded without a
	// context before the first *WithContext call they are not cancellable (region "nocancel-gen"); range and
	// select always are.
	constr := []struct{ name, coq, body string }{
		{"send", "KSend", "ch <- 1"},
		{"recv", "KRecv", "v := <-ch\n\t_ = v"},
		{"recv2", "KRecv2", "v, ok := <-ch\n\t_, _ = v, ok"},
		{"range", "KRange", "for v := range ch {\n\t\t_ = v\n\t}"},
		{"select", "KSelect", "select {\n\tcase v := <-ch:\n\t\t_ = v\n\tcase ch2 <- 1:\n\t}"},
	}
	loaders := []struct{ name, coq string }{{"eval", "LEval"}, {"evalctx", "LEvalCtx"}, {"evalpath", "LEvalPath"}, {"import", "LImport"}}
	for _, c := range constr {
		decl := "var ch = make(chan int)\n\nvar ch2 = make(chan int)\n\n"
		files := map[string]string{
			"src/pkgb/b.go":    "package pkgb\n\n" + decl + "func Blk() int {\n\t" + c.body + "\n\treturn 1\n}\n",
			"src/files/blk.go": "package main\n\n" + decl + "func blk() int {\n\t" + c.body + "\n\treturn 1\n}\n",
		}
		repl := decl + "func blk() int {\n\t" + c.body + "\n\treturn 1\n}\n"
		for _, ld := range loaders {
			for _, first := range []bool{false, true} {
				var pre []c09step
				if first {
					pre = append(pre, c09step{"evalctx", "1+1"})
				}
				src := "blk()"
				switch ld.name {
				case "eval":
					pre = append(pre, c09step{"eval", repl})
				case "evalctx":
					pre = append(pre, c09step{"evalctx", repl})
				case "evalpath":
					pre = append(pre, c09step{"evalpath", "src/files/blk.go"})
				case "import":
					pre = append(pre, c09step{"import", "pkgb"})
					src = "pkgb.Blk()"
				}
				region := ""
				if !first && ld.name != "evalctx" && (c.name == "send" || c.name == "recv" || c.name == "recv2") {
					region = "nocancel-gen"
				}
				when := "before-first-ctx"
				if first {
					when = "after-first-ctx"
				}
				scen := fmt.Sprintf("(SSess %s %s %s)", coqBool(first), ld.coq, c.coq)
				ts = append(ts, c09tmpl{Name: "session-" + c.name + "-" + ld.name + "-" + when, Class: "single", Region: region, Kind: "stale", Stall: true,
					Pre: pre, Src: src, Files: files, CoqF: "[]", CoqScen: func(int) string { return scen }})
			}
		}
	}
	ts = append(ts, c09histories(r, thorough)...)
	return ts
}

// c09histories: sequences of 2..4 cancelled evaluations on ONE interpreter through different entry points
// (EvalWithContext, EvalPathWithContext, Compile + ExecuteWithContext), every ordered pair of entry points
// adjacent at least once, the definitions of each evaluation loaded by a plain Eval in between, optionally a
// successful uncancelled *WithContext run in between. Every evaluation starts a busy goroutine and goroutines
// parked in receive / send / select / range, keeps its own goroutine busy, has its own cancellation point,
// and is observed like any other C09 run (the first run that breaks the contract is the one reported). All
// goroutines of a run have exited before the next one begins, and the interpreter has seen a *WithContext
// call before any code is generated, so the whole stream is main stream (no revival, no stale channel).
func c09histories(r *rng, thorough bool) []c09tmpl {
	entries := []string{"", "path", "exec"}
	label := map[string]string{"": "eval", "path": "path", "exec": "exec"}
	var seqs [][]string
	for _, a := range entries {
		for _, b := range entries {
			seqs = append(seqs, []string{a, b})
		}
	}
	nrand := 4
	if thorough {
		nrand = 30
	}
	for i := 0; i < nrand; i++ {
		n := 3 + r.intn(2)
		var q []string
		for len(q) < n {
			q = append(q, entries[r.intn(3)])
		}
		seqs = append(seqs, q)
	}
	var ts []c09tmpl
	for si, q := range seqs {
		t := c09tmpl{Class: "conc", Kind: "park", Hist: true, Threads: 6, Infinite: true, Files: map[string]string{}}
		t.Pre = append(t.Pre, c09step{"evalctx", "import \"host\""})
		var names, srcs []string
		for i, en := range q {
			p := fmt.Sprintf("h%d", i+1)
			a, b := 1+r.intn(9), 11+r.intn(9)
			var defs, gos []string
			defs = append(defs, fmt.Sprintf("func %sleaf(id int) {\n\tfor {\n\t\thost.Tick(id)\n\t}\n}\n", p))
			park := []struct{ name, body, call string }{
				{"recv", "c chan int) {\n\thost.Tick(21)\n\tv := <-c\n\t_ = v\n\thost.Tick(31)\n}\n", "(make(chan int))"},
				{"send", "c chan int) {\n\tc <- 1\n\thost.Tick(32)\n}\n", "(make(chan int))"},
				{"sel", "c, d chan int) {\n\tselect {\n\tcase v := <-c:\n\t\t_ = v\n\tcase d <- 1:\n\t}\n\thost.Tick(33)\n}\n", "(make(chan int), make(chan int))"},
				{"rng", "c chan int) {\n\tfor v := range c {\n\t\t_ = v\n\t}\n\thost.Tick(34)\n}\n", "(make(chan int))"},
			}
			for pi, pk := range park {
				if r.intn(4) == 0 && pi != i%4 { // at least one parked goroutine, a different one first in each position
					continue
				}
				defs = append(defs, "func "+p+pk.name+"("+pk.body)
				gos = append(gos, "\tgo "+p+pk.name+pk.call+"\n")
			}
			defs = append(defs, fmt.Sprintf("func %srun() {\n%s\tgo %sleaf(%d)\n\tfor {\n\t\thost.Tick(%d)\n\t}\n}\n", p, strings.Join(gos, ""), p, a, b))
			if i > 0 && len(q) > 2 {
				// a successful run under a live context in between
				switch r.intn(4) {
				case 0:
					t.Pre = append(t.Pre, c09step{"evalctx", "1+1"})
				case 1:
					t.Pre = append(t.Pre, c09step{"execctx", "2+2"})
				case 2:
					okp := fmt.Sprintf("src/histok%d/ok%d.go", i+1, i+1)
					t.Files[okp] = "package main\n\nimport \"host\"\n\nfunc init() {\n\thost.Delay()\n}\n"
					t.Pre = append(t.Pre, c09step{"evalpathctx", okp})
				}
			}
			t.Pre = append(t.Pre, c09step{"eval", strings.Join(defs, "\n")})
			src := p + "run()"
			file := fmt.Sprintf("package main\n\nimport \"host\"\n\nfunc init() {\n\thost.Delay()\n\t%srun()\n}\n", p) // the import: functions defined by Eval and not yet run are generated in the scope of this file
			k := 1 + r.intn(60)
			names = append(names, label[en])
			if i == len(q)-1 {
				t.Entry, t.KMin, t.KMax = en, k, k
				t.Src = src
				if en == "path" {
					t.Src = file
				}
				srcs = append(srcs, t.Src)
				break
			}
			if en == "path" {
				fp := fmt.Sprintf("src/hist%d/h%dmain.go", i+1, i+1) // imports are recorded per file base name
				t.Files[fp] = file
				src = fp
			}
			t.Pre = append(t.Pre, c09step{fmt.Sprintf("cancel:%s:%d", en, k), src})
			srcs = append(srcs, src)
		}
		t.Name = fmt.Sprintf("history-%d:%s", si, strings.Join(names, ">"))
		if si < 9 {
			t.Name = "history-pair:" + strings.Join(names, ">")
		}
		ts = append(ts, t)
	}
	return ts
}

// ---------------------------------------------------------------- parent

func runC09(args []string) error {
	fs := flag.NewFlagSet("c09", flag.ExitOnError)
	out := fs.String("out", "/verif/build/C09", "output directory")
	tier := fs.String("tier", "quick", "quick|thorough")
	seed := fs.Uint64("seed", envSeed(), "seed")
	workers := fs.Int("workers", 0, "worker processes (default: number of CPUs)")
	fs.Parse(args)
	if err := os.MkdirAll(*out, 0o755); err != nil {
		return err
	}
	thorough := *tier == "thorough"
	r := newRng(*seed)
	sm := newSummary("C09")
	sm.RefMismatches = []refMismatch{} // the driver iterates over it
	// thorough: the whole family again for several derived parameter sets (goroutine counts, buffer
	// sizes, tick values, recursion depth, which half of the construct grid)
	reps := 3
	if thorough {
		reps = 16
	}
	var tmpls []c09tmpl
	for rep := 0; rep < reps; rep++ {
		tmpls = append(tmpls, c09templates(r.fork(), thorough)...)
	}

	type meta struct {
		t   *c09tmpl
		k   int
		pr  int
		en  string
		gen bool // compiled before the first *WithContext call, with channel operations in function literals
	}
	var jobs []c09job
	metas := map[int]meta{}
	id := 0
	add := func(t *c09tmpl, k, procs int) {
		id++
		// the entry point: every job draws one of those its source allows (a file needs a package clause)
		entries := []string{"", "exec"}
		if strings.HasPrefix(t.Src, "package main") {
			entries = []string{"", "exec", "path"}
		}
		entry := entries[r.intn(len(entries))]
		if t.Hist {
			entry = t.Entry
		}
		pre, gen := t.Pre, false
		if entry == "exec" && t.Class == "conc" && len(t.Pre) == 0 && strings.Contains(t.Src, "func(") && strings.Contains(t.Src, "<-") {
			// Compile generates the bodies of function literals at once: on an interpreter that has not seen a
			// *WithContext call yet their plain channel operations are generated non-cancellable (region
			// nocancel-gen); after a first EvalWithContext of anything they are main stream
			if r.bool() {
				pre = []c09step{{"evalctx", "1+1"}}
			} else {
				gen = true
			}
		}
		jobs = append(jobs, c09job{ID: id, Kind: t.Kind, Src: t.Src, Pre: pre, Posts: t.Posts, ParkIn: t.ParkIn, Files: t.Files, K: k, Procs: procs, Single: t.Class == "single", Entry: entry, Hold: t.Hold, Threads: t.Threads})
		metas[id] = meta{t, k, procs, entry, gen}
	}
	procChoices := []int{0, 0, 1, 2, 4}
	for ti := range tmpls {
		t := &tmpls[ti]
		kmin := 1
		if t.KMin > 0 {
			kmin = t.KMin
		}
		for k := kmin; k <= t.KMax; k++ {
			procs := 0
			if t.Class == "conc" {
				procs = procChoices[r.intn(len(procChoices))]
			}
			add(t, k, procs)
		}
		if t.Stall {
			add(t, 0, 0)
		}
		if thorough && t.Class == "conc" && t.KMax > 0 {
			// a second pass over a seeded subset with another GOMAXPROCS
			for n := 0; n < t.KMax/2; n++ {
				add(t, kmin+r.intn(t.KMax-kmin+1), procChoices[1+r.intn(len(procChoices)-1)])
			}
		}
	}
	t0 := time.Now()
	results, err := c09dispatch(jobs, *workers, *out)
	if err != nil {
		return err
	}
	sm.Notes = append(sm.Notes, fmt.Sprintf("%d jobs in %.1fs", len(jobs), time.Since(t0).Seconds()))

	var cases []string
	distinct := distinctSet{}
	maxLat, maxExit := 0.0, 0.0
	wallBy := map[string]float64{}
	for i, res := range results {
		wallBy[metas[i].t.Name] += res.WallMs
	}
	{
		names := sortedKeys(wallBy)
		sort.Slice(names, func(a, b int) bool { return wallBy[names[a]] > wallBy[names[b]] })
		var top []string
		for i, n := range names {
			if i < 4 {
				top = append(top, fmt.Sprintf("%s %.1fs", n, wallBy[n]/1000))
			}
		}
		sm.Notes = append(sm.Notes, "worker time by template (top): "+strings.Join(top, ", "))
		slow := make([]int, 0, len(results))
		for i := range results {
			slow = append(slow, i)
		}
		sort.Slice(slow, func(a, b int) bool { return results[slow[a]].WallMs > results[slow[b]].WallMs })
		var sj []string
		for i, id := range slow {
			if i < 5 {
				sj = append(sj, fmt.Sprintf("%s k=%d procs=%d %.0fms", metas[id].t.Name, metas[id].k, metas[id].pr, results[id].WallMs))
			}
		}
		sm.Notes = append(sm.Notes, "slowest jobs: "+strings.Join(sj, ", "))
	}
	ids := make([]int, 0, len(results))
	for i := range results {
		ids = append(ids, i)
	}
	sort.Ints(ids)
	for _, i := range ids {
		res := results[i]
		m := metas[i]
		t := m.t
		in := map[string]any{"template": t.Name, "k": m.k, "gomaxprocs": m.pr, "source": t.Src,
			"entry_point": map[string]string{"": "EvalWithContext", "exec": "Compile + ExecuteWithContext", "path": "EvalPathWithContext"}[m.en]}
		sm.count("entry:" + in["entry_point"].(string))
		if len(t.Pre) > 0 {
			in["earlier_evaluations"] = t.Pre
		}
		if len(t.Posts) > 0 {
			in["next_evaluations_before_release"] = t.Posts
		}
		if t.ParkIn != "" {
			in["parked"] = "inside the k-th call of the host function host.Tick"
		}
		if t.Hist {
			in["history"] = "every step cancel:<entry point>:<k> of earlier_evaluations is a cancelled evaluation of its own on the same interpreter (entry point \"\" = EvalWithContext, path = EvalPathWithContext, exec = Compile + ExecuteWithContext), parked before its k-th operation; the last one is source / entry_point / k"
			in["files"] = t.Files
			sm.count("history-length:" + fmt.Sprint(strings.Count(t.Name, ">")+1))
			{
				q := strings.Split(t.Name[strings.LastIndex(t.Name, ":")+1:], ">")
				for x := 1; x < len(q); x++ {
					sm.count("history-adjacent-pair:" + q[x-1] + ">" + q[x])
				}
			}
			if res.HistStep > 0 {
				in["observed_run"] = fmt.Sprintf("the cancelled evaluation of step %d of earlier_evaluations (%s): the first one that broke the contract; the history stopped there", res.HistStep, t.Pre[res.HistStep-1].How)
			} else {
				in["observed_run"] = "the last cancelled evaluation; the earlier ones kept the contract"
			}
			in["earlier_cancelled_runs"] = res.HistRuns
		}
		if res.Skipped {
			sm.count("skipped-after-repeated-run-aways")
			continue
		}
		sm.Evaluations++
		sm.count("template:" + t.Name)
		if res.Err != "" {
			reg := ""
			if len(t.Posts) > 0 && strings.Contains(res.Err, "concurrent map") {
				// the abandoned Execute of the cancelled evaluation reads interp.scopes without the lock while the
				// host's next evaluation (an import) writes it: the Go run-time kills the process (timing dependent)
				reg = "next-eval-race"
			}
			sm.HarnessViolations = append(sm.HarnessViolations, refMismatch{ID: i, Region: reg, Input: in, Impl: res.Err, Ref: "the run completes", Note: "the worker process was killed by a panic in an interpreted goroutine"})
			sm.count("host-process-killed:" + reg)
			continue
		}
		if res.Completed {
			sm.count("completed-before-k")
			continue
		}
		if res.Stalled && m.k > 0 && t.Class == "single" && len(t.Posts) > 0 {
			// the machine was so busy that nothing moved for a while and the job was cancelled without a parked
			// goroutine: the further evaluations then came after the goroutine had already stopped; not the scenario
			sm.count("not-parked(standstill-under-load)")
			continue
		}
		sm.CaseIndex[fmt.Sprint(i)] = in
		if res.Stalled {
			sm.count("cancelled-at-standstill")
		} else {
			sm.count("cancelled-at-op")
		}
		if res.HostBlocked > 0 {
			sm.count("goroutines-left-in-host-call(WaitGroup/Mutex)")
		}
		if res.Slow != "" {
			sm.Notes = append(sm.Notes, fmt.Sprintf("case %d (%s k=%d): %s", i, t.Name, m.k, res.Slow))
		}
		if res.LatencyMs > maxLat {
			maxLat = res.LatencyMs
		}
		if res.ExitMs > maxExit {
			maxExit = res.ExitMs
		}
		many := res.MaxOpsAfter > 1
		ticksAfter := res.TicksAfter
		if t.Others {
			// the goroutines started by the program; the evaluation's own goroutine ends its top-level statement
			// in the refreshed root frame (region root-revival, observed exactly in the single-goroutine variants)
			many, ticksAfter = res.OthersMaxOps > 1, res.OthersTicks
		}
		obs := fmt.Sprintf("(mkObs %s %s %s %d)", coqBool(res.Ret), coqBool(many), c09natList(ticksAfter), res.Leftover)
		var scen, ftab string
		nthreads := 1
		switch {
		case t.Class == "conc" && m.gen:
			scen, ftab, nthreads = fmt.Sprintf("(SConcGen %d)", t.Threads), "[]", t.Threads
		case t.Class == "conc":
			scen, ftab, nthreads = fmt.Sprintf("(SConc %d)", t.Threads), "[]", t.Threads
		default:
			if t.Park != nil {
				scen = t.Park.scen(len(res.TicksBefore))
			} else {
				scen = t.CoqScen(len(res.TicksBefore))
			}
			ftab = t.CoqF
			if t.Kind == "expired" {
				nthreads = 0
			}
		}
		refOK := res.Ret && !many && res.Leftover == 0 && len(ticksAfter) <= nthreads
		cases = append(cases, fmt.Sprintf("(%d%%N, %s, %s, %s, %s)", i, ftab, scen, obs, coqBool(refOK)))
		sm.ImplComparisons++
		sm.RefComparisons++
		if len(res.TicksBefore)+len(res.TicksAfter) > 0 || res.Parked > 0 || res.Stalled {
			distinct.add(t.Name, fmt.Sprint(m.k), fmt.Sprint(m.pr), t.Src)
		}
		implView := map[string]any{"returned_ctx_error": res.Ret, "max_ops_after_release_per_goroutine": res.MaxOpsAfter,
			"ticks_before": len(res.TicksBefore), "ticks_after": res.TicksAfter, "others_max_ops_after": res.OthersMaxOps, "others_ticks_after": res.OthersTicks, "goroutines_left": res.Leftover, "left_in_host_call": res.HostBlocked,
			"latency_ms": res.LatencyMs, "ret_err": res.RetErr, "left_stacks": res.LeftStacks}
		if len(sm.Samples) < 6 && (m.k == 7 || res.Stalled) {
			sm.Samples = append(sm.Samples, map[string]any{"input": in, "observed": implView})
		}
		if !refOK {
			region := t.Region
			if m.gen {
				region = "nocancel-gen"
			}
			sm.HarnessViolations = append(sm.HarnessViolations, refMismatch{ID: i, Region: region, Input: in, Impl: implView,
				Ref: "EvalWithContext returns the context error; every goroutine executes at most the operation in flight, causes at most one more tick, and exits"})
			sm.count("contract-violated:" + region)
		}
	}
	sm.Notes = append(sm.Notes, fmt.Sprintf("max latency of EvalWithContext after cancel %.1f ms; max time for goroutines to exit after release %.1f ms (observed, not part of the verdict below %s)", maxLat, maxExit, c09SlowNote))

	hdr := "From Verif Require Import Cancel.Model Cancel.Cases.\n"
	per := 400
	for i, k := 0, 0; i < len(cases); i, k = i+per, k+1 {
		j := i + per
		if j > len(cases) {
			j = len(cases)
		}
		name := fmt.Sprintf("cases_c09_%d.v", k)
		body := fmt.Sprintf("Definition cases : list c09_case := [\n%s\n].\nDefinition MY := Eval vm_compute in c09_mis_y cases.\nPrint MY.\nDefinition MG := Eval vm_compute in c09_mis_g cases.\nPrint MG.\n", strings.Join(cases[i:j], ";\n"))
		if err := os.WriteFile(filepath.Join(*out, name), []byte(hdr+body), 0o644); err != nil {
			return err
		}
		sm.CasesFiles = append(sm.CasesFiles, name)
	}
	sm.DistinctNontriv = len(distinct)
	sm.Rule = "one evaluation = one program template instance cancelled at one point (before interpreted operation k, k = 1..K for every k, or at the standstill when every goroutine is blocked); " +
		"templates: busy loop, recursion, function literals, methods through interfaces, REPL statements, goroutine tree, pipeline, worker pool with WaitGroup, mutex counter, producer/consumer with close and range, select over private channels, " +
		"every blocking construct (send, receive, two-value receive, select without default, range) in main / goroutine / callee / literal; distinct = distinct (template, parameters, k, GOMAXPROCS); non-trivial = the program executed a tick or had a goroutine parked or blocked when cancelled"
	return sm.write(*out)
}

func c09natList(l []int) string {
	it := make([]string, len(l))
	for i, x := range l {
		it[i] = strconv.Itoa(x)
	}
	return coqList(it)
}
