// Command vh is the correspondence harness and the set of translators of /verif.
// It is always built from /repo's current working tree with -tags verif.
package main

import (
	"fmt"
	"os"
	"sort"
)

type subcmd struct {
	run  func(args []string) error
	help string
}

var subcmds = map[string]subcmd{}

func register(name, help string, run func(args []string) error) {
	subcmds[name] = subcmd{run, help}
}

func main() {
	if len(os.Args) < 2 {
		usage()
		os.Exit(2)
	}
	sc, ok := subcmds[os.Args[1]]
	if !ok {
		usage()
		os.Exit(2)
	}
	if err := sc.run(os.Args[2:]); err != nil {
		fmt.Fprintln(os.Stderr, "vh:", os.Args[1]+":", err)
		os.Exit(3)
	}
}

func usage() {
	names := make([]string, 0, len(subcmds))
	for n := range subcmds {
		names = append(names, n)
	}
	sort.Strings(names)
	fmt.Fprintln(os.Stderr, "usage: vh <subcommand> [flags]")
	for _, n := range names {
		fmt.Fprintf(os.Stderr, "  %-12s %s\n", n, subcmds[n].help)
	}
}
