package main

import (
	"flag"
	"fmt"
	"go/ast"
	"go/importer"
	"go/parser"
	"go/token"
	"go/types"
	"os"
	"path/filepath"
	"regexp"
	"sort"
	"strings"
	"sync"
	"sync/atomic"
	"time"
)

// C01: interpreted programs behave exactly like their compiled counterparts.
//   impl = real yaegi (runYaegi, in-process, parallel) on generated programs
//   ref  = the same source built by the Go toolchain (goRefBatch)
//   Y, G = coq/Core (proved fragment): fragment programs are rendered as Gallina terms as well
// Streams: main (random programs over the core language, outside the known-defect regions),
// boundary (each cfg.go shortcut x each enclosing statement form), regions (one small stream per
// known finding), fragment (programs of the proved fragment, evaluated by Y and G inside Coq).

func init() {
	register("c01", "C01 interpreted = compiled: generate programs, run yaegi and the Go toolchain, write cases", runC01)
}

type c1case struct {
	ID     int
	Name   string
	Stream string
	Region string
	Src    string
	Feat   map[string]int
	Size   int
	Impl   outcome
	Ref    outcome
	Valid  bool
	Coq    string  // Gallina rendering (fragment stream)
	Pred   *c1Pred // predicted (defective) yaegi outcome of a region template
}

var (
	c1ImpOnce sync.Once
	c1Imp     types.Importer
	c1ImpMu   sync.Mutex
)

// c1Validate type-checks a single-file program with go/types (go1.22 language version).
func c1Validate(src string) error {
	c1ImpOnce.Do(func() { c1Imp = importer.ForCompiler(token.NewFileSet(), "source", nil) })
	fset := token.NewFileSet()
	f, err := parser.ParseFile(fset, "main.go", src, parser.SkipObjectResolution)
	if err != nil {
		return err
	}
	var first error
	conf := types.Config{Importer: lockedImporter{}, GoVersion: "go1.22", Error: func(e error) {
		if first == nil {
			first = e
		}
	}}
	conf.Check("main", fset, []*ast.File{f}, nil)
	return first
}

type lockedImporter struct{}

func (lockedImporter) Import(path string) (*types.Package, error) {
	c1ImpMu.Lock()
	defer c1ImpMu.Unlock()
	return c1Imp.Import(path)
}

func c1Equal(a, b outcome) bool { return a.Stdout == b.Stdout && a.End == b.End }

func runC01(args []string) error {
	fs := flag.NewFlagSet("c01", flag.ExitOnError)
	out := fs.String("out", "/verif/build/C01", "output directory")
	tier := fs.String("tier", "quick", "quick|thorough")
	seed := fs.Uint64("seed", envSeed(), "seed")
	dump := fs.String("dump", "", "write every generated program into this directory (debugging)")
	nMainF := fs.Int("n", -1, "number of main-stream programs (default by tier)")
	noShrink := fs.Bool("noshrink", false, "do not shrink failing programs")
	fs.Parse(args)
	if err := os.MkdirAll(*out, 0o755); err != nil {
		return err
	}
	t0 := time.Now()
	sm := newSummary("C01")
	// consecutive seeds of the shared splitmix generator give shifted copies of one stream: start from a hashed state
	r := newRng(*seed).fork()
	nMain, nBound, nFrag := 400, 1, 200
	if *tier == "thorough" {
		nMain, nBound, nFrag = 20000, 6, 4000
	}
	if *nMainF >= 0 {
		nMain = *nMainF
	}

	var cases []*c1case
	add := func(c *c1case) {
		c.ID = len(cases) + 1
		c.Name = fmt.Sprintf("p%05d", c.ID)
		cases = append(cases, c)
	}
	// ---- main stream
	for i := 0; i < nMain; i++ {
		pr := r.fork()
		size := 20 + pr.intn(60)
		if pr.chance(25) {
			size = 80 + pr.intn(120)
		}
		src, feat, sz := c1Program(pr, size, pr.chance(12))
		c := &c1case{Stream: "main", Src: src, Feat: feat, Size: sz}
		if reg := c1ClassifyRegion(src); reg != "" {
			// safety net: the generator is meant to stay outside the regions
			c.Region = reg
			sm.count("main-in-region:" + reg)
		}
		add(c)
	}
	// ---- boundary stream, region streams, fragment stream
	for _, c := range c1BoundaryCases(r.fork(), nBound) {
		add(c)
	}
	for _, c := range c1ShapeCases(r.fork(), sm.count) {
		add(c)
	}
	for _, c := range c1RedeclCases(r.fork(), sm.count) {
		add(c)
	}
	for _, c := range c1IdentityCases(r.fork(), sm.count) {
		add(c)
	}
	for _, c := range c1NestCases(r.fork(), sm.count) {
		add(c)
	}
	for _, c := range c1RegionCases(r.fork(), *tier == "thorough") {
		add(c)
	}
	for _, c := range c1FragmentCases(r.fork(), nFrag) {
		add(c)
	}

	// ---- validity (go/types)
	c1Validate("package main\nimport (\"fmt\"; \"sort\")\nfunc main() { fmt.Println(sort.IsSorted(nil)) }\n") // warm the importer
	invalid := 0
	var invMu sync.Mutex
	var firstInvalid []string
	parallelMap(len(cases), 0, func(i int) {
		c := cases[i]
		if err := c1Validate(c.Src); err != nil {
			invMu.Lock()
			invalid++
			if len(firstInvalid) < 5 {
				firstInvalid = append(firstInvalid, c.Stream+" "+c.Name+": "+err.Error())
			}
			invMu.Unlock()
			return
		}
		c.Valid = true
	})
	sm.Distribution["discarded-invalid"] = invalid
	for _, m := range firstInvalid {
		sm.Notes = append(sm.Notes, "discarded (go/types): "+m)
	}
	tGen := time.Since(t0)

	if *dump != "" {
		os.MkdirAll(*dump, 0o755)
		for _, c := range cases {
			os.WriteFile(filepath.Join(*dump, c.Name+".go"), []byte(c.Src), 0o644)
		}
	}

	// ---- run: yaegi in this process (parallel) while the toolchain builds the batch
	var valid []*c1case
	for _, c := range cases {
		if c.Valid {
			valid = append(valid, c)
		}
	}
	var wg sync.WaitGroup
	var refErr error
	refRes := map[string]outcome{}
	wg.Add(1)
	go func() {
		defer wg.Done()
		// batches keep the scratch module small enough
		const per = 1500
		for i := 0; i < len(valid); i += per {
			j := i + per
			if j > len(valid) {
				j = len(valid)
			}
			var progs []goProg
			for _, c := range valid[i:j] {
				progs = append(progs, goProg{Name: c.Name, Files: map[string]string{"main.go": c.Src}})
			}
			res, err := c1RefBatch(progs, 20*time.Second)
			if err != nil {
				refErr = err
				return
			}
			for k, v := range res {
				refRes[k] = v
			}
		}
	}()
	tY0 := time.Now()
	durs := make([]time.Duration, len(valid))
	// a change that makes yaegi loop on common programs must not make the check take hours: after a
	// dozen time-outs the remaining programs get a short time limit
	perProg := 8 * time.Second
	if *tier == "thorough" {
		perProg = 20 * time.Second
	}
	var nTimeouts int32
	parallelMap(len(valid), 12, func(i int) {
		t := time.Now()
		lim := perProg
		if atomic.LoadInt32(&nTimeouts) > 12 {
			lim = 1500 * time.Millisecond
		}
		valid[i].Impl = c1RunYaegiChild(valid[i].Src, lim)
		if valid[i].Impl.End == "timeout" {
			atomic.AddInt32(&nTimeouts, 1)
		}
		durs[i] = time.Since(t)
	})
	tYaegi := time.Since(tY0)
	wg.Wait()
	// a timeout under load is re-examined alone before it counts
	for i, c := range valid {
		if c.Impl.End == "timeout" && (nTimeouts <= 4 || *tier == "thorough" && nTimeouts <= 12) {
			c.Impl = c1RunYaegiChild(c.Src, 90*time.Second)
			sm.count("yaegi-timeout-rerun")
		}
		if durs[i] > 5*time.Second {
			sm.Notes = append(sm.Notes, fmt.Sprintf("slow under yaegi: %s %.1fs", c.Name, durs[i].Seconds()))
		}
	}
	if refErr != nil {
		return refErr
	}
	tRun := time.Since(t0)

	// ---- compare
	distinct := distinctSet{}
	for _, c := range valid {
		c.Ref = refRes[c.Name]
		sm.Evaluations++
		sm.RefComparisons++
		sm.count("stream:" + c.Stream)
		if c.Region != "" {
			sm.count("region:" + c.Region)
		}
		for k, v := range c.Feat {
			sm.Distribution["feat:"+k] += v
		}
		if strings.HasPrefix(c.Ref.End, "panic:") {
			sm.count("end:panic")
		} else {
			sm.count("end:" + strings.SplitN(c.Ref.End, ":", 2)[0])
		}
		if strings.Count(c.Ref.Stdout, "\n") >= 3 {
			distinct.add(c.Src)
		}
		in := map[string]any{"stream": c.Stream, "name": c.Name, "source": c.Src}
		sm.CaseIndex[fmt.Sprint(c.ID)] = map[string]any{"stream": c.Stream, "name": c.Name, "source": clip(c.Src, 3000)}
		if strings.HasPrefix(c.Ref.End, "compile-error") {
			// the toolchain rejected what go/types accepted: generator defect, not a finding
			sm.count("ref-compile-error")
			sm.Notes = append(sm.Notes, "toolchain rejected "+c.Name+": "+c.Ref.End)
			continue
		}
		if c.Ref.End == "timeout" {
			// the compiled program does not terminate in time: a defect of the generator's cost bound, not a finding
			sm.count("ref-timeout")
			continue
		}
		if c1Equal(c.Impl, c.Ref) {
			continue
		}
		region := c.Region
		note := ""
		if region == "" && c.Impl.End == c.Ref.End && c1NegZero(c.Impl.Stdout) == c1NegZero(c.Ref.Stdout) {
			// the outputs differ only in the sign of floating-point zeros (finding C01-float-negzero);
			// this region is decided on the outputs, not on the source
			region = "float-negzero"
		}
		if region != "" && c.Pred != nil && (c.Impl.Stdout != c.Pred.Stdout || !strings.HasPrefix(c.Impl.End, c.Pred.End)) {
			// a region template whose wrong output is not the predicted one: not attributable
			note = "region " + region + ": yaegi's output differs from the predicted defect output"
			region = ""
		}
		if c.Stream == "main" || c.Stream == "boundary" {
			if reg := c1ClassifyRegion(c.Src); reg != "" && region == "" {
				note = "classified syntactically: " + reg
			}
		}
		sm.RefMismatches = append(sm.RefMismatches, refMismatch{ID: c.ID, Region: region, Input: in,
			Impl: map[string]string{"stdout": clip(c.Impl.Stdout, 1500), "end": c.Impl.End},
			Ref:  map[string]string{"stdout": clip(c.Ref.Stdout, 1500), "end": c.Ref.End}, Note: note})
	}
	// unexplained mismatches first, the ones that shrink best (boundary cells, short sources) in front:
	// the driver reports the first one, with a shrunk program
	srcOf := func(m refMismatch) string {
		if mm, ok := m.Input.(map[string]any); ok {
			if s, ok := mm["source"].(string); ok {
				return s
			}
		}
		return ""
	}
	rank := func(m refMismatch) int {
		if m.Region != "" {
			return 1 << 30
		}
		n := len(srcOf(m))
		if mm, ok := m.Input.(map[string]any); ok && mm["stream"] == "main" {
			n += 1 << 20
		}
		return n
	}
	sort.SliceStable(sm.RefMismatches, func(i, j int) bool { return rank(sm.RefMismatches[i]) < rank(sm.RefMismatches[j]) })
	if !*noShrink {
		for i := 0; i < len(sm.RefMismatches) && i < 2; i++ {
			m := sm.RefMismatches[i]
			if m.Region != "" || time.Since(t0) > 75*time.Second {
				break
			}
			src := srcOf(m)
			if small := c1Shrink(src, 25*time.Second); small != src {
				m.Input.(map[string]any)["shrunk"] = small
			}
		}
	}
	sm.ImplComparisons = 0
	// ---- Coq cases (fragment stream + loop-variable region programs of the fragment)
	files, ncoq, err := c1WriteCases(*out, valid)
	if err != nil {
		return err
	}
	sm.CasesFiles = files
	sm.ImplComparisons = ncoq
	sm.DistinctNontriv = len(distinct)
	sm.Rule = "one evaluation = one generated program run by yaegi and by the compiled binary, stdout bytes and canonical ending compared; " +
		"distinct = distinct sources; non-trivial = the reference run prints at least 3 lines"
	for _, c := range valid {
		if len(sm.Samples) < 3 && c.Stream == "main" && c.Size < 40 {
			sm.Samples = append(sm.Samples, map[string]any{"stream": c.Stream, "source": c.Src, "stdout": clip(c.Ref.Stdout, 400), "end": c.Ref.End})
		}
	}
	sm.Notes = append(sm.Notes, fmt.Sprintf("timing: generate+validate %.1fs, yaegi %.1fs, all runs done at %.1fs, total %.1fs", tGen.Seconds(), tYaegi.Seconds(), tRun.Seconds(), time.Since(t0).Seconds()))
	keys := make([]string, 0)
	for k := range sm.Distribution {
		keys = append(keys, k)
	}
	sort.Strings(keys)
	return sm.write(*out)
}

var c1NegZeroRe = regexp.MustCompile(`(^|[^0-9.eE+-])-0($|[^0-9.xX])`)

// c1NegZero replaces the token -0 by 0.
func c1NegZero(s string) string {
	for i := 0; i < 3; i++ {
		s = c1NegZeroRe.ReplaceAllString(s, "${1}0${2}")
	}
	return s
}

func clip(s string, n int) string {
	if len(s) <= n {
		return s
	}
	return s[:n] + "…"
}
