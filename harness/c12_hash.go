package main

// The structural hash of coq/Tc/Syntax.v (prog_hash), computed on the harness's own AST.
// It ties Mutations.mutate (evaluated by coqc on the original program) to the rewrite the harness ran.

const c12hmod = 4294967291

func hmix(a, b uint64) uint64 { return (a*1000003 + b + 7) % c12hmod }

func mkindCode(k mkind) uint64 { return uint64(k) + 1 }

func (t mty) hash() uint64 {
	switch t.Tag {
	case "B":
		return hmix(11, mkindCode(t.K))
	case "N":
		return hmix(hmix(12, uint64(t.N)), mkindCode(t.K))
	case "S":
		return hmix(13, uint64(t.N))
	default:
		return hmix(14, mkindCode(t.K))
	}
}

var munopCode = map[string]uint64{"-": 1, "+": 2, "!": 3, "^": 4}
var mbinopCode = map[string]uint64{"+": 1, "-": 2, "*": 3, "/": 4, "%": 5, "&": 6, "|": 7, "^": 8, "&^": 9, "&&": 10, "||": 11,
	"==": 12, "!=": 13, "<": 14, "<=": 15, ">": 16, ">=": 17, "<<": 18, ">>": 19}

func (e *mexpr) headHash() uint64 {
	switch e.Tag {
	case "Int":
		return hmix(21, uint64(e.N))
	case "Float":
		return hmix(22, uint64(e.N))
	case "Str":
		return hmix(23, uint64(e.N))
	case "Bool":
		if e.B {
			return hmix(24, 1)
		}
		return hmix(24, 0)
	case "Var":
		return hmix(25, uint64(e.N))
	case "Un":
		return hmix(26, munopCode[e.Op])
	case "Bin":
		return hmix(27, mbinopCode[e.Op])
	case "Call":
		return hmix(28, uint64(e.N))
	case "Conv":
		return hmix(29, e.T.hash())
	case "Field":
		return hmix(30, uint64(e.N))
	case "Index":
		return 31
	case "Len":
		return 32
	case "SLit":
		return hmix(33, uint64(e.N))
	case "LLit":
		return hmix(34, mkindCode(e.T.K))
	}
	panic("headHash " + e.Tag)
}

func (e *mexpr) hash() uint64 {
	acc := e.headHash()
	for _, a := range e.Args {
		acc = hmix(acc, a.hash())
	}
	return hmix(acc, 99)
}

func mexprsHash(acc uint64, l []*mexpr) uint64 {
	for _, e := range l {
		acc = hmix(acc, e.hash())
	}
	return hmix(acc, 98)
}

func mblockHash(acc uint64, l []*mstmt) uint64 {
	for _, s := range l {
		acc = hmix(acc, s.hash())
	}
	return hmix(acc, 97)
}

func (s *mstmt) hash() uint64 {
	var h uint64
	switch s.Tag {
	case "Var":
		h = hmix(hmix(41, uint64(s.N)), s.T.hash())
	case "Define":
		h = hmix(42, uint64(s.N))
	case "Assign":
		h = 43
	case "Call":
		h = hmix(44, uint64(s.N))
	case "Print":
		h = 45
	case "Return":
		h = 46
	case "If":
		h = 47
	case "For":
		h = 48
	}
	return mblockHash(mblockHash(mexprsHash(h, s.Es), s.B1), s.B2)
}

func (p *mprog) hash() uint64 {
	acc := uint64(61)
	for _, f := range p.Funcs {
		a := uint64(51)
		for _, t := range f.Params {
			a = hmix(a, t.hash())
		}
		a = hmix(a, 52)
		for _, t := range f.Results {
			a = hmix(a, t.hash())
		}
		acc = hmix(acc, mblockHash(a, f.Body))
	}
	return acc
}
