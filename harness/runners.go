package main

import (
	"bytes"
	"context"
	"encoding/json"
	"errors"
	"flag"
	"fmt"
	"io"
	"os"
	"os/exec"
	"path/filepath"
	"reflect"
	"regexp"
	"runtime"
	"strings"
	"sync"
	"time"

	"github.com/traefik/yaegi/interp"
	"github.com/traefik/yaegi/stdlib"
)

// Shared runners: a Go program (one main package, single file) is executed
//   - by yaegi, in-process (runYaegi) or in a child process of this binary (runYaegiChild),
//   - by the Go toolchain (goRefBatch: all programs of a batch are built with one `go build`).
// Both return a canonical outcome so that the two can be compared byte for byte.

// outcome of one program run, canonicalised (DESIGN.md 2.4).
type outcome struct {
	Stdout string `json:"stdout"`
	// End: "ok" | "panic:<class-or-value>" | "exit:<n>" | "timeout" | "compile-error:<msg>" | "host-crash:<msg>"
	End string `json:"end"`
}

func (o outcome) String() string { return o.Stdout + "\x00" + o.End }

// classifyPanic maps a run-time error message (Go run-time wording or reflect's wording as
// surfaced by yaegi) to a small enum; explicit panic values are kept verbatim.
func classifyPanic(msg string) string {
	m := strings.ToLower(msg)
	switch {
	case strings.Contains(m, "index out of range"):
		return "IndexOutOfRange"
	case strings.Contains(m, "slice bounds out of range"), strings.Contains(m, "slice index out of bounds"), strings.Contains(m, "reflect.value.slice"), strings.Contains(m, "reflect.value.slice3"):
		return "SliceBounds"
	case strings.Contains(m, "nil pointer dereference"), strings.Contains(m, "invalid memory address"), strings.Contains(m, "on zero value"), strings.Contains(m, "call of reflect.value.elem on"), strings.Contains(m, "nil pointer"):
		return "NilDeref"
	case strings.Contains(m, "divide by zero"):
		return "DivByZero"
	case strings.Contains(m, "assignment to entry in nil map"):
		return "NilMapWrite"
	case strings.Contains(m, "interface conversion"), strings.Contains(m, "type assertion"):
		return "BadAssert"
	case strings.Contains(m, "close of closed channel"):
		return "CloseClosed"
	case strings.Contains(m, "close of nil channel"):
		return "CloseNil"
	case strings.Contains(m, "send on closed channel"):
		return "SendClosed"
	case strings.Contains(m, "negative shift amount"):
		return "NegShift"
	case strings.Contains(m, "makeslice"), strings.Contains(m, "reflect.makeslice"):
		return "MakeSlice"
	case strings.Contains(m, "all goroutines are asleep"):
		return "Deadlock"
	case strings.Contains(m, "stack overflow"), strings.Contains(m, "stack exceeds"):
		return "StackOverflow"
	}
	return "value:" + msg
}

var goexitRe = regexp.MustCompile(`(?m)^exit status (\d+)$`)

// ---------------------------------------------------------------- yaegi

type yaegiOpts struct {
	Timeout      time.Duration
	Tags         []string
	GoPath       string
	Args         []string
	Env          []string
	Unrestricted bool
}

// runYaegi evaluates src in a fresh interpreter in this process; panics of the host are caught.
func runYaegi(src string, o yaegiOpts) (res outcome) {
	var stdout, stderr bytes.Buffer
	if o.Timeout == 0 {
		o.Timeout = 20 * time.Second
	}
	done := make(chan outcome, 1)
	go func() {
		var r outcome
		defer func() {
			if p := recover(); p != nil {
				r.Stdout = stdout.String()
				r.End = "host-crash:" + fmt.Sprint(p)
			}
			done <- r
		}()
		i := interp.New(interp.Options{Stdout: &stdout, Stderr: &stderr, BuildTags: o.Tags, GoPath: o.GoPath, Args: o.Args, Env: o.Env, Unrestricted: o.Unrestricted})
		if err := i.Use(stdlib.Symbols); err != nil {
			r.End = "host-crash:use:" + err.Error()
			return
		}
		ctx, cancel := context.WithTimeout(context.Background(), o.Timeout)
		defer cancel()
		_, err := i.EvalWithContext(ctx, src)
		r.Stdout = stdout.String()
		r.End = yaegiEnd(err)
	}()
	select {
	case r := <-done:
		return r
	case <-time.After(o.Timeout + 5*time.Second):
		return outcome{Stdout: stdout.String(), End: "timeout"}
	}
}

func yaegiEnd(err error) string {
	if err == nil {
		return "ok"
	}
	var p interp.Panic
	if errors.As(err, &p) {
		return "panic:" + panicValueString(p.Value)
	}
	if errors.Is(err, context.DeadlineExceeded) || errors.Is(err, context.Canceled) {
		return "timeout"
	}
	return "compile-error:" + firstLine(err.Error())
}

// panicValueString renders a panic value the way the Go run-time prints it after "panic: ".
func panicValueString(v interface{}) string {
	switch x := v.(type) {
	case nil:
		return classifyPanic("nil")
	case runtime.Error:
		return classifyPanic(x.Error())
	case error:
		return classifyPanic(x.Error())
	case fmt.Stringer:
		return classifyPanic(x.String())
	case string:
		return classifyPanic(x)
	case *reflect.ValueError:
		return classifyPanic(x.Error())
	}
	rv := reflect.ValueOf(v)
	switch rv.Kind() {
	case reflect.Int, reflect.Int8, reflect.Int16, reflect.Int32, reflect.Int64,
		reflect.Uint, reflect.Uint8, reflect.Uint16, reflect.Uint32, reflect.Uint64, reflect.Uintptr,
		reflect.Bool, reflect.Float32, reflect.Float64, reflect.String:
		return classifyPanic(fmt.Sprint(v))
	}
	return "value:(" + fmt.Sprintf("%T", v) + ")"
}

func firstLine(s string) string {
	if i := strings.IndexByte(s, '\n'); i >= 0 {
		return s[:i]
	}
	return s
}

func init() {
	register("yaegi-run", "internal: evaluate one Go source file with yaegi and print the canonical outcome as JSON", func(args []string) error {
		fs := flag.NewFlagSet("yaegi-run", flag.ExitOnError)
		timeout := fs.Duration("timeout", 20*time.Second, "timeout")
		fs.Parse(args)
		b, err := os.ReadFile(fs.Arg(0))
		if err != nil {
			return err
		}
		r := runYaegi(string(b), yaegiOpts{Timeout: *timeout})
		return json.NewEncoder(os.Stdout).Encode(r)
	})
}

// runYaegiChild runs the source in a child process of this binary, so that a crash of the host
// (fatal error, os.Exit, unrecovered panic in another goroutine) is observed, not suffered.
func runYaegiChild(src string, timeout time.Duration) outcome {
	f, err := os.CreateTemp("", "vh-y-*.go")
	if err != nil {
		return outcome{End: "host-crash:tempfile"}
	}
	defer os.Remove(f.Name())
	f.WriteString(src)
	f.Close()
	self, _ := os.Executable()
	ctx, cancel := context.WithTimeout(context.Background(), timeout+15*time.Second)
	defer cancel()
	cmd := exec.CommandContext(ctx, self, "yaegi-run", "-timeout", timeout.String(), f.Name())
	var out, errb bytes.Buffer
	cmd.Stdout, cmd.Stderr = &out, &errb
	rerr := cmd.Run()
	var r outcome
	if json.Unmarshal(out.Bytes(), &r) == nil && r.End != "" {
		return r
	}
	if ctx.Err() != nil {
		return outcome{End: "timeout"}
	}
	return outcome{Stdout: out.String(), End: "host-crash:" + firstLine(fmt.Sprint(rerr)) + ":" + firstLine(errb.String())}
}

// parallelMap runs f over n indices on all cores.
func parallelMap(n int, workers int, f func(i int)) {
	if workers <= 0 {
		workers = runtime.NumCPU()
	}
	var wg sync.WaitGroup
	ch := make(chan int)
	for w := 0; w < workers; w++ {
		wg.Add(1)
		go func() {
			defer wg.Done()
			for i := range ch {
				f(i)
			}
		}()
	}
	for i := 0; i < n; i++ {
		ch <- i
	}
	close(ch)
	wg.Wait()
}

// ---------------------------------------------------------------- Go toolchain reference

type goProg struct {
	Name  string            // directory / binary name (identifier characters only)
	Files map[string]string // file name -> source; single-file programs use "main.go"
}

// goRefBatch builds all programs with one `go build` in a scratch module outside /repo and /verif,
// runs each binary, and returns the canonical outcomes. The scratch directory is removed.
func goRefBatch(progs []goProg, timeout time.Duration, race bool) (map[string]outcome, error) {
	res := map[string]outcome{}
	if len(progs) == 0 {
		return res, nil
	}
	dir, err := os.MkdirTemp("", "vh-ref-*")
	if err != nil {
		return nil, err
	}
	defer os.RemoveAll(dir)
	if err := os.WriteFile(filepath.Join(dir, "go.mod"), []byte("module ref\n\ngo 1.22\n"), 0o644); err != nil {
		return nil, err
	}
	for _, p := range progs {
		d := filepath.Join(dir, p.Name)
		for fn, src := range p.Files {
			full := filepath.Join(d, fn)
			os.MkdirAll(filepath.Dir(full), 0o755)
			if err := os.WriteFile(full, []byte(src), 0o644); err != nil {
				return nil, err
			}
		}
	}
	bin := filepath.Join(dir, "bin")
	os.MkdirAll(bin, 0o755)
	args := []string{"build", "-o", bin + "/"}
	if race {
		args = append(args, "-race")
	}
	args = append(args, "-gcflags=-e", "./...")
	cmd := exec.Command("go", args...)
	cmd.Dir = dir
	cmd.Env = append(os.Environ(), "GOFLAGS=-mod=mod", "GOPROXY=off", "GOSUMDB=off", "GOTOOLCHAIN=local", "GO111MODULE=on")
	bout, berr := cmd.CombinedOutput()
	buildErrs := map[string]string{}
	if berr != nil {
		// attribute compile errors to programs: lines look like "name/main.go:3:2: ..." or "# ref/name"
		cur := ""
		for _, l := range strings.Split(string(bout), "\n") {
			if strings.HasPrefix(l, "# ref/") {
				cur = strings.Fields(strings.TrimPrefix(l, "# ref/"))[0]
				if i := strings.IndexByte(cur, '/'); i >= 0 {
					cur = cur[:i]
				}
				continue
			}
			if cur != "" && l != "" && buildErrs[cur] == "" {
				buildErrs[cur] = l
			}
		}
		if len(buildErrs) == 0 {
			return nil, fmt.Errorf("go build failed: %s", string(bout))
		}
	}
	var mu sync.Mutex
	parallelMap(len(progs), 0, func(i int) {
		p := progs[i]
		var r outcome
		if e, bad := buildErrs[p.Name]; bad {
			r = outcome{End: "compile-error:" + e}
		} else {
			r = runBinary(filepath.Join(bin, p.Name), timeout)
		}
		mu.Lock()
		res[p.Name] = r
		mu.Unlock()
	})
	return res, nil
}

func runBinary(path string, timeout time.Duration) outcome {
	ctx, cancel := context.WithTimeout(context.Background(), timeout)
	defer cancel()
	cmd := exec.CommandContext(ctx, path)
	var out, errb bytes.Buffer
	cmd.Stdout, cmd.Stderr = &out, &errb
	cmd.Stdin = io.LimitReader(strings.NewReader(""), 0)
	err := cmd.Run()
	r := outcome{Stdout: out.String()}
	switch {
	case ctx.Err() != nil:
		r.End = "timeout"
	case err == nil:
		r.End = "ok"
	default:
		r.End = goEnd(errb.String(), err)
	}
	return r
}

var goroutineHdr = regexp.MustCompile(`(?m)^goroutine \d+ \[`)

// goEnd canonicalises the stderr of a compiled program that ended abnormally.
func goEnd(stderr string, err error) string {
	if i := strings.Index(stderr, "panic: "); i >= 0 {
		rest := stderr[i+len("panic: "):]
		if loc := goroutineHdr.FindStringIndex(rest); loc != nil {
			rest = rest[:loc[0]]
		}
		msg := strings.TrimSpace(rest)
		// "panic: X [recovered]\n\tpanic: Y" -> last panic wins
		if j := strings.LastIndex(msg, "panic: "); j >= 0 {
			msg = msg[j+len("panic: "):]
		}
		msg = strings.TrimSuffix(strings.TrimSpace(firstLine(msg)), " [recovered]")
		// errors print as their text; runtime errors carry the prefix "runtime error: "
		msg = strings.TrimPrefix(msg, "runtime error: ")
		// fmt-style wrapped values: main.T{...} stay as they are
		if strings.HasPrefix(msg, "main.") || strings.HasPrefix(msg, "(") {
			return "panic:value:(" + msg + ")"
		}
		// error values created by errors.New / fmt.Errorf print as &errors.errorString{s:"x"}? no: the run-time prints the Error() text
		return "panic:" + classifyPanic(msg)
	}
	if strings.Contains(stderr, "fatal error: all goroutines are asleep") {
		return "panic:Deadlock"
	}
	if strings.Contains(stderr, "fatal error: stack overflow") || strings.Contains(stderr, "goroutine stack exceeds") {
		return "panic:StackOverflow"
	}
	var ee *exec.ExitError
	if errors.As(err, &ee) {
		return fmt.Sprintf("exit:%d", ee.ExitCode())
	}
	return "exit:?"
}
