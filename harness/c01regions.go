package main

import (
	"go/ast"
	"go/importer"
	"go/types"
	"go/parser"
	"go/token"
)

// Known-defect regions of yaegi relevant to C01, each decided syntactically on the Go source.
// The main stream and the boundary stream stay outside all of them (c1ClassifyRegion(src) == "");
// c01templates.go exercises each region with small programs whose wrong output is predicted.
//
//	loopvar-assign      3-clause for with `:=` init: the body writes (or takes the address of) the loop variable
//	loopvar-nocond      for with `:=` init and no condition or no post: a function literal in the body captures the variable
//	loopvar-second      3-clause for with `i, j := ...`: a function literal captures a variable other than the first
//	loopvar-defer       defer of a function literal inside a loop body that uses a per-iteration loop variable or a
//	                    variable declared (:= / var) directly in that loop body
//	loop-empty-body     3-clause for with `:=` init, or range statement, with an empty body
//	land-reread         `x && f()` / `x || f()` with a variable-like left operand and a call on the right
//	return-named        return with explicit results mentioning a named result of the function
//	switch-init-tag     switch with an init statement and a tag that is not a plain identifier or literal
//	switch-default-order  switch whose default clause is not the last clause
//	switch-case-list    case clause with several expressions: a non-first operator expression (tag) / any second condition (no tag)
//	label-in-case       labelled statement directly inside a case clause
//	named-result-zero   function with named results that does not start by assigning each of them
//	for-init-only       `for init; ; {}`: the init statement is executed again on every iteration
//	multi-assign-call   parallel assignment `a, b = x, y` where some source is a call, conversion or composite literal
//	paren-literal       a parenthesised literal operand, e.g. (s >= ("q")) || b
//	shift-count-const   assignment from a shift whose count nests an operator expression with a constant operand
func c1ClassifyRegion(src string) string {
	fset := token.NewFileSet()
	f, err := parser.ParseFile(fset, "main.go", src, parser.SkipObjectResolution)
	if err != nil {
		return ""
	}
	region := ""
	set := func(r string) {
		if region == "" {
			region = r
		}
	}
	// package-level variables and functions with named results
	globals := map[string]bool{}
	namedFn := map[string]bool{}
	for _, d := range f.Decls {
		switch x := d.(type) {
		case *ast.GenDecl:
			if x.Tok == token.VAR {
				for _, sp := range x.Specs {
					for _, id := range sp.(*ast.ValueSpec).Names {
						globals[id.Name] = true
					}
				}
			}
		case *ast.FuncDecl:
			if x.Type.Results != nil {
				for _, fl := range x.Type.Results.List {
					if len(fl.Names) > 0 {
						namedFn[x.Name.Name] = true
					}
				}
			}
		}
	}
	ast.Inspect(f, func(n ast.Node) bool {
		switch x := n.(type) {
		case *ast.ForStmt:
			c1ClassifyFor(x, set)
			c1DeferInLoop(x.Body, c1BodyDeclared(x.Body), set)
		case *ast.RangeStmt:
			c1DeferInLoop(x.Body, c1BodyDeclared(x.Body), set)
			if c1EmptyBody(x.Body) {
				set("loop-empty-body")
			}
			if n := len(x.Body.List); n > 0 {
				if as, ok := x.Body.List[n-1].(*ast.AssignStmt); ok && len(as.Lhs) == 1 && len(as.Rhs) == 1 {
					if id, ok := as.Lhs[0].(*ast.Ident); ok && id.Name == "_" {
						if _, ok := c1Unparen(as.Rhs[0]).(*ast.BinaryExpr); ok {
							set("range-blank-last")
						}
					}
				}
			}
			var names []string
			if x.Tok == token.DEFINE {
				for _, e := range []ast.Expr{x.Key, x.Value} {
					if id, ok := e.(*ast.Ident); ok && id.Name != "_" {
						names = append(names, id.Name)
					}
				}
			}
			c1DeferInLoop(x.Body, names, set)
		case *ast.ReturnStmt:
			if c1BuiltinResult(x) {
				set("return-builtin")
			}
		case *ast.ParenExpr:
			switch x.X.(type) {
			case *ast.BasicLit, *ast.Ident:
				set("paren-literal")
			}
		case *ast.BinaryExpr:
			if (x.Op == token.LAND || x.Op == token.LOR) && c1VarLike(x.X) && c1HasCall(x.Y) {
				set("land-reread")
			}
			if x.Op == token.LAND || x.Op == token.LOR {
				ast.Inspect(x.X, func(m ast.Node) bool {
					if _, ok := m.(*ast.KeyValueExpr); ok {
						set("land-keyed-literal")
					}
					return true
				})
			}
		case *ast.FuncDecl:
			c1ClassifyReturns(x.Type, x.Body, set)
			if x.Body != nil {
				// variables assigned a struct literal somewhere in the function and mentioned in a function literal
				assigned := map[string]bool{}
				ast.Inspect(x.Body, func(m ast.Node) bool {
					if as, ok := m.(*ast.AssignStmt); ok && as.Tok == token.ASSIGN && len(as.Lhs) == 1 && len(as.Rhs) == 1 {
						if id, ok := as.Lhs[0].(*ast.Ident); ok {
							if cl, ok := c1Unparen(as.Rhs[0]).(*ast.CompositeLit); ok {
								if _, ok := cl.Type.(*ast.Ident); ok {
									assigned[id.Name] = true
								}
							}
						}
					}
					return true
				})
				if len(assigned) > 0 {
					var names []string
					for n := range assigned {
						names = append(names, n)
					}
					if c1FuncLitMentions(x.Body, names) {
						set("closure-struct-lit")
					}
				}
			}
		case *ast.FuncLit:
			c1ClassifyReturns(x.Type, x.Body, set)
			// a function literal that compares its variadic parameter with nil
			if ps := x.Type.Params; ps != nil && len(ps.List) > 0 {
				last := ps.List[len(ps.List)-1]
				if _, ok := last.Type.(*ast.Ellipsis); ok {
					for _, nm := range last.Names {
						ast.Inspect(x.Body, func(m ast.Node) bool {
							if be, ok := m.(*ast.BinaryExpr); ok && (be.Op == token.EQL || be.Op == token.NEQ) {
								for _, pair := range [][2]ast.Expr{{be.X, be.Y}, {be.Y, be.X}} {
									a, aok := c1Unparen(pair[0]).(*ast.Ident)
									b, bok := c1Unparen(pair[1]).(*ast.Ident)
									if aok && bok && a.Name == nm.Name && b.Name == "nil" {
										set("variadic-lit-nil")
									}
								}
							}
							return true
						})
					}
				}
			}
		case *ast.SwitchStmt:
			if x.Init != nil && x.Tag != nil {
				switch c1Unparen(x.Tag).(type) {
				case *ast.Ident, *ast.BasicLit:
				default:
					set("switch-init-tag")
				}
			}
			for i, c := range x.Body.List {
				cc := c.(*ast.CaseClause)
				if cc.List == nil && i != len(x.Body.List)-1 {
					set("switch-default-order")
				}
				for j, e := range cc.List {
					if j == 0 {
						continue
					}
					if x.Tag == nil {
						set("switch-case-list")
						continue
					}
					switch c1Unparen(e).(type) {
					case *ast.Ident, *ast.BasicLit:
					default:
						set("switch-case-list")
					}
				}
			}
		case *ast.CaseClause:
			for _, s := range x.Body {
				if _, ok := s.(*ast.LabeledStmt); ok {
					set("label-in-case")
				}
			}
		case *ast.AssignStmt:
			if x.Tok == token.ASSIGN && len(x.Lhs) == 1 && len(x.Rhs) == 1 {
				if _, ok := x.Lhs[0].(*ast.ParenExpr); ok {
					if _, ok := c1Unparen(x.Rhs[0]).(*ast.CompositeLit); ok {
						set("paren-dst-lit")
					}
				}
			}
			if x.Tok == token.ASSIGN && len(x.Rhs) == 1 {
				if call, ok := c1Unparen(x.Rhs[0]).(*ast.CallExpr); ok {
					if fid, ok := call.Fun.(*ast.Ident); ok && namedFn[fid.Name] {
						for _, l := range x.Lhs {
							if id, ok := l.(*ast.Ident); ok && globals[id.Name] {
								set("named-result-alias")
							}
						}
					}
				}
			}
			if len(x.Lhs) == 2 && len(x.Rhs) == 1 {
				if _, ok := c1Unparen(x.Rhs[0]).(*ast.IndexExpr); ok {
					set("map-ok-miss")
				}
			}
			if x.Tok == token.ASSIGN && len(x.Lhs) > 1 && len(x.Rhs) > 1 {
				for _, r := range x.Rhs {
					switch c1Unparen(r).(type) {
					case *ast.CallExpr, *ast.CompositeLit:
						set("multi-assign-call")
					}
				}
			}
			for _, r := range x.Rhs {
				ast.Inspect(r, func(m ast.Node) bool {
					if b, ok := m.(*ast.BinaryExpr); ok && (b.Op == token.SHL || b.Op == token.SHR) && c1NestedConstOp(b.Y, 0) {
						set("shift-count-const")
					}
					return true
				})
			}
		}
		return true
	})
	if region == "" {
		region = c1TypedRegion(fset, f)
	}
	return region
}

// c1TypedRegion: regions that need the types of the operands (decided with go/types).
//
//  multi-assign-iface  tuple assignment `a, b = x, y` with a destination of interface type
func c1TypedRegion(fset *token.FileSet, f *ast.File) string {
	hasTuple := false
	ast.Inspect(f, func(n ast.Node) bool {
		if as, ok := n.(*ast.AssignStmt); ok && as.Tok == token.ASSIGN && len(as.Lhs) > 1 && len(as.Rhs) > 1 {
			hasTuple = true
		}
		return !hasTuple
	})
	if !hasTuple {
		return ""
	}
	c1ImpOnce.Do(func() { c1Imp = importer.ForCompiler(token.NewFileSet(), "source", nil) })
	info := &types.Info{Types: map[ast.Expr]types.TypeAndValue{}}
	conf := types.Config{Importer: lockedImporter{}, GoVersion: "go1.22", Error: func(error) {}}
	conf.Check("main", fset, []*ast.File{f}, info)
	region := ""
	ast.Inspect(f, func(n ast.Node) bool {
		if as, ok := n.(*ast.AssignStmt); ok && as.Tok == token.ASSIGN && len(as.Lhs) > 1 && len(as.Rhs) > 1 {
			for _, l := range as.Lhs {
				if tv, ok := info.Types[l]; ok && tv.Type != nil {
					if _, isI := tv.Type.Underlying().(*types.Interface); isI {
						region = "multi-assign-iface"
					}
				}
			}
		}
		return region == ""
	})
	return region
}

func c1EmptyBody(b *ast.BlockStmt) bool {
	for _, s := range b.List {
		if _, ok := s.(*ast.EmptyStmt); !ok {
			return false
		}
	}
	return true
}

func c1VarLike(e ast.Expr) bool {
	switch x := c1Unparen(e).(type) {
	case *ast.Ident:
		return x.Name != "true" && x.Name != "false"
	case *ast.SelectorExpr, *ast.IndexExpr, *ast.StarExpr:
		return true
	}
	return false
}

func c1HasCall(e ast.Expr) bool {
	found := false
	ast.Inspect(e, func(n ast.Node) bool {
		if c, ok := n.(*ast.CallExpr); ok {
			// conversions and len are harmless, but deciding that needs types: be conservative except for builtins
			if id, ok := c.Fun.(*ast.Ident); ok {
				switch id.Name {
				case "len", "cap", "int", "int8", "int16", "int32", "int64", "uint", "uint8", "uint16", "uint32", "uint64", "float64", "string", "rune", "bool":
					return true
				}
			}
			found = true
		}
		return true
	})
	return found
}

// c1NestedConstOp: the expression contains, below at least one operator, an operator expression with a literal operand.
func c1NestedConstOp(e ast.Expr, depth int) bool {
	switch x := e.(type) {
	case *ast.ParenExpr:
		return c1NestedConstOp(x.X, depth)
	case *ast.BinaryExpr:
		if depth >= 1 {
			if _, ok := c1Unparen(x.X).(*ast.BasicLit); ok {
				return true
			}
			if _, ok := c1Unparen(x.Y).(*ast.BasicLit); ok {
				return true
			}
		}
		return c1NestedConstOp(x.X, depth+1) || c1NestedConstOp(x.Y, depth+1)
	case *ast.UnaryExpr:
		return c1NestedConstOp(x.X, depth+1)
	case *ast.CallExpr:
		for _, a := range x.Args {
			if c1NestedConstOp(a, depth+1) {
				return true
			}
		}
	}
	return false
}

func c1Mentions(n ast.Node, names []string) bool {
	found := false
	ast.Inspect(n, func(m ast.Node) bool {
		if id, ok := m.(*ast.Ident); ok {
			for _, x := range names {
				if id.Name == x {
					found = true
				}
			}
		}
		return true
	})
	return found
}

// c1Writes: the subtree assigns, increments or takes the address of an identifier called name.
func c1Writes(n ast.Node, name string) bool {
	found := false
	isName := func(e ast.Expr) bool {
		id, ok := c1Unparen(e).(*ast.Ident)
		return ok && id.Name == name
	}
	ast.Inspect(n, func(m ast.Node) bool {
		switch x := m.(type) {
		case *ast.AssignStmt:
			for _, l := range x.Lhs {
				if isName(l) {
					found = true
				}
			}
		case *ast.IncDecStmt:
			if isName(x.X) {
				found = true
			}
		case *ast.UnaryExpr:
			if x.Op == token.AND && isName(x.X) {
				found = true
			}
		case *ast.RangeStmt:
			if x.Key != nil && isName(x.Key) || x.Value != nil && isName(x.Value) {
				found = true
			}
		}
		return true
	})
	return found
}

func c1FuncLitMentions(n ast.Node, names []string) bool {
	found := false
	ast.Inspect(n, func(m ast.Node) bool {
		if fl, ok := m.(*ast.FuncLit); ok && c1Mentions(fl.Body, names) {
			found = true
		}
		return true
	})
	return found
}

// c1BodyDeclared: the variables declared by := or var directly in the statement list of a loop body
// (each execution creates a new variable; a deferred literal runs on the live frame and sees the last).
func c1BodyDeclared(body *ast.BlockStmt) []string {
	var names []string
	for _, st := range body.List {
		switch x := st.(type) {
		case *ast.AssignStmt:
			if x.Tok == token.DEFINE {
				for _, l := range x.Lhs {
					if id, ok := l.(*ast.Ident); ok && id.Name != "_" {
						names = append(names, id.Name)
					}
				}
			}
		case *ast.DeclStmt:
			if gd, ok := x.Decl.(*ast.GenDecl); ok && gd.Tok == token.VAR {
				for _, sp := range gd.Specs {
					if vs, ok := sp.(*ast.ValueSpec); ok {
						for _, id := range vs.Names {
							if id.Name != "_" {
								names = append(names, id.Name)
							}
						}
					}
				}
			}
		}
	}
	return names
}

func c1DeferInLoop(body *ast.BlockStmt, names []string, set func(string)) {
	if len(names) == 0 {
		return
	}
	ast.Inspect(body, func(m ast.Node) bool {
		if d, ok := m.(*ast.DeferStmt); ok {
			if fl, ok := d.Call.Fun.(*ast.FuncLit); ok && c1Mentions(fl.Body, names) {
				set("loopvar-defer")
			}
		}
		return true
	})
}

func c1ClassifyFor(x *ast.ForStmt, set func(string)) {
	if x.Init != nil && x.Cond == nil && x.Post == nil {
		set("for-init-only")
	}
	as, ok := x.Init.(*ast.AssignStmt)
	if !ok || as.Tok != token.DEFINE {
		return
	}
	var names []string
	for _, l := range as.Lhs {
		if id, ok := l.(*ast.Ident); ok && id.Name != "_" {
			names = append(names, id.Name)
		}
	}
	if len(names) == 0 {
		return
	}
	full := x.Cond != nil && x.Post != nil
	if full && c1EmptyBody(x.Body) {
		set("loop-empty-body")
	}
	if full {
		if c1Writes(x.Body, names[0]) {
			set("loopvar-assign")
		}
		if len(names) > 1 && c1FuncLitMentions(x.Body, names[1:]) {
			set("loopvar-second")
		}
		c1DeferInLoop(x.Body, names[:1], set)
	} else if c1FuncLitMentions(x.Body, names) {
		set("loopvar-nocond")
	}
}

func c1ClassifyReturns(ft *ast.FuncType, body *ast.BlockStmt, set func(string)) {
	if ft.Results == nil || body == nil {
		return
	}
	var names []string
	for _, f := range ft.Results.List {
		for _, id := range f.Names {
			if id.Name != "_" {
				names = append(names, id.Name)
			}
		}
	}
	if len(names) == 0 {
		return
	}
	// every named result is assigned (from an expression not naming a result) before anything else
	for i, nm := range names {
		ok := false
		if i < len(body.List) {
			if as, isAs := body.List[i].(*ast.AssignStmt); isAs && as.Tok == token.ASSIGN && len(as.Lhs) == 1 && len(as.Rhs) == 1 {
				if id, isId := as.Lhs[0].(*ast.Ident); isId && id.Name == nm && !c1Mentions(as.Rhs[0], names) {
					ok = true
				}
			}
		}
		if !ok {
			set("named-result-zero")
		}
	}
	ast.Inspect(body, func(m ast.Node) bool {
		switch r := m.(type) {
		case *ast.FuncLit:
			return false
		case *ast.ReturnStmt:
			for _, e := range r.Results {
				if c1Mentions(e, names) {
					set("return-named")
				}
			}
		}
		return true
	})
}

var c1Builtins = map[string]bool{"len": true, "cap": true, "append": true, "copy": true, "make": true, "new": true,
	"complex": true, "real": true, "imag": true, "min": true, "max": true}

// c1BuiltinResult: a return with several results one of which, not the first, is a direct builtin call.
func c1BuiltinResult(r *ast.ReturnStmt) bool {
	if len(r.Results) < 2 {
		return false
	}
	for _, e := range r.Results[1:] {
		if c, ok := c1Unparen(e).(*ast.CallExpr); ok {
			if id, ok := c.Fun.(*ast.Ident); ok && c1Builtins[id.Name] {
				return true
			}
		}
	}
	return false
}

func c1Unparen(e ast.Expr) ast.Expr {
	for {
		p, ok := e.(*ast.ParenExpr)
		if !ok {
			return e
		}
		e = p.X
	}
}
