//go:build !race

package main

// c08raceEnabled: this binary was built without the Go race detector.
const c08raceEnabled = false
