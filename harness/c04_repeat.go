package main

import (
	"fmt"
	"strings"
)

// The repeated-site stream of C04: every read expression that yields a COPY of an aggregate or a
// fresh zero value must do so at every execution of the expression, also when the SAME expression
// site is executed several times within ONE function activation (result slots, pre-built zero
// values and temporaries belong to the site / the frame, not to the evaluation).  Cross product,
// every cell in every history of the stream:
//
//	site  {v := m[k], v, ok := m[k], w = m[k] (variable declared outside the loop), m[k] as an
//	       argument, array element, slice element, field of a slice element, *p, v := <-c,
//	       v, ok := <-c (also after close), x.(T), v, ok := x.(T), range value variable}
//	x element type {struct, array, struct containing an array, array of structs, interface holding a struct}
//	x a seeded sequence of 3-5 keys / indices mixing hits (non-zero element) and misses (absent key,
//	  zero element, closed channel, other dynamic type); over the 8 histories of the stream every
//	  cell sees every order of length 3 (miss-hit-miss, hit-miss-hit, ...) as the head of its sequence
//	x the loop runs in main or in a function literal called once.
//
// The value obtained at each iteration is printed, mutated and printed again (sharing between
// iterations, with the container or with a per-site zero value shows at a later iteration), the
// container is printed after the loop.  The cells use containers of their own: the pool is not
// touched (no equivalent core operations).  Loops over seeded sequences and printing inside the
// loop are outside the Coq grammar: compared yaegi-vs-compiled only (whole standard output).

// (declared in the prelude of every generated program)
const c04RepeatDecls = `// element types of the repeated-site stream
type RpT struct {
	N int
	B string
}
type RpU struct {
	N int
	A [2]int
}
type RpH0 struct {
	K int
	F RpT
}
type RpH1 struct {
	K int
	F [3]int
}
type RpH2 struct {
	K int
	F RpU
}
type RpH3 struct {
	K int
	F [2]RpT
}
type RpH4 struct {
	K int
	F interface{}
}

`

type c04rpTy struct {
	label string
	name  string
	lit   func(n int) string
	zero  string
	mut   func(v string) []string
}

var c04RepeatTypes = []c04rpTy{
	{"struct", "RpT", func(n int) string { return fmt.Sprintf("RpT{N: %d, B: \"b%d\"}", n, n) }, "RpT{}",
		func(v string) []string { return []string{v + ".N += 100", v + ".B += \"!\""} }},
	{"array", "[3]int", func(n int) string { return fmt.Sprintf("[3]int{%d, %d, %d}", n, n+1, n+2) }, "[3]int{}",
		func(v string) []string { return []string{v + "[0] += 100", v + "[2]--"} }},
	{"struct containing array", "RpU", func(n int) string { return fmt.Sprintf("RpU{N: %d, A: [2]int{%d, %d}}", n, n, -n) }, "RpU{}",
		func(v string) []string { return []string{v + ".N += 100", v + ".A[1] += 7"} }},
	{"array of structs", "[2]RpT", func(n int) string { return fmt.Sprintf("[2]RpT{{N: %d}, {B: \"y%d\"}}", n, n) }, "[2]RpT{}",
		func(v string) []string { return []string{v + "[1].N += 100", v + "[0].B += \"!\""} }},
	{"interface holding struct", "interface{}", func(n int) string { return fmt.Sprintf("RpT{N: %d, B: \"i%d\"}", n, n) }, "nil",
		func(v string) []string {
			return []string{"if xt, xtok := " + v + ".(RpT); xtok {", "\txt.N += 100", "\t" + v + " = xt", "} else {", "\t" + v + " = RpT{N: -1}", "}"}
		}},
}

var c04RepeatSites = []string{"map index define", "map index comma-ok", "map index assigned to outer variable", "map index as argument",
	"array element", "slice element", "field of slice element", "pointer dereference", "channel receive", "channel receive comma-ok",
	"type assertion", "type assertion comma-ok", "range value variable"}

// repeatOp builds one cell: site x element type, the sequence pat (true = hit).
func (g *c04gen) repeatOp(site, ty int, pat []bool, inLit bool) *c04op {
	t := c04RepeatTypes[ty]
	tag := fmt.Sprintf("\"c%d.%d\"", site, ty)
	base := 1 + g.r.intn(40)
	intKeys := g.r.bool()
	var L []string
	add := func(f string, a ...any) { L = append(L, fmt.Sprintf(f, a...)) }
	show := func(what string, vals ...string) {
		add("\tfmt.Println(\"rp\", %s, xit, %s, %s)", tag, what, strings.Join(vals, ", "))
	}
	body := func(v string, extra ...string) {
		show("\"got\"", append([]string{v}, extra...)...)
		for _, m := range t.mut(v) {
			add("\t%s", m)
		}
		show("\"mut\"", v)
	}
	end := func(c string) { add("fmt.Println(\"rp\", %s, \"end\", %s)", tag, c) }
	// per position: the value stored for a hit / a miss
	val := func(i int) string {
		if pat[i] {
			return t.lit(base + i)
		}
		return t.zero
	}
	switch site {
	case 0, 1, 2, 3: // map index: hits are present keys, misses absent keys
		kt, key := "string", func(n int) string { return fmt.Sprintf("\"k%d\"", n) }
		if intKeys {
			kt, key = "int", func(n int) string { return fmt.Sprint(n) }
		}
		add("xm := map[%s]%s{%s: %s, %s: %s}", kt, t.name, key(0), t.lit(base), key(1), t.lit(base+1))
		var ks []string
		for _, h := range pat {
			n := g.r.intn(2)
			if !h {
				n += 7
			}
			ks = append(ks, key(n))
		}
		add("xks := []%s{%s}", kt, strings.Join(ks, ", "))
		if site == 2 {
			add("var xw %s", t.name)
		}
		add("for xit, xk := range xks {")
		switch site {
		case 0:
			add("\txv := xm[xk]")
			body("xv", "xk")
		case 1:
			add("\txv, xok := xm[xk]")
			body("xv", "xk", "xok")
		case 2:
			add("\txw = xm[xk]")
			body("xw", "xk")
		default:
			show("\"arg\"", "xm[xk]", "xk")
			add("\txv := xm[xk]")
			body("xv", "xk")
		}
		add("}")
		end("xm")
	case 4, 5, 6, 7: // element / field / pointee reads: hits are non-zero elements, misses zero elements
		var idx []string
		for _, h := range pat {
			n := 2 * g.r.intn(2)
			if h {
				n++
			}
			idx = append(idx, fmt.Sprint(n))
		}
		switch site {
		case 4, 7:
			add("xa := [4]%s{1: %s, 3: %s}", t.name, t.lit(base), t.lit(base+1))
		case 5:
			add("xa := []%s{%s, %s, %s, %s}", t.name, t.zero, t.lit(base), t.zero, t.lit(base+1))
		default:
			add("xa := []RpH%d{{K: 0}, {K: 1, F: %s}, {K: 2}, {K: 3, F: %s}}", ty, t.lit(base), t.lit(base+1))
		}
		if site == 7 {
			add("xps := []*%s{&xa[0], &xa[1], &xa[2], &xa[3]}", t.name)
		}
		add("xis := []int{%s}", strings.Join(idx, ", "))
		add("for xit, xi := range xis {")
		switch site {
		case 4, 5:
			add("\txv := xa[xi]")
		case 6:
			add("\txv := xa[xi].F")
		default:
			add("\txv := *xps[xi]")
		}
		body("xv", "xi")
		add("}")
		end("xa")
	case 8, 9: // channel receive: the sequence is sent, then the channel is closed
		add("xc := make(chan %s, %d)", t.name, len(pat))
		for i := range pat {
			add("xc <- %s", val(i))
		}
		add("close(xc)")
		add("for xit := 0; xit < %d; xit++ {", len(pat)+2)
		if site == 8 {
			add("\txv := <-xc")
			body("xv")
		} else {
			add("\txv, xok := <-xc")
			body("xv", "xok")
		}
		add("}")
		end("len(xc)")
	case 10, 11: // type assertion; comma-ok: misses hold another dynamic type or nil
		var es []string
		for i, h := range pat {
			switch {
			case h || site == 10:
				es = append(es, val(i))
			case g.r.bool():
				es = append(es, fmt.Sprint(base+i))
			default:
				es = append(es, "nil")
			}
		}
		add("xes := []interface{}{%s}", strings.Join(es, ", "))
		add("for xit := range xes {")
		if site == 10 {
			add("\txv := xes[xit].(%s)", t.name)
			body("xv")
		} else {
			add("\txv, xok := xes[xit].(%s)", t.name)
			body("xv", "xok")
		}
		add("}")
		end("xes")
	default: // range value variable over a slice / an array
		var es []string
		for i := range pat {
			es = append(es, val(i))
		}
		if intKeys {
			add("xs := [%d]%s{%s}", len(pat), t.name, strings.Join(es, ", "))
		} else {
			add("xs := []%s{%s}", t.name, strings.Join(es, ", "))
		}
		add("for xit, xv := range xs {")
		body("xv")
		add("}")
		end("xs")
	}
	o := &c04op{K: "sugar", Unmodelled: true, Sugar: fmt.Sprintf("repeat:%d:%d", site, ty)}
	open, cl := "{", "}"
	if inLit {
		open, cl = "func() {", "}()"
	}
	o.Text = append(o.Text, open)
	for _, l := range L {
		o.Text = append(o.Text, "\t"+l)
	}
	o.Text = append(o.Text, cl)
	return o
}

const c04RepeatCommaOKRegion = "map-commaok-result-not-fresh"
const c04RepeatAssertRegion = "typeassert-commaok-result-not-fresh"
const c04RepeatRecvRegion = "chan-recv-result-unaddressable"

// c04RepeatSkip: cells that make no sense (asserting an interface value to interface{} never misses
// and yields no aggregate).
func c04RepeatSkip(site, ty int) bool {
	return (site == 10 || site == 11) && c04RepeatTypes[ty].name == "interface{}"
}

// c04Repeat builds history k (0..7) of the stream: all cells; the head of the sequence of cell c is
// the order number (k + c) mod 8 of length 3, followed by 0-2 seeded positions.
func c04Repeat(id int, seed uint64, k int) *c04hist {
	g := c04NewGen(newRng(seed), "")
	h := &c04hist{ID: id, Seed: seed, Region: "", Modelled: false, Boundary: fmt.Sprintf("repeat/%d", k)}
	var out [][]int64
	try := func(o *c04op) bool {
		cl := g.st.clone()
		var scratch [][]int64
		if cl.tryExec(o, &scratch) != "" {
			return false
		}
		g.commit(o, &out)
		h.Ops = append(h.Ops, o)
		return true
	}
	try(&c04op{K: "dump"})
	h.Ops = append(h.Ops, g.setup(&out)...)
	try(&c04op{K: "dump"})
	c := 0
	// v, ok := m[k] deviates on the unchanged tree (finding C04-map-commaok-result-not-fresh): its cells
	// form histories of their own (k >= 8) inside the region of that name
	// v := <-c likewise (finding C04-chan-recv-result-unaddressable): history 10
	group := 0
	switch {
	case k >= 11: // v, ok := x.(T) (finding C04-typeassert-commaok-result-not-fresh): history 11
		group, h.Region = 3, c04RepeatAssertRegion
	case k >= 10:
		group, h.Region = 2, c04RepeatRecvRegion
	case k >= 8:
		group, h.Region = 1, c04RepeatCommaOKRegion
	}
	groupOf := func(site int) int {
		switch site {
		case 1:
			return 1
		case 8, 9:
			return 2
		case 11:
			return 3
		}
		return 0
	}
	for site := range c04RepeatSites {
		for ty := range c04RepeatTypes {
			if c04RepeatSkip(site, ty) || groupOf(site) != group {
				continue
			}
			c++
			head := (k + c) % 8
			pat := []bool{head&4 != 0, head&2 != 0, head&1 != 0}
			for n := g.r.intn(3); n > 0; n-- {
				pat = append(pat, g.r.bool())
			}
			if try(g.repeatOp(site, ty, pat, (k+c/8)%2 == 1)) {
				g.stats[fmt.Sprintf("cell:repeat:%d:%d", site, ty)]++
				g.stats[fmt.Sprintf("cell:repeat-order:%d:%d:%d", site, ty, head)]++
			}
		}
		// something random in between, so that the frame has other slots in use
		h.Ops = append(h.Ops, g.next(1, &out))
		try(&c04op{K: "dump"})
	}
	h.Expect = out
	h.Grow = g.st.Grow
	h.Stats = g.stats
	h.Src = c04Program(g.fns, nil, h.Ops)
	return h
}
